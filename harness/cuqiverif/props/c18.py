"""C18 - PDE models solve the discretised equations given and observe them consistently.

Spec: specs/PDE.tla (+ lib/MatQ.tla).  TLC assembles / solves the steady systems exactly (with their parameter
sensitivities), runs forward / backward Euler as a state machine <<idx, u>> on non-uniform rational time grids with
time-dependent operator and source, logs the times at which the form is assembled, checks that every stored level
satisfies the documented discrete equation, and specifies Observe by restriction (coinciding nodes / times) and on
polynomial data (interpolation).  This module builds the real SteadyStateLinearPDE / TimeDependentLinearPDE / PDEModel
objects from the emitted callables and compares after every step of assemble - solve - observe.

Kinds "sseq" / "tseq" (sequences of calls on ONE object): PDE.tla explores, depth bounded, every sequence of
SetGridObs (incl. None) / SetGridSol / SetTimeObs / Assemble / Solve / Observe / Forward calls on one PDE object, with the
cached grid-equality decision as part of the state and the invariant that every observation is the one for the CURRENT
grids and times (named deviation DevStaleGridFlag must violate it); each emitted behaviour is replayed here on one real
SteadyStateLinearPDE / TimeDependentLinearPDE object (or on the PDEModel wrapping it) and compared after every call.

Modes of these kinds (field `mode`): "grid" = the above; "param" = the parameter arrays have an IDENTITY in the spec (heap:
object -> current value; MutateParam = in-place modification; Use = assemble-solve-observe / PDEModel.forward with the array
itself or a copy; invariants SeqParamCurrent / SeqSameParamSameValue / SeqArgsUntouched; named deviation
DevAssembleSkipsSameObject); "ginp" = the arrays handed over as grids stay with the caller (MutateGrid in place, Reassign = the
same array handed over again; deviation DevSetterSkipsSameObject).  Between an in-place modification of a grid array and the
next hand-over nothing is documented: those observations are recorded (ctx.observations), never compared.
"order" = THE ORDER OF THE OBSERVATION GRID / TIMES is the user's: grid_obs / time_obs reversed, permuted, unsorted sub-selections of
the solution nodes / time levels, repeated nodes, points between the nodes in non-ascending order - at construction and through
SetGridObs / SetGridSol / SetTimeObs; observed[k] is the value at grid_obs[k] (named deviation DevObserveInSolutionOrder: a mask of
the solution nodes -> solution-grid order, must violate SeqObserveCurrent).  The same grids / times are cases of the kinds sobs /
tobs (polynomial data), steady (omode perm / pick) and time (explu / finalrev).  A refusal of a repeated node / time is an
observation; a refusal of an unsorted sequence is a mismatch `.../refused_not_ascending` (C18-F2, repaired in /repo).
"solve" = SEVERAL PARAMETERS THROUGH ONE TIME-DEPENDENT OBJECT: Assemble(p1) Solve Assemble(p2) Solve ... / Forward(p1) Forward(p2)
Gradient(p) on time grids with ONE, two, three steps and one / two nodes, operator, source and initial condition depending on the
parameter and on time; the spec's Solve goes through the assemble_step calls and the object keeps the step system <<time, parameter>>
between the calls (SeqSolveCurrent; deviation DevStaleStepSystem).  WHERE THE GRIDS LIE (field xf of the kinds sobs / tobs and of the
mode grid): all nodes / time levels under x = om 2^oe + 2^se xi (translated by 0, +-2^10, +-2^20, scaled by 2^-30 .. 2^20), staggered
grids of the length of the solution grid - the expected values do not depend on xf (ObsAffine, SeqObserveAffine) and 'equal' is
equality node for node (SobsImplExact / TobsImplExact; deviation DevEqualWithinTolerance).  DATA LAYOUT AND TYPE: the same numbers
as integer / float32 / non-contiguous / read-only arrays (time_obs and parameters also as lists).
Second module specs/PDESolGrid.tla (helper cuqiverif/c18_solgrid.py): THE SOLUTION GRID is an ordered sequence too - grid_sol ascending /
descending / permuted / two nodes swapped with the solution vector in that node order; Observe returns p(grid_obs[i]) whatever the
numbering of the solution nodes (SolOrderExact, SolOrderInvariant; deviation DevAssumeSorted), the solution itself when grid_obs is
grid_sol node for node (Restriction); steady class asserted (observe, assemble-solve-observe, PDEModel.forward), time class: exact
restriction asserted, interpolation on a non-ascending solution grid only observed (RectBivariateSpline refuses).
"""
META = {
    "claimed": True,
    "engine": "PDE.tla + PDESolGrid.tla + PDETimeSeq.tla",
    "text": ("PDETimeSeq.tla: ONE TimeDependentLinearPDE whose time_steps attribute / method are re-assigned between solves - every "
             "level of every solve satisfies the recurrence on the grid and with the method of THAT solve (SolveCurrent; deviation StaleDt "
             "refuted); emitted behaviours replayed on one real object. "
             "TLC checks on the specification: A(th)u=f and the differentiated system (steady, 2x2/3x3, integer-affine dependence, "
             "solver return shapes array/(array,info)/(array,info1,info2)); every level of the forward/backward Euler state "
             "machine satisfies the documented discrete equation with operator A0+tA1 and source assembled at t_idx / t_idx+1 on "
             "non-uniform rational grids, initial condition assembled once, final index reached, one assembly per step; Observe = "
             "restriction at coinciding nodes/times and = p(x_obs,t_obs) on polynomial data (two independent Lagrange interpolants "
             "agree). The harness builds the real PDE objects from the emitted callables and compares the assembled system, solve() "
             "at every stored level (rtol 1e-10), the (theta,t) arguments of every PDE_form call, observe() for final/all/explicit "
             "times and coinciding/shifted grids, PDEModel.forward and its gradient (supplied Jacobian / direction-Jacobian, and "
             "finite differences of forward against TLC's exact Jacobian). "
             "Sequences on ONE object: a depth-bounded state machine over <<grid_sol, grid_obs, time_obs, cached equality flag, "
             "assembled parameter, last solution>> with the actions SetGridObs (incl. None), SetGridSol, SetTimeObs, Assemble, Solve, "
             "Observe, Forward (=PDEModel.forward) and a history variable; TLC checks that every Observe/Forward returns the "
             "restriction/interpolant for the CURRENT grids and times (SeqObserveCurrent; the named deviation 'grid_obs setter does "
             "not refresh the cached equality flag' must violate it) on 3-node / 4x4-node grids where the documented quadratic / "
             "bicubic interpolant is the Lagrange polynomial (exact rationals for any solution); every emitted behaviour is replayed "
             "on one real SteadyStateLinearPDE / TimeDependentLinearPDE object, or through PDEModel.forward with the grids of "
             "model.pde changed between evaluations, comparing getters, assembled system, solution and observation after every call. "
             "Arrays with an identity (modes param / ginp of the same state machine): the caller's two parameter arrays P, Q are a heap "
             "object -> current value; MutateParam modifies one IN PLACE, Use(a) is assemble(a).solve().observe() on the PDE object or "
             "PDEModel.forward(a) with the array itself or a copy; the object remembers the identity assembled last next to the value "
             "its system belongs to. TLC checks SeqParamCurrent (system, solution and observation of every Use belong to the CURRENT "
             "value of the supplied array; the named deviation 'assemble returns early for the parameter object assembled last' must "
             "violate it), SeqSameParamSameValue (copy = same object; f(th1).f(th2).f(th1): third = first), SeqArgsUntouched (no call "
             "changes an array of the caller). Grid arrays handed over by reference: MutateGrid in place, Reassign = the setter called "
             "with the SAME array (time_obs: new object with the same arrays) after which the observation has to be the one for the "
             "new values (deviation 'setter given the array it holds keeps the cached flag' must violate SeqObserveCurrent). Every "
             "behaviour is replayed on one real object with two real arrays modified in place; after every call the result is compared "
             "with TLC's exact value for the parameter of THAT call, with the first result for the same value, and the caller's arrays "
             "with the spec's heap. "
             "Order of the observation grid / times (mode order and the grids rev / perm / subu / rep / repu / shiftu / mixu, times allrev "
             "/ subu / finu / rep / shiftu / mixu of the one-shot kinds, omodes perm / pick / explu / finalrev): grid_obs and time_obs "
             "are sequences in an order of the user's choice - reversed, permuted, unsorted sub-selections of the solution nodes / time "
             "levels, repeated nodes, points between the nodes in non-ascending order, at construction and through SetGridObs / "
             "SetGridSol / SetTimeObs on an object that has observed before; the specification looks every observation node / time up "
             "(observed[i][j] = value at grid_obs[i], time_obs[j]; SeqObserveCurrent, SteadyObserve, TobsExact, SobsExact), "
             "SeqOrderVisible guarantees that another order is another observation, and the named deviation 'observation nodes that "
             "are all solution nodes are read off with a mask of the solution grid' must violate SeqObserveCurrent. Replayed on both "
             "PDE classes, with and without observation map, through observe() and PDEModel.forward (steady: also its Jacobian). "
             "Several parameters through ONE time-dependent object (mode solve): Assemble(p1) Solve Assemble(p2) Solve ... and Solve twice "
             "on the PDE object, Forward(p1) Forward(p2) Gradient(p) through PDEModel, on time grids with ONE, two and three steps "
             "(rational and integer levels), one and two nodes, both methods, with operator A0 + t A1 + th1 A2, source and initial "
             "condition depending on the parameter and on time; the spec's Solve is the sequence of assemble_step calls of solve() and "
             "the object keeps the step system <<time, parameter>> it holds between the calls; TLC checks SeqSolveCurrent (every stored "
             "level satisfies the documented recurrence from the initial condition for the parameter assembled LAST, residual form) and "
             "SeqSensCurrent (the Jacobian a Gradient call is answered with satisfies the differentiated recurrence at the parameter of "
             "THAT call); the named deviation 'assemble_step(t) keeps the system it holds when that was assembled at the same time' must "
             "violate SeqSolveCurrent. Replayed on one real TimeDependentLinearPDE / PDEModel per behaviour and per admissible layout of "
             "the time levels: every solve against TLC's exact levels (1e-10), observe / forward, PDEModel.gradient with the exact "
             "Jacobian supplied (and central differences of forward on a fresh object). Single node / single time step also as steady and "
             "time problems. "
             "Where the grids lie on the axis (field xf): the kinds sobs / tobs and depth-3 setter sequences of the mode grid are repeated "
             "with every node, time level and observation time under x = om 2^oe + 2^se xi (translated by 2^10, +-2^20, scaled by 2^-30, "
             "2^-20, 2^20, cells of 2^-7 at 2^10 and of 2^-11 at 2^20; powers of two, so the replayer builds exactly these grids), with "
             "staggered observation grids / times of the length of the solution grid / one time next to the final time; TLC checks that "
             "the expected values do not depend on xf (ObsAffine, SeqObserveAffine: Lagrange interpolants on the moved grids, for every xf "
             "whose nodes fit 32-bit rationals) and that the implementation-shaped observation (equal = node for node) is p(x_obs) "
             "wherever the grids lie (SobsImplExact, TobsImplExact); the named deviation 'equal within a tolerance relative to the "
             "magnitude of the nodes' must violate them (two cfgs: steady, time). "
             "Data layout and type: every sobs / tobs case a second time and every solve-mode behaviour with the same numbers as integer, "
             "float32 (only exactly representable values; tolerance 1e-6), non-contiguous and read-only arrays - grids, time levels, "
             "time_obs (also as list), parameters (also as list on the PDE object), the initial condition returned by the form. "
             "PDESolGrid.tla: the SOLUTION grid as an ordered sequence - 3 / 4 / 5 reference nodes in the node orders ascending, descending, "
             "permuted, two nodes swapped, the solution vector (quadratic data, nodal values pairwise different: OrderVisible) in that "
             "order, observation grids same / all nodes ascending / reversed / unsorted subset / midpoints ascending and not / mixed; "
             "SolOrderExact (the specification's Observe - stored value at coinciding nodes, parabola through sorted pairs otherwise - "
             "and the implementation-shaped sort-locate-evaluate both return p(grid_obs[i])), SolOrderInvariant (independent of the "
             "numbering), Restriction (no interpolation iff node for node equal); the named deviation 'pairs taken as sorted' must "
             "violate SolOrderExact; replayed on SteadyStateLinearPDE (observe, assemble-solve-observe, PDEModel.forward, maps id / sq "
             "/ first) and on TimeDependentLinearPDE (last level itself when grid_obs is grid_sol and the final time is observed)."),
    "note": ("Interpolation by TimeDependentLinearPDE on a solution grid that is not ascending is refused by scipy's RectBivariateSpline: "
             "recorded (observation time_class_interpolation_on_unsorted_grid_sol), not asserted. ""Bounded sizes (2-4 nodes for solve, 5x5 nodes for observation); interpolation on non-polynomial data at non-coinciding "
             "points is not specified. 'all'/explicit observation needs >= 4 nodes and >= 4 time levels in the code (bicubic spline); "
             "smaller grids are recorded as an observation only. PDEModel with matrix-valued observations (several times) is "
             "exercised through observe(solve()) only. Sequences: depth <= 5 calls (quick) / 6 (thorough) after construct-assemble-"
             "solve, at most 2 setter calls; TimeDependentLinearPDE has no public time_obs setter, so SetTimeObs is realised by "
             "the setter if a public property `time_obs` with a setter exists and otherwise by constructing a new object with the "
             "current grids (the documented way to choose time_obs); grid_sol is only changed while grid_obs is explicit (whether "
             "a grid_obs given as None follows grid_sol is not documented); if a tier emits more behaviours than its budget (3000 "
             "quick / 25000 thorough; not the case for the committed bounds) all behaviours of <= 3 calls and a VERIF_SEED-seeded "
             "sample of the longer ones are replayed. Identity modes: <= 4 (quick) / 5 (thorough) calls with <= 2 in-place "
             "modifications of a parameter array, <= 5 / 6 calls with <= 2 in-place modifications of a grid array; an in-place "
             "modification of the parameter BETWEEN assemble and solve (without a new assemble) and an observation after an in-place "
             "modification of a grid array that was not handed over again are not documented - not in the model / recorded as "
             "observation; that a call does not modify the caller's arrays is asserted (the result would not belong to the supplied "
             "parameter). Order mode: <= 3 (quick) / 4 (thorough) calls; whether a node / time given TWICE is accepted is not documented "
             "(a refusal is recorded as observation, an accepted call is compared); a refusal of an unsorted grid / times is a "
             "mismatch (TimeDependentLinearPDE on the unchanged tree: open finding C18-F2, so these cases are compared only where the "
             "library returns - final time on the solution grid, repeated ascending nodes - until the proposed fix is applied). "
             "Mode solve: <= 6 calls (3 assemble-solve pairs, one repeated solve) / 4 model calls; observation there is the final time on "
             "the solution grid (fewer than 4 levels). A single node observed at a single time comes back as a 0-d array (squeeze): the "
             "shape is recorded, the value compared. Changes of variable whose nodes do not fit 32-bit rationals (sm30, t20sm10) are "
             "replayed on the strength of ObsAffine (checked by TLC for the others). Python lists as grid_sol / grid_obs / time_steps "
             "are not documented (np.ndarray) - recorded as observation only; layouts rotate with the position of the case."),
    "technique": "TLA+ specs (PDE, PDESolGrid, PDETimeSeq) model-checked with TLC; TLC-emitted problems and exact rational trajectories replayed into cuqi.pde / PDEModel",
}

import contextlib, io, json, warnings
from fractions import Fraction

import numpy as np

RTOL = 1e-10


def _q(q):
    return float(Fraction(q[0], q[1]))


def _qv(v):
    return np.array([_q(q) for q in v], dtype=float)


def _qm(M):
    return np.array([[_q(q) for q in row] for row in M], dtype=float)


def _close(a, b, rtol=RTOL):
    a, b = np.asarray(a, dtype=float), np.asarray(b, dtype=float)
    if a.shape != b.shape or not np.all(np.isfinite(a)):
        return False
    return bool(np.all(np.abs(a - b) <= rtol * max(1.0, float(np.abs(b).max()) if b.size else 1.0)))


def _one(ctx, got, exp):
    """a SINGLE node observed at a single time: whether the observation is a vector of length one or a 0-d array is not
    documented (TimeDependentLinearPDE.observe squeezes every axis of length one) - the value is compared, the shape recorded"""
    got = np.asarray(got, dtype=float)
    if np.size(exp) == 1 and got.size == 1 and got.shape != np.shape(exp):
        ctx.observations["single_node_single_time_observation_shape"] = repr(got.shape)
        return got.reshape(np.shape(exp))
    return got


def _pde_mod():
    from cuqiverif.core import MachineryError
    try:
        import cuqi
        cls = (cuqi.pde.SteadyStateLinearPDE, cuqi.pde.TimeDependentLinearPDE, cuqi.model.PDEModel)
    except Exception as e:
        raise MachineryError("cuqi.pde / PDEModel not importable: %r" % e)
    return cuqi


def _omap(name):
    return {"id": None, "sq": (lambda u: u ** 2), "first": (lambda u: u[:1])}[name]


def _apply(name, v):
    f = _omap(name)
    return v if f is None else f(v)


def _solver(ret, log):
    """linear solver with `ret` extra return values; logs (A, b, kwargs)"""
    def solve(A, b, **kw):
        log.append((np.array(A, dtype=float), np.array(b, dtype=float), dict(kw)))
        x = np.linalg.solve(np.asarray(A, dtype=float), np.asarray(b, dtype=float))
        if ret == 0:
            return x
        if ret == 1:
            return x, "info-1"
        return x, "info-1", 17
    return solve


def _quiet(fn):
    with warnings.catch_warnings():
        warnings.simplefilter("ignore")
        with contextlib.redirect_stdout(io.StringIO()):
            return fn()


# ---- data layout and type: the same numbers handed over as another kind of array -------------------------------------------
# "plain" float64 C-contiguous; "int" integer array (integral values only); "f32" float32 (values that float32 represents
# exactly only); "view" non-contiguous view; "ro" read-only array; "list" python list (only where array_like is documented)
def _layouts(a, allow=("plain", "int", "f32", "view", "ro")):
    a = np.asarray(a, dtype=float)
    out = []
    for how in allow:
        if how == "int" and not (a.size and np.all(a == np.round(a)) and np.all(np.abs(a) < 2.0 ** 52)):
            continue
        if how == "f32" and not np.array_equal(a.astype(np.float32).astype(float), a):
            continue
        out.append(how)
    return out


def _lay(a, how):
    a = np.array(a, dtype=float)
    if how == "int":
        return a.astype(np.int64)
    if how == "f32":
        return a.astype(np.float32)
    if how == "view":
        v = np.repeat(a, 2, axis=0)[::2]
        assert not v.flags["C_CONTIGUOUS"] or v.size <= 1
        return v
    if how == "ro":
        a.flags.writeable = False
        return a
    if how == "list":
        return a.tolist()
    return a


def _pick(a, idx, allow=("plain", "int", "f32", "view", "ro")):
    """the layout of the array `a` for the harness-side variant idx (deterministic; replay() runs idx = 0..11)"""
    ls = _layouts(a, allow)
    how = ls[idx % len(ls)]
    return _lay(a, how), how


def _xf_nodes(xfm, nodes):
    """PDE.tla, 'where the grids lie on the axis': x = om 2^oe + 2^se xi for the reference nodes xi (exact rationals); the result
    has to be exactly representable (powers of two) - otherwise the replayer would observe on other grids than the specification"""
    from cuqiverif.core import MachineryError
    om, oe, se = int(xfm["om"]), int(xfm["oe"]), int(xfm["se"])
    exact = [om * Fraction(2) ** oe + Fraction(2) ** se * Fraction(q[0], q[1]) for q in nodes]
    out = np.array([float(v) for v in exact], dtype=float)
    if any(Fraction(f) != v for f, v in zip(out.tolist(), exact)):
        raise MachineryError("change of variable %r: a node is not a binary floating point number" % (xfm,))
    return out


def _refused(ctx, order, sig, case, what, ex, expected=None, detail=None):
    # sig: function tag -> signature
    """An observation call raised.  `order` = the spec's class of the observation grid / times of that call:
    "asc"      - as before: a mismatch `.../raises`;
    "repeated" - a node / time given twice: whether the library accepts that is not documented; a refusal is an observation
                 (an ACCEPTED call has to return the values in the order of the observation grid);
    "unsorted" - no repeat, not ascending: the docstrings leave the order of grid_obs / time_obs to the user ('the grid on which
                 the observed solution should be interpolated', 'an array of the times at which the solution is observed'), so a
                 refusal is a mismatch with its own signature `.../refused_not_ascending`."""
    if order == "repeated":
        d = ctx.observations.setdefault("observe_with_repeated_node_or_time_refused", {})
        k = "%s (%s)" % ("/".join(sig("refused").split("/")[:3]), type(ex).__name__)
        d[k] = d.get(k, 0) + 1
        return
    if order == "unsorted":
        # (the tag only names the signature - both are mismatches: `refused_...` = a ValueError that says the nodes / times have to
        # be increasing, i.e. the input is refused as such; anything else that is raised for such an input = `raises_...`)
        tag = "refused_not_ascending" if isinstance(ex, ValueError) and "increasing" in str(ex) else "raises_not_ascending"
        ctx.mismatch(sig(tag), case, "%s raised %r for an observation grid / observation times that are not in "
                     "ascending order (the order is the user's choice; observed[k] belongs to grid_obs[k])" % (what, ex), expected,
                     repr(ex), detail=detail)
        return
    ctx.mismatch(sig("raises"), case, "%s raised %r" % (what, ex), expected, detail=detail)


# ----------------------------------------------------------------------------------------------------------
def check_steady(ctx, cuqi, c, idx):
    n = c["n"]
    A0, A1, A2 = (np.array(c[k], dtype=float) for k in ("A0", "A1", "A2"))
    f0, f1, f2 = (np.array(c[k], dtype=float) for k in ("f0", "f1", "f2"))
    th = np.array(c["th"], dtype=float)
    A_exp, f_exp, u_exp = _qm(c["A"]), _qv(c["f"]), _qv(c["u"])
    fwd_exp = _qv(c["fwd"])
    J_exp = np.array([_qv(col) for col in c["jac"]]).T          # (n_obs, 2)
    grid, gobs = _qv(c["grid"]), _qv(c["gobs"])
    key = "steady/n=%d/ret=%d/omode=%s/omap=%s" % (n, c["ret"], c["omode"], c["omap"])
    calls, slog = [], []

    def form(p):
        calls.append(np.array(p, dtype=float).copy())
        return A0 + p[0] * A1 + p[1] * A2, f0 + p[0] * f1 + p[1] * f2

    kwargs = {"tag": 3} if idx % 2 == 0 else None
    use_default = (c["ret"] == 0 and idx % 3 == 0)
    pde_kw = dict(grid_sol=grid, observation_map=_omap(c["omap"]))
    if c["omode"] != "same" or idx % 2 == 0:
        pde_kw["grid_obs"] = gobs                      # 'same': passing the identical grid == passing None
    if not use_default:
        pde_kw["linalg_solve"] = _solver(c["ret"], slog)
        if kwargs:
            pde_kw["linalg_solve_kwargs"] = kwargs
    ctx.case(("steady", c["A0"], c["th"], c["ret"], c["omode"], c["omap"]), facet="steady/" + c["omode"])
    # data layout and type: the parameter as float64 / integer / read-only / non-contiguous array or list (the form is the user's and
    # indexes it), the grids as read-only / non-contiguous arrays
    th_in, th_lay = _pick(th, idx, ("plain", "int", "ro", "view", "list"))
    if idx % 4 == 3:
        for g_ in ("grid_sol", "grid_obs"):
            if g_ in pde_kw:
                pde_kw[g_] = _pick(pde_kw[g_], idx // 4, ("ro", "view"))[0]
    try:
        pde = cuqi.pde.SteadyStateLinearPDE(form, **pde_kw)
        pde.assemble(th_in)
        out = _quiet(pde.solve)
    except Exception as e:
        ctx.mismatch(key + "/raises", c, "assemble/solve raised %r (parameter as %s)" % (e, th_lay))
        return
    if not np.array_equal(np.asarray(th_in, dtype=float), th):
        ctx.mismatch(key + "/arg_mutated", c, "assemble / solve changed the parameter array of the caller", th, th_in)
    # Assemble
    if not calls or any(not np.array_equal(p, th) for p in calls):
        ctx.mismatch(key + "/form_calls", c, "PDE_form is not evaluated at the supplied parameter", [th], calls)
    elif len(calls) != 1:          # how often the form is evaluated is neither required nor forbidden
        ctx.observations["steady_form_evaluations_per_assemble"] = len(calls)
    if not (np.array_equal(np.asarray(pde.diff_op, float), A_exp) and np.array_equal(np.asarray(pde.rhs, float), f_exp)):
        ctx.mismatch(key + "/assemble", c, "assembled operator / right-hand side are not A(theta), f(theta)", [A_exp, f_exp],
                     [pde.diff_op, pde.rhs])
    # Solve: (solution, info)
    if not (isinstance(out, tuple) and len(out) == 2):
        ctx.mismatch(key + "/solve_shape", c, "solve() does not return (solution, info)", "(solution, info)", repr(out)[:200])
        return
    sol, info = out
    try:
        sol = np.asarray(sol, dtype=float)
        ok_sol = sol.shape == (n,)
    except Exception:
        ok_sol = False
    if not ok_sol or not _close(A_exp @ sol, f_exp) or not _close(sol, u_exp):
        ctx.mismatch(key + "/solution", c, "returned solution does not satisfy the assembled system A(theta) u = f(theta)", u_exp, out[0])
        return
    if not use_default:
        exp_info = None if c["ret"] == 0 else (("info-1",) if c["ret"] == 1 else ("info-1", 17))
        same_info = (info is None or (isinstance(info, (tuple, list)) and len(info) == 0)) if c["ret"] == 0 else \
            (isinstance(info, (tuple, list)) and tuple(info) == exp_info)
        if not same_info:
            ctx.mismatch(key + "/info", c, "info is not the tuple of the values the linear solver returned after the solution",
                         exp_info, repr(info))
        if not slog or any(sl[2] != (kwargs or {}) or not np.array_equal(sl[0], A_exp) or not np.array_equal(sl[1], f_exp) for sl in slog):
            ctx.mismatch(key + "/solver_args", c, "linear solver is not called as linalg_solve(A, b, **linalg_solve_kwargs) with the "
                         "assembled system", [A_exp, f_exp, kwargs or {}], [list(sl) for sl in slog])
    # Observe
    try:
        obs = np.asarray(_quiet(lambda: pde.observe(sol)), dtype=float)
    except Exception as e:
        ctx.mismatch(key + "/observe_raises", c, "observe raised %r" % (e,), fwd_exp)
        return
    if c["omode"] == "same" and c["omap"] == "id":
        good = obs.shape == fwd_exp.shape and np.array_equal(obs, sol)          # restriction: the values themselves
    else:
        good = _close(obs, fwd_exp, 1e-9)
    if not good:
        ctx.mismatch(key + "/observe", c, "observe() is not the restriction / interpolant at the observation grid (observed[k] = value "
                     "at grid_obs[k], in the order of grid_obs=%s) followed by the observation map" % gobs.tolist(), fwd_exp, obs)
    # PDEModel = Observe o Solve o Assemble
    try:
        # a fresh PDE object whose FIRST assembly is for another parameter (a retained parameter / system would show)
        pde_m = cuqi.pde.SteadyStateLinearPDE(form, **pde_kw)
        model = _quiet(lambda: cuqi.model.PDEModel(pde_m, range_geometry=len(fwd_exp), domain_geometry=2))
        other = th + np.array([0.5, -0.25])
        y_other = _quiet(lambda: model.forward(other))
        y = np.asarray(_quiet(lambda: model.forward(_pick(th, idx + 1, ("plain", "int", "ro", "view"))[0])), dtype=float)
    except Exception as e:
        ctx.mismatch(key + "/model_raises", c, "PDEModel.forward raised %r" % (e,), fwd_exp)
        return
    ctx.case(("steady-model", c["A0"], c["th"], c["ret"], c["omode"], c["omap"]), facet="model/steady")
    if not _close(y, fwd_exp, 1e-9):
        ctx.mismatch(key + "/model_forward", c, "PDEModel.forward is not Observe(Solve(Assemble(theta)))", fwd_exp, y)
    # forward is differentiable with TLC's exact Jacobian (central differences; forward is rational in theta)
    h = 1e-5
    for k in range(2):
        e = np.zeros(2)
        e[k] = h
        try:
            d = (np.asarray(_quiet(lambda: model.forward(th + e)), float) - np.asarray(_quiet(lambda: model.forward(th - e)), float)) / (2 * h)
        except Exception as e_fd:
            # |det A(theta)| >= 1 on the integer lattice of the instance and h = 1e-5: the neighbouring systems are regular,
            # so forward must not fail there when it succeeded at theta
            ctx.mismatch(key + "/model_raises_fd", c, "PDEModel.forward raised %r at theta +/- 1e-5 e_%d although it returns at theta"
                         % (e_fd, k), fwd_exp)
            continue
        if not _close(d, J_exp[:, k], 1e-5):
            ctx.mismatch(key + "/model_jacobian_fd", c, "finite differences of PDEModel.forward disagree with the exact Jacobian of "
                         "Observe o Solve o Assemble", J_exp[:, k], d)
    # gradient = direction @ J for a supplied Jacobian, or the supplied direction-Jacobian product
    direction = np.arange(1, len(fwd_exp) + 1, dtype=float) * np.array([1, -2, 0.5, 3, 1][:len(fwd_exp)])
    exp_grad = direction @ J_exp
    for how in ("jacobian_wrt_parameter", "gradient_wrt_parameter"):
        pde2 = cuqi.pde.SteadyStateLinearPDE(form, **pde_kw)
        seen = []
        if how == "jacobian_wrt_parameter":
            pde2.jacobian_wrt_parameter = lambda wrt: (seen.append(np.array(wrt, float)), J_exp)[1]
        else:
            pde2.gradient_wrt_parameter = lambda direction, wrt: (seen.append(np.array(wrt, float)), np.asarray(direction) @ J_exp)[1]
        ctx.case(("steady-grad", how, c["A0"], c["th"], c["omode"], c["omap"]), facet="model/gradient")
        try:
            m2 = _quiet(lambda: cuqi.model.PDEModel(pde2, range_geometry=len(fwd_exp), domain_geometry=2))
            gr = np.asarray(_quiet(lambda: m2.gradient(direction, th)), dtype=float)
        except Exception as e:
            ctx.mismatch(key + "/gradient_raises/" + how, c, "PDEModel.gradient raised %r" % (e,), exp_grad)
            continue
        if not _close(gr, exp_grad, 1e-10) or not seen or not np.array_equal(seen[-1], th):
            ctx.mismatch(key + "/gradient/" + how, c, "PDEModel.gradient is not direction @ J(wrt) of the supplied " + how,
                         exp_grad, gr)


# ----------------------------------------------------------------------------------------------------------
def _time_form(c, calls):
    A0, A1 = np.array(c["A0"], dtype=float), np.array(c["A1"], dtype=float)
    f0, f1 = np.array(c["f0"], dtype=float), np.array(c["f1"], dtype=float)
    Fth, U0 = np.array(c["Fth"], dtype=float), np.array(c["U0"], dtype=float)
    c0, w = np.array(c["c0"], dtype=float), np.array(c["w"], dtype=float)
    T = _qv(c["T"])

    def form(p, t):
        calls.append((np.array(p, dtype=float).copy(), float(t)))
        return A0 + t * A1, f0 + t * f1 + Fth @ p, c0 + U0 @ p + (t - T[0]) * w
    return form, (lambda t: A0 + t * A1), (lambda t, p: f0 + t * f1 + Fth @ p)


def check_time(ctx, cuqi, c, idx):
    n, method = c["n"], c["method"]
    T, x = _qv(c["T"]), _qv(c["x"])
    th = np.array(c["th"], dtype=float)
    traj = np.array([_qv(u) for u in c["traj"]]).T                     # (n, nt)
    key = "time/%s/n=%d/nt=%d/ret=%d" % (method, n, len(T), c["ret"])
    calls, slog = [], []
    form, Afun, ffun = _time_form(c, calls)
    gobs, tobs = _qv(c["gobs"]), _qv(c["tobs"])
    kw = dict(time_steps=T, method=method, grid_sol=x, observation_map=_omap(c["omap"]))
    if c["omode"] == "final":
        kw["time_obs"] = "final" if idx % 3 else ("FINAL" if idx % 2 else T[-1:].copy())
        if idx % 2:
            kw["grid_obs"] = x.copy()
    elif c["omode"] == "all":
        kw["time_obs"] = "all" if idx % 2 else T.copy()
    elif c["omode"] == "finalrev":          # the solution nodes reversed, final time
        kw["time_obs"] = "final" if idx % 2 else tobs
        kw["grid_obs"] = gobs
    else:
        kw["time_obs"] = tobs
        kw["grid_obs"] = gobs
    if method == "backward_euler" and not (c["ret"] == 0 and idx % 4 == 0):
        kw["linalg_solve"] = _solver(c["ret"], slog)
        if idx % 2 == 0:
            kw["linalg_solve_kwargs"] = {"tag": 5}
    ctx.case(("time", c["A0"], c["T"], c["th"], method, c["ret"], c["omode"], c["omap"]), facet="time/" + method)
    if isinstance(kw.get("time_obs"), str) and kw["time_obs"] == "FINAL":
        try:
            cuqi.pde.TimeDependentLinearPDE(_time_form(c, [])[0], **kw)
        except Exception as e:
            ctx.observe("time_obs_uppercase", "rejected at construction (%s)" % type(e).__name__)
            kw["time_obs"] = "final"
    # data layout and type (see check_steady): parameter, time levels, solution grid
    th_in, th_lay = _pick(th, idx, ("plain", "int", "ro", "view", "list"))
    kw_in = dict(kw)
    if idx % 3 == 2:
        kw_in["time_steps"] = _pick(T, idx // 3)[0]
        kw_in["grid_sol"] = _pick(x, idx // 3 + 1, ("ro", "view", "plain"))[0]
    try:
        pde = cuqi.pde.TimeDependentLinearPDE(form, **kw_in)
        pde.assemble(th_in)
        out = _quiet(pde.solve)
    except Exception as e:
        ctx.mismatch(key + "/raises", c, "assemble/solve raised %r (parameter as %s)" % (e, th_lay))
        return
    if not (isinstance(out, tuple) and len(out) == 2):
        ctx.mismatch(key + "/solve_shape", c, "solve() does not return (solution, info)", "(solution, info)", repr(out)[:200])
        return
    if not np.array_equal(np.asarray(th_in, dtype=float), th):
        ctx.mismatch(key + "/arg_mutated", c, "assemble / solve changed the parameter array of the caller", th, th_in)
    if idx % 4 == 1 and c["status"] == "done":
        _method_spelling(ctx, cuqi, c, kw, th, traj)
    u = np.asarray(out[0], dtype=float)
    # the (theta, t) arguments of every PDE_form call = the sequence the spec's Start / Step actions assemble
    done = c["status"] == "done"          # "abandoned": TLC followed the recurrence up to 32-bit limits; compare that prefix
    exp_times = _qv(c["calls"])
    got_times = np.array([t for _, t in calls])
    if not done:
        got_times = got_times[:len(exp_times)]
    calls_differ = len(got_times) != len(exp_times) or not np.array_equal(got_times, exp_times)
    if not calls or any(not np.array_equal(p, th) for p, _ in calls):
        ctx.mismatch(key + "/form_calls", c, "PDE_form is not assembled with the supplied parameter", th, [p for p, _ in calls][:4])
    # every stored level
    if u.shape != (n, len(T)):
        ctx.mismatch(key + "/trajectory_shape", c, "solution is not (nodes x time levels)", (n, len(T)), u.shape)
        return
    for j in range(traj.shape[1]):
        if not _close(u[:, j], traj[:, j]):
            what = ("initial condition is not the one assembled at the initial time" if j == 0 else
                    "time level %d does not satisfy the %s recurrence u_%d -> u_%d (dt = t_%d - t_%d, operator/source at t_%d)"
                    % (j, method, j - 1, j, j, j - 1, j - 1 if method == "forward_euler" else j))
            ctx.mismatch(key + "/level", c, what, traj[:, j], u[:, j], detail={"level": j})
            break
    else:
        # residual of the discrete equations with independently assembled operators
        for j in range(len(T) - 1):
            dt = T[j + 1] - T[j]
            tl, ua = (T[j], u[:, j]) if method == "forward_euler" else (T[j + 1], u[:, j + 1])
            res = u[:, j + 1] - u[:, j] - dt * (Afun(tl) @ ua + ffun(tl, th))
            if not np.all(np.abs(res) <= 1e-9 * max(1.0, np.abs(u).max())):
                ctx.mismatch(key + "/residual", c, "stored levels do not satisfy the discrete equation", 0.0, res, detail={"level": j + 1})
                break
        else:
            if calls_differ:
                # every level satisfies the documented recurrence although the form was evaluated in another order / number
                # than the specification's Start / Step actions do (e.g. cached or repeated assemblies): not a violation
                ctx.observations["time_form_call_sequence_differs_but_levels_conform"] = \
                    ctx.observations.get("time_form_call_sequence_differs_but_levels_conform", 0) + 1
    if method == "backward_euler" and "linalg_solve" in kw:
        if len(slog) < len(T) - 1 or any(sl[2] != kw.get("linalg_solve_kwargs", {}) for sl in slog):
            ctx.mismatch(key + "/solver_args", c, "linear solver is not called (at least) once per step as linalg_solve(A, b, **kwargs)",
                         len(T) - 1, len(slog))
        ctx.observations.setdefault("backward_euler_info", {})[str(c["ret"])] = repr(out[1])
    if not done:
        ctx.observations["time_cases_abandoned"] = ctx.observations.get("time_cases_abandoned", 0) + 1
        return
    # Observe (restriction at coinciding nodes and times), then the map
    obs_exp = _qm(c["obs"])
    obs_exp = _apply(c["omap"], obs_exp)
    if len(tobs) == 1:
        obs_exp = obs_exp[:, 0]
    okey = "observe_time/traj/%s/n=%d/nt=%d/omap=%s" % (c["omode"], n, len(T), c["omap"])
    ctx.case(("time-observe", c["A0"], c["T"], c["th"], method, c["omode"], c["omap"]), facet="observe/" + c["omode"])
    try:
        obs = _one(ctx, _quiet(lambda: pde.observe(u)), obs_exp)
    except Exception as e:
        _refused(ctx, c.get("order", "asc"), lambda tag: okey + "/" + tag, c, "observe", e, obs_exp)
        return
    tol = RTOL if c["omode"] == "final" else 1e-9
    if not _close(obs, _apply(c["omap"], _restrict(u, x, T, gobs, tobs)), tol) or not _close(obs, obs_exp, 1e-9):
        ctx.mismatch(okey, c, "observe() is not the solution restricted to the (coinciding) observation nodes and times - row i = node "
                     "grid_obs[i], column j = time time_obs[j] (grid_obs=%s time_obs=%s) - followed by the observation map"
                     % (gobs.tolist(), tobs.tolist()), obs_exp, obs)
    if c["omode"] in ("final", "finalrev"):
        ctx.case(("time-model", c["A0"], c["T"], c["th"], method, c["omap"]), facet="model/time")
        try:
            pde_m = cuqi.pde.TimeDependentLinearPDE(form, **kw)       # fresh object, first assembled for another parameter
            model = _quiet(lambda: cuqi.model.PDEModel(pde_m, range_geometry=len(gobs), domain_geometry=2))
            _quiet(lambda: model.forward(th + 1.0))
            y = _one(ctx, _quiet(lambda: model.forward(th)), obs_exp)
        except Exception as e:
            ctx.mismatch(key + "/model_raises", c, "PDEModel.forward raised %r" % (e,), obs_exp)
            return
        if not _close(y, obs_exp, 1e-9):
            ctx.mismatch(key + "/model_forward", c, "PDEModel.forward is not Observe(Solve(Assemble(theta)))", obs_exp, y)


def _method_spelling(ctx, cuqi, c, kw, th, traj):
    """The method setter validates the name case-insensitively; a spelling it ACCEPTS has to select the same recurrence."""
    method = c["method"]
    spelled = method.upper()
    form2, _, _ = _time_form(c, [])
    kw2 = dict(kw, method=spelled)
    kw2.pop("linalg_solve", None)
    kw2.pop("linalg_solve_kwargs", None)
    ctx.case(("time-method-case", method, c["A0"], c["T"], c["th"]), facet="time/method_case")
    try:
        pde2 = cuqi.pde.TimeDependentLinearPDE(form2, **kw2)
    except Exception as e:
        ctx.observe("method_name_uppercase", "rejected at construction (%s)" % type(e).__name__)
        return
    try:
        pde2.assemble(th)
        u2 = np.asarray(_quiet(pde2.solve)[0], dtype=float)
    except Exception as e:
        ctx.mismatch("time/method_case/%s/raises/%s" % (method, type(e).__name__), c,
                     "method=%r is accepted by the constructor but solve() raises %r" % (spelled, e), traj, repr(e))
        return
    if u2.shape != traj.shape or not _close(u2, traj):
        ctx.mismatch("time/method_case/%s/level" % method, c, "method=%r is accepted but does not follow the %s recurrence"
                     % (spelled, method), traj, u2)


def _restrict(u, x, T, gobs, tobs):
    ix = [int(np.where(x == g)[0][0]) for g in gobs]
    it = [int(np.where(T == t)[0][0]) for t in tobs]
    r = u[np.ix_(ix, it)]
    return r[:, 0] if len(tobs) == 1 else r


# ----------------------------------------------------------------------------------------------------------
def check_tobs(ctx, cuqi, c, idx):
    _tobs_once(ctx, cuqi, c, idx, False)
    _tobs_once(ctx, cuqi, c, idx, True)


def _tobs_once(ctx, cuqi, c, idx, with_layout):
    # where the grids lie on the axis: the reference nodes under the change of variable xf (the expected values do not depend on it)
    xfm = c.get("xfm", {"om": 0, "oe": 0, "se": 0})
    xf = c.get("xf", "id")
    x, T = _xf_nodes(xfm, c["x"]), _xf_nodes(xfm, c["T"])
    gobs, tobs = _xf_nodes(xfm, c["gobs"]), _xf_nodes(xfm, c["tobs"])
    data = _qm(c["data"])
    exp = _qm(c["fwd"])
    if not c.get("mapped", True):          # exact p(x_obs, t_obs) from TLC; the (elementwise) map is applied here (32-bit TLC)
        exp = _apply(c["omap"], exp)
    if len(tobs) == 1:
        exp = exp[:, 0]
    key = "observe_time/poly/g=%s/t=%s/omap=%s" % (c["g"], c["t"], c["omap"]) + ("" if xf == "id" else "/xf=%s" % xf)
    # data layout and type (every case a second time): the same nodes / times as integer, float32, non-contiguous, read-only
    # arrays (rotating with the position of the case), time_obs ('array_like') also as a list
    lay = {}
    if with_layout:
        x, lay["x"] = _pick(x, idx)
        T, lay["T"] = _pick(T, idx + 1)
        gobs, lay["gobs"] = _pick(gobs, idx + 2)
        tobs, lay["tobs"] = _pick(tobs, idx + 3, ("plain", "list", "int", "f32", "view", "ro"))
        if set(lay.values()) == {"plain"}:
            x, lay["x"] = _lay(x, "ro"), "ro"
    kw = dict(time_steps=T, grid_sol=x, observation_map=_omap(c["omap"]))
    if c["g"] != "same" or idx % 2:
        kw["grid_obs"] = gobs
    if c["t"] in ("final", "all") and idx % 2 == 0:
        kw["time_obs"] = c["t"]
    else:
        kw["time_obs"] = tobs
    ctx.case(("tobs", c["c"], c["g"], c["t"], c["omap"], xf, with_layout), facet="observe/poly-time" + ("" if xf == "id" else "/xf"))
    nx = len(c["x"])
    try:
        pde = cuqi.pde.TimeDependentLinearPDE(lambda p, t: (np.eye(nx), np.zeros(nx), np.zeros(nx)), **kw)
        obs = np.asarray(_quiet(lambda: pde.observe(data.copy())), dtype=float)
    except Exception as e:
        _refused(ctx, c.get("order", "asc"), lambda tag: key + "/" + tag, c, "observe", e, exp, detail={"layout": lay} if lay else None)
        return
    exact = c["g"] == "same" and c["t"] == "final" and not lay
    tol = 1e-6 if "f32" in lay.values() else 1e-9          # float32 nodes: the precision of the storage type of the grid
    if (exact and c["omap"] == "id" and not np.array_equal(obs, data[:, -1])) or not _close(obs, exp, tol):
        ctx.mismatch(key + ("/layout" if lay else ""), c,
                     "observe() of polynomial data is not p(x_obs[i], t_obs[j]) (restriction at coinciding nodes/times, "
                     "polynomial-reproducing interpolation otherwise; in the order of grid_obs=%s and time_obs=%s; grid_sol=%s "
                     "time_steps=%s%s) followed by the observation map"
                     % (np.asarray(gobs, float).tolist(), np.asarray(tobs, float).tolist(), np.asarray(x, float).tolist(),
                        np.asarray(T, float).tolist(), "; layouts %s" % lay if lay else ""), exp, obs)


def check_sobs(ctx, cuqi, c, idx):
    _sobs_once(ctx, cuqi, c, idx, False)
    _sobs_once(ctx, cuqi, c, idx, True)


def _sobs_once(ctx, cuqi, c, idx, with_layout):
    xfm = c.get("xfm", {"om": 0, "oe": 0, "se": 0})
    xf = c.get("xf", "id")
    x, gobs = _xf_nodes(xfm, c["x"]), _xf_nodes(xfm, c["gobs"])
    data, exp = _qv(c["data"]), _qv(c["fwd"])
    key = "observe_steady/poly/g=%s/omap=%s" % (c["g"], c["omap"]) + ("" if xf == "id" else "/xf=%s" % xf)
    lay = {}
    if with_layout:          # data layout and type, see check_tobs
        x, lay["x"] = _pick(x, idx)
        gobs, lay["gobs"] = _pick(gobs, idx + 2)
        if set(lay.values()) == {"plain"}:
            gobs, lay["gobs"] = _lay(gobs, "view"), "view"
    kw = dict(grid_sol=x, observation_map=_omap(c["omap"]))
    if c["g"] != "same" or idx % 2:
        kw["grid_obs"] = gobs
    ctx.case(("sobs", c["c"], c["g"], c["omap"], xf, with_layout), facet="observe/poly-steady" + ("" if xf == "id" else "/xf"))
    nx = len(c["x"])
    try:
        pde = cuqi.pde.SteadyStateLinearPDE(lambda p: (np.eye(nx), np.zeros(nx)), **kw)
        obs = np.asarray(_quiet(lambda: pde.observe(data.copy())), dtype=float)
    except Exception as e:
        _refused(ctx, c.get("order", "asc"), lambda tag: key + "/" + tag, c, "observe", e, exp, detail={"layout": lay} if lay else None)
        return
    tol = 1e-6 if "f32" in lay.values() else 1e-9
    if (c["g"] == "same" and c["omap"] == "id" and not lay and not np.array_equal(obs, data)) or not _close(obs, exp, tol):
        ctx.mismatch(key + ("/layout" if lay else ""), c,
                     "observe() of quadratic data is not p(x_obs[k]), k in the order of grid_obs=%s (grid_sol=%s%s), followed by the "
                     "observation map" % (np.asarray(gobs, float).tolist(), np.asarray(x, float).tolist(),
                                          "; layouts %s" % lay if lay else ""), exp, obs)


# ----------------------------------------------------------------------------------------------------------
# sequences of calls on ONE PDE object (kinds "sseq" / "tseq" of PDE.tla)
SEQ_ACTIONS = ("set_grid_obs", "set_grid_sol", "set_time_obs", "assemble", "solve", "observe", "forward")
# modes of the sequence kinds: "grid" (setters, new arrays), "param" (parameter arrays with an identity: in-place modification,
# the array itself / a copy), "ginp" (grid arrays with an identity: in-place modification, the same array handed over again)
# "order" (observation grids / times in an order of the user's choice: reversed, permuted, unsorted sub-selections, repeated)
SEQ_BASE = {"grid": "seq/%s/%s", "param": "seq/inplace/%s/%s", "ginp": "seq/gridinplace/%s/%s", "order": "seq/order/%s/%s"}
SEQ_CLASS = {"sseq": "steady", "tseq": "time"}


def _seq_levels(v):
    """TLC's levels sol[j][i] (level j, node i) -> array (nodes, levels)"""
    return np.array([_qv(u) for u in v]).T


def _seq_time_obs_arg(name, times, idx):
    """how the observation times are handed over: the documented strings or the array"""
    if name in ("final", "all") and idx % 2 == 0:
        return name
    return times.copy()


def _seq_build(cuqi, c, form, gs, go, to_name, to, idx, by_reference=False, T=None):
    """by_reference: the arrays themselves are handed over (mode "ginp": the caller keeps them and modifies them in place)"""
    kw = dict(grid_sol=gs if by_reference else gs.copy(), observation_map=_omap(c["omap"]))
    if go is not None:
        kw["grid_obs"] = go if by_reference else go.copy()
    elif idx % 2:
        kw["grid_obs"] = None
    if c["kind"] == "sseq":
        return cuqi.pde.SteadyStateLinearPDE(form, **kw)
    return cuqi.pde.TimeDependentLinearPDE(form, time_steps=_qv(c["T"]) if T is None else T, method=c["method"],
                                           time_obs=to if by_reference else _seq_time_obs_arg(to_name, to, idx), **kw)


def _seq_expected_obs(c, e, field="obs", times=None):
    """expected value of Observe / Forward: steady - TLC applied the map; time - TLC's exact restriction / interpolant,
    the elementwise map is applied here (32-bit TLC), one observation time -> vector.
    field="obslive" (mode "ginp", value for the current contents of the arrays): the map is applied here for both classes"""
    if c["kind"] == "sseq":
        return _qv(e["fwd"]) if field == "obs" else np.asarray(_apply(c["omap"], _qv(e[field])), dtype=float)
    exp = _apply(c["omap"], _qm(e[field]))
    return exp[:, 0] if len(e["to"] if times is None else times) == 1 else exp


def _seq_arg(e):
    """path element of a call: the action, and for the modes with identities the array it is about"""
    return e["a"] + (":" + e["arg"] if isinstance(e["arg"], str) and e["arg"] and e["a"] in
                     ("pipeline", "forward", "mutate_param", "mutate_grid", "reassign") else "")


def _solve_form(c, calls, ic_layout):
    """mode "solve": operator, source and third component depend on the parameter AND on time:
    A = A0 + t A1 + th[0] A2, f = f0 + t f1 + Fth th, third component c0 + U0 th + (t - t_1) w"""
    m = c["m"]
    A0, A1, A2 = (np.array(m[k], dtype=float) for k in ("A0", "A1", "A2"))
    f0, f1, Fth, U0 = (np.array(m[k], dtype=float) for k in ("f0", "f1", "Fth", "U0"))
    c0, w = np.array(m["c0"], dtype=float), np.array(m["w"], dtype=float)
    t1 = _q(c["T"][0])

    def form(p, t):
        p = np.array(p, dtype=float)          # (the form is the user's: it accepts whatever the user passes as parameter)
        t = float(t)
        calls.append((p.copy(), t))
        ic = c0 + U0 @ p + (t - t1) * w
        if ic_layout in _layouts(ic, ("int", "view", "ro")):          # an ndarray in any case (documented: the type of the solution)
            ic = _lay(ic, ic_layout)
        return A0 + t * A1 + p[0] * A2, f0 + t * f1 + Fth @ p, ic
    return form


def check_solve_seq(ctx, cuqi, c, idx):
    """every behaviour once per admissible layout of the time levels (float64, integer where the levels are integers, float32,
    non-contiguous, read-only); the layouts of the grid, the parameters and the initial condition rotate"""
    for v in range(len(_layouts(_qv(c["T"])))):
        _solve_seq_once(ctx, cuqi, c, idx, v)


def _solve_seq_once(ctx, cuqi, c, idx, v):
    """mode "solve" of the kind tseq: Assemble(p1) Solve Assemble(p2) Solve ... / Forward(p1) Forward(p2) Gradient(p) on ONE
    TimeDependentLinearPDE (PDEModel) with one, two or three time steps and one or two nodes: every solve has to return the levels
    of the documented recurrence for the parameter assembled LAST (TLC's exact levels)"""
    via, m, method = c["via"], c["m"], c["method"]
    n, omap = m["n"], c["omap"]
    base = "seq/solve/%s/%s/n=%d/nt=%d" % (method, via, n, len(c["T"]))
    ident = ("solve", via, n, c["tg"], method, v)
    fac = "seq/solve/tseq"
    calls = []
    # data layout and type of the arrays of the user: time levels, solution grid, parameters, the initial condition the form returns
    T, lay_T = _pick(_qv(c["T"]), v)
    idx = idx + v
    x, lay_x = _pick(_qv(c["new"]["gs"]), idx // 2, ("plain", "ro", "f32", "view"))
    ic_layout = ("plain", "int", "view", "ro")[(idx // 3) % 4]
    par_allow = ("plain", "int", "ro", "view") + (("list",) if via == "pde" else ())      # PDEModel.forward documents ndarray / CUQIarray
    lays = {"time_steps": lay_T, "grid_sol": lay_x, "initial_condition": ic_layout}
    form = _solve_form(c, calls, ic_layout)
    path = []

    def sig(what):
        return "%s/%s/path=%s" % (base, what, ".".join(path) or "new")

    def param(th, k):
        arr, how = _pick(np.array(th, dtype=float), idx + k, par_allow)
        return arr, how

    def levels_ok(got, exp):
        got = np.asarray(got, dtype=float)
        return got.shape == exp.shape and _close(got, exp)

    def wrong_levels(e, got, what, how):
        exp = _seq_levels(e["val"]["sol"])
        ctx.mismatch(sig("solution"), c,
                     "%s after %s: the stored time levels are not those of the %s recurrence from the initial condition for the "
                     "parameter %s assembled LAST (time_steps=%s; layouts %s, parameter as %s)"
                     % (what, ".".join(path[:-1]) or "construction", method, e["val"]["th"], _qv(c["T"]).tolist(), lays, how),
                     exp, got, detail={"step": len(path)})

    ctx.case(("seq-new",) + ident, facet=fac + "/new")
    th0, how0 = param(c["th0"], 0)
    try:
        kw = dict(time_steps=T, method=method, grid_sol=x, observation_map=_omap(omap))
        if idx % 2:
            kw["time_obs"] = "final"
        pde = cuqi.pde.TimeDependentLinearPDE(form, **kw)
        pde.assemble(th0)
        sol = np.asarray(_quiet(pde.solve)[0], dtype=float)
    except Exception as e:
        ctx.mismatch(sig("raises"), c, "construct / assemble / solve raised %r (layouts %s, parameter as %s)" % (e, lays, how0))
        return
    exp0 = _seq_levels(c["new"]["sol"])
    if not levels_ok(sol, exp0):
        ctx.mismatch(sig("solution"), c, "solve() is not the solution of the discrete problem for the assembled parameter (layouts %s)"
                     % lays, exp0, sol)
        return
    model = None
    jac_of = {}
    jac_seen = []
    if via == "model":
        # the Jacobian of the pipeline at the parameter asked for, exact from the specification
        for e in c["hist"]:
            if e["a"] == "gradient":
                # TLC: exact derivative of the last level, and the last level; the derivative of the elementwise map is applied here
                du = np.array([_qv(col) for col in e["val"]["jac"]]).T
                u_last = _qv(e["val"]["u"])
                jac_of[tuple(float(v) for v in e["val"]["th"])] = du if omap == "id" else (2.0 * u_last)[:, None] * du
        n_out = n

        def jac(wrt):
            wrt = np.asarray(wrt, dtype=float)
            jac_seen.append(wrt.copy())
            return jac_of.get(tuple(wrt.tolist()), np.full((n_out, 2), np.nan))
        if idx % 2:
            pde.jacobian_wrt_parameter = jac
        else:
            pde.gradient_wrt_parameter = lambda direction, wrt: np.asarray(direction, dtype=float) @ jac(wrt)
        model = _quiet(lambda: cuqi.model.PDEModel(pde, range_geometry=n_out, domain_geometry=2))
    cur = np.array(c["th0"], dtype=float)
    for k, e in enumerate(c["hist"]):
        a = e["a"]
        path.append(a + (":" + e["arg"] if e["arg"] else ""))
        ctx.case(("seq",) + ident + tuple((h["a"], h["arg"], json.dumps(h["val"].get("th"))) for h in c["hist"][:k + 1]),
                 facet="%s/%s" % (fac, a))
        try:
            if a == "assemble":
                th, how = param(e["val"]["th"], k + 1)
                keep = np.array(e["val"]["th"], dtype=float)
                pde.assemble(th)
                cur = keep
                if not np.array_equal(np.asarray(th, dtype=float), keep):
                    ctx.mismatch(sig("arg_mutated"), c, "assemble changed the parameter array of the caller", keep, th)
                    return
            elif a == "solve":
                del calls[:]
                out = _quiet(pde.solve)
                if not (isinstance(out, tuple) and len(out) == 2) or not levels_ok(out[0], _seq_levels(e["val"]["sol"])):
                    wrong_levels(e, out[0] if isinstance(out, tuple) and out else repr(out)[:200],
                                 "solve()" + (" (called again without a new assemble)" if e["arg"] else ""), "-")
                    return
                sol = np.asarray(out[0], dtype=float)
                if any(not np.array_equal(p_, cur) for p_, _ in calls):
                    ctx.mismatch(sig("form_calls"), c, "PDE_form is not evaluated with the parameter assembled last", cur,
                                 [p_ for p_, _ in calls][:4])
                    return
                exp = _seq_expected_obs(c, e)
                obs = _one(ctx, _quiet(lambda: pde.observe(sol)), exp)
                if obs.shape != exp.shape or not _close(obs, exp, 1e-9):
                    ctx.mismatch(sig("observe_value"), c, "observe(solve()) is not the last time level followed by the observation map",
                                 exp, obs, detail={"step": len(path)})
                    return
            elif a == "forward":
                th, how = param(e["val"]["th"], k + 1)
                keep = np.array(e["val"]["th"], dtype=float)
                del calls[:]
                exp = _seq_expected_obs(c, e)
                y = _one(ctx, _quiet(lambda: model.forward(th)), exp)
                cur = keep
                if y.shape != exp.shape or not _close(y, exp, 1e-9):
                    ctx.mismatch(sig("forward_value"), c,
                                 "PDEModel.forward(%s) after %s is not Observe(Solve(Assemble(theta))) for THIS parameter: the last level of "
                                 "the %s recurrence from its initial condition, followed by the observation map (time_steps=%s; layouts %s, "
                                 "parameter as %s)" % (e["val"]["th"], ".".join(path[:-1]) or "construction", method,
                                                       _qv(c["T"]).tolist(), lays, how), exp, y, detail={"step": len(path)})
                    return
                if any(not np.array_equal(p_, cur) for p_, _ in calls):
                    ctx.mismatch(sig("form_calls"), c, "PDE_form is not evaluated with the parameter of the forward call", cur,
                                 [p_ for p_, _ in calls][:4])
                    return
                if not np.array_equal(np.asarray(th, dtype=float), keep):
                    ctx.mismatch(sig("arg_mutated"), c, "PDEModel.forward changed the parameter array of the caller", keep, th)
                    return
            elif a == "gradient":
                th = np.array(e["val"]["th"], dtype=float)
                J = jac_of[tuple(th.tolist())]
                direction = np.arange(1, n + 1, dtype=float) * np.array([1.0, -2.0])[:n]
                del jac_seen[:]
                g = np.asarray(_quiet(lambda: model.gradient(direction, th)), dtype=float)
                if g.shape != (2,) or not _close(g, direction @ J, 1e-10) or not jac_seen or not np.array_equal(jac_seen[-1], th):
                    ctx.mismatch(sig("gradient"), c, "PDEModel.gradient(direction, %s) after %s is not direction @ J(%s) of the supplied "
                                 "Jacobian of the pipeline" % (th.tolist(), ".".join(path[:-1]), th.tolist()), direction @ J, g,
                                 detail={"step": len(path)})
                    return
                # the supplied Jacobian IS the one of assemble - solve - observe: central differences of forward on a fresh object
                if idx % 4 == 0:
                    fresh = cuqi.pde.TimeDependentLinearPDE(_solve_form(c, [], "plain"), time_steps=_qv(c["T"]), method=method,
                                                            grid_sol=_qv(c["new"]["gs"]), observation_map=_omap(omap))
                    fm = _quiet(lambda: cuqi.model.PDEModel(fresh, range_geometry=n, domain_geometry=2))
                    h = 1e-5
                    for kk in range(2):
                        d = np.zeros(2)
                        d[kk] = h
                        fd = (np.asarray(_quiet(lambda: fm.forward(th + d)), float) - np.asarray(_quiet(lambda: fm.forward(th - d)), float)) / (2 * h)
                        if not _close(np.reshape(fd, -1), J[:, kk], 1e-5):
                            ctx.mismatch(sig("jacobian_fd"), c, "finite differences of PDEModel.forward disagree with the exact Jacobian of "
                                         "Observe o Solve o Assemble (differentiated recurrence)", J[:, kk], fd)
                            return
            else:
                from cuqiverif.core import MachineryError
                raise MachineryError("PDE.tla (mode solve) emitted an unknown action %r" % (a,))
        except Exception as ex:
            from cuqiverif.core import MachineryError
            if isinstance(ex, MachineryError):
                raise
            ctx.mismatch(sig("raises"), c, "%s raised %r (layouts %s)" % (a, ex, lays), detail={"step": k + 1})
            return
    # the arrays of the user are the user's
    if not np.array_equal(np.asarray(T, dtype=float), _qv(c["T"])) or not np.array_equal(np.asarray(x, dtype=float), _qv(c["new"]["gs"])):
        ctx.mismatch(sig("grid_arg_mutated"), c, "the calls changed time_steps / grid_sol of the caller", [_qv(c["T"]), _qv(c["new"]["gs"])], [T, x])


def check_seq(ctx, cuqi, c, idx):
    kind, via = c["kind"], c["via"]
    mode = c.get("mode", "grid")
    if mode == "solve":
        return check_solve_seq(ctx, cuqi, c, idx)
    steady = kind == "sseq"
    m = c["m"]
    base = SEQ_BASE[mode] % ((kind, via) if mode == "grid" else (SEQ_CLASS[kind], via))
    # WHERE the grids lie (mode "grid", field xf of PDE.tla): every node / time level / observation time is handed over under the
    # change of variable x = om 2^oe + 2^se xi; TLC's expected values do not depend on it (SeqObserveAffine)
    xf = c.get("xf", "id")
    GX = _qv
    Txf = None
    if xf != "id":
        from cuqiverif.core import MachineryError
        if mode != "grid":
            raise MachineryError("PDE.tla emitted a change of variable for mode %r" % mode)
        xfm = c["xfm"]
        GX = lambda v: _xf_nodes(xfm, v)
        base += "/xf=" + xf
        if not steady:
            Txf = GX(c["T"])
    ident = (kind, via, c["go0"], c["to0"], c["omap"]) + (() if mode == "grid" else (mode,)) + (() if xf == "id" else (xf,))
    fac = "seq/%s" % kind if mode == "grid" else "seq/%s/%s" % ({"param": "inplace", "ginp": "gridinplace", "order": "order"}[mode], kind)
    calls = []
    if steady:
        A0, A1, A2 = (np.array(m[k], dtype=float) for k in ("A0", "A1", "A2"))
        f0, f1, f2 = (np.array(m[k], dtype=float) for k in ("f0", "f1", "f2"))

        def form(p):
            calls.append(np.array(p, dtype=float).copy())
            return A0 + p[0] * A1 + p[1] * A2, f0 + p[0] * f1 + p[1] * f2
    else:
        form, _, _ = _time_form(dict(m, T=c["T"]), calls)
        if xf != "id":
            # the equation is not autonomous: the form of the moved problem is the reference form in the reference time
            # tau = (t - off) / 2^se, with operator and source per unit of the NEW time - then dt' A' = dt A and the levels are the same
            ref_form, off_, sc_ = form, float(xfm["om"]) * 2.0 ** xfm["oe"], 2.0 ** xfm["se"]

            def form(p, t):
                A_, f_, ic_ = ref_form(p, (float(t) - off_) / sc_)
                return A_ / sc_, f_ / sc_, ic_
    new = c["new"]
    gs = GX(new["gs"])
    to = GX(new["to"]) if not steady else None
    to_name = c["to0"]
    godef = c["go0"] == "none"
    go = None if godef else GX(new["go"])
    # mode "param": the two parameter arrays of the user (identity kept for the whole behaviour); the object is first assembled with P
    heap = {k: np.array(v, dtype=float) for k, v in new.get("heap", {}).items()} if mode == "param" else {}
    th = heap["P"] if mode == "param" else np.array(c["th0"], dtype=float)
    # mode "ginp": the arrays handed over as grids stay with the user
    live = {"gs": gs, "go": go, "to": to} if mode == "ginp" else {}
    sol_exp = _qv(new["sol"]) if steady else _seq_levels(new["sol"])
    path = []

    def sig(what):
        return "%s/%s/path=%s" % (base, what, ".".join(path) or "new")

    # construct - assemble(th0) - solve: the state every behaviour starts from
    ctx.case(("seq-new",) + ident, facet=fac + "/new")
    try:
        pde = _seq_build(cuqi, c, form, gs, go, to_name, to, idx, by_reference=(mode == "ginp"), T=Txf)
        pde.assemble(th)
        sol = np.asarray(_quiet(pde.solve)[0], dtype=float)
    except Exception as e:
        ctx.mismatch(sig("raises"), c, "construct / assemble / solve raised %r" % (e,))
        return
    if sol.shape != sol_exp.shape or not _close(sol, sol_exp):
        ctx.mismatch(sig("solution"), c, "solve() is not the solution of the discrete problem for the assembled parameter", sol_exp, sol)
        return
    model = None
    range_dim = None
    # abstract state before the first call (needed when a new object has to be built for SetTimeObs)
    e_prev_state = {"gs": new["gs"], "go": new["go"], "godef": godef, "par": c["th0"]}
    first_by_value = {}          # mode "param": parameter value -> (path, first result) ("equal values give equal results")

    def get_model(n_out):
        nonlocal model, range_dim
        if model is None:
            model = _quiet(lambda: cuqi.model.PDEModel(pde, range_geometry=int(n_out), domain_geometry=2))
        elif range_dim != n_out:          # the user who changes the observation grid of model.pde adapts the range geometry
            model.range_geometry = cuqi.geometry.Continuous1D(int(n_out))
        range_dim = n_out
        return model

    def compare_obs(e, got, sol_used, what, tag):
        exp = _seq_expected_obs(c, e)
        try:
            got = np.asarray(got, dtype=float)
        except Exception:
            ctx.mismatch(sig(tag), c, "%s does not return an array" % what, exp, repr(got)[:200], detail={"step": len(path)})
            return False
        good = got.shape == exp.shape and _close(got, exp, 1e-9)
        if good and e["exact"] and c["omap"] == "id" and sol_used is not None:
            # grids (and final time) coincide: restriction, the stored values themselves
            good = np.array_equal(got, sol_used if steady else sol_used[:, -1])
        if not good:
            ctx.mismatch(sig(tag), c,
                         "%s after %s is not the solution%s restricted to / interpolated on the CURRENT observation grid%s followed by "
                         "the observation map (grid_sol=%s grid_obs=%s%s)"
                         % (what, ".".join(path[:-1]) or "construction",
                            " for the CURRENT value %s of the supplied parameter array" % (e["val"]["th"],) if mode == "param" else "",
                            "" if steady else " and times",
                            GX(e["gs"]).tolist(), GX(e["go"]).tolist(), "" if steady else " time_obs=%s" % GX(e["to"]).tolist()),
                         exp, got, detail={"step": len(path)})
        return good

    def attempt(e, fn, what):
        """an observation call; a refusal is classified by the spec's `order` of the current observation grid / times (see _refused):
        ascending -> re-raised (mismatch `raises`, the behaviour ends), repeated -> observation, unsorted -> mismatch
        `refused_not_ascending`; in the last two cases the behaviour goes on (a refused observation changes nothing)"""
        try:
            return True, fn()
        except Exception as ex:
            from cuqiverif.core import MachineryError
            if isinstance(ex, MachineryError) or e.get("order", "asc") == "asc":
                raise
            _refused(ctx, e["order"], lambda tag: sig("%s_%s" % (a, tag)), c,
                     "%s after %s (grid_obs=%s%s)" % (what, ".".join(path[:-1]) or "construction", [_q(q) for q in e["go"]],
                                                      "" if steady else " time_obs=%s" % [_q(q) for q in e["to"]]),
                     ex, _seq_expected_obs(c, e), detail={"step": len(path), "path": ".".join(path)})
            return False, None

    def undefined_obs(e, fn):
        """mode "ginp", an array handed over as a grid was modified in place and not handed over again: neither documented nor
        excluded which values the library uses - recorded, never a violation"""
        slots = "+".join(s for s in ("gs", "go", "to") if e["live"][s] != e[s])
        try:
            got = np.asarray(fn(), dtype=float)
            as_set, as_live = _seq_expected_obs(c, e), _seq_expected_obs(c, e, "obslive", times=e["live"]["to"])
            a = got.shape == as_set.shape and _close(got, as_set, 1e-9)
            b = got.shape == as_live.shape and _close(got, as_live, 1e-9)
            res = "either (equal)" if a and b else "grids as handed over" if a else "current contents of the arrays" if b else "neither"
        except Exception as ex:
            res = "raises %s" % type(ex).__name__
        d = ctx.observations.setdefault("seq_observation_after_inplace_grid_modification_without_new_handover", {})
        k = "%s/%s modified/%s" % (SEQ_CLASS[kind], slots, res)
        d[k] = d.get(k, 0) + 1

    def check_value_repeat(e, got, tag):
        """equal parameter values give equal results (the array itself / a copy; f(th1) . f(th2) . f(th1): third = first)"""
        key = tuple(e["val"]["th"])
        got = np.asarray(got, dtype=float)
        if key not in first_by_value:
            first_by_value[key] = (".".join(path), got.copy())
            return
        where, first = first_by_value[key]
        if first.shape != got.shape or not _close(got, first, RTOL):
            ctx.mismatch(sig(tag), c, "the result for the parameter value %s differs from the result of the earlier call %s for the same "
                         "value" % (list(key), where), first, got, detail={"step": len(path)})
        else:
            ctx.observations["seq_repeated_value_bitwise_equal"] = \
                bool(ctx.observations.get("seq_repeated_value_bitwise_equal", True) and np.array_equal(got, first))

    for k, e in enumerate(c["hist"]):
        a = e["a"]
        path.append(a if mode == "grid" else _seq_arg(e))
        ctx.case(("seq",) + ident + tuple((x["a"], json.dumps(x["arg"]), json.dumps(x["val"]) if x["a"].startswith("mutate") else "")
                                          for x in c["hist"][:k + 1]), facet="%s/%s" % (fac, a))
        defined = e.get("defined", True)
        passed = None          # the array passed to the call (mode "param") and its contents before the call
        try:
            if a == "set_grid_obs":
                pde.grid_obs = None if e["arg"] == "none" else GX(e["val"])
            elif a == "set_grid_sol":
                pde.grid_sol = GX(e["val"])
            elif a == "set_time_obs":
                to_name, to = e["arg"], GX(e["val"])
                prop = getattr(type(pde), "time_obs", None)
                if isinstance(prop, property) and prop.fset is not None:
                    pde.time_obs = _seq_time_obs_arg(to_name, to, idx)
                    ctx.observations["seq_set_time_obs_realised_by"] = "public setter"
                else:
                    # no public setter: the documented way to choose the observation times is the constructor
                    prev = e_prev_state
                    pde = _seq_build(cuqi, c, form, GX(prev["gs"]), None if prev["godef"] else GX(prev["go"]), to_name, to, idx, T=Txf)
                    pde.assemble(np.array(prev["par"], dtype=float))
                    model = None
                    ctx.observations["seq_set_time_obs_realised_by"] = "new object with the current grids (no public time_obs setter)"
            elif a == "mutate_param":
                heap[e["arg"]][:] = np.array(e["val"], dtype=float)          # in place: same identity, new value
            elif a == "mutate_grid":
                live[e["arg"]][:] = _qv(e["val"])                            # in place: the array that was handed over
            elif a == "reassign":
                if e["arg"] == "go":
                    pde.grid_obs = live["go"]                                # the SAME array again
                elif e["arg"] == "gs":
                    pde.grid_sol = live["gs"]
                else:
                    prop = getattr(type(pde), "time_obs", None)
                    if isinstance(prop, property) and prop.fset is not None:
                        pde.grid_sol, pde.grid_obs, pde.time_obs = live["gs"], live["go"], live["to"]
                    else:      # time_obs has no setter: a new object with the same three arrays
                        pde = _seq_build(cuqi, c, form, live["gs"], live["go"], None, live["to"], idx, by_reference=True)
                        pde.assemble(np.array(e_prev_state["par"], dtype=float))
                        model = None
            elif a == "assemble":
                th = np.array(e["val"]["th"], dtype=float)
                del calls[:]
                pde.assemble(th)
                if steady:
                    if any(not np.array_equal(p, th) for p in calls) or not calls:
                        ctx.mismatch(sig("form_calls"), c, "PDE_form is not evaluated at the supplied parameter", [th], calls)
                    if not (np.array_equal(np.asarray(pde.diff_op, float), _qm(e["val"]["A"]))
                            and np.array_equal(np.asarray(pde.rhs, float), _qv(e["val"]["f"]))):
                        ctx.mismatch(sig("assemble"), c, "assembled operator / right-hand side are not A(theta), f(theta)",
                                     [_qm(e["val"]["A"]), _qv(e["val"]["f"])], [pde.diff_op, pde.rhs])
            elif a == "solve":
                del calls[:]
                out = _quiet(pde.solve)
                exp = _qv(e["val"]) if steady else _seq_levels(e["val"])
                ok = isinstance(out, tuple) and len(out) == 2
                if ok:
                    sol = np.asarray(out[0], dtype=float)
                    ok = sol.shape == exp.shape and _close(sol, exp)
                if not ok:
                    ctx.mismatch(sig("solution"), c, "solve() after assemble(%s) is not (solution of the discrete problem for that "
                                 "parameter, info)" % list(th), exp, out[0] if isinstance(out, tuple) and out else repr(out)[:200])
                    return
                if not steady and any(not np.array_equal(p, th) for p, _ in calls):
                    ctx.mismatch(sig("form_calls"), c, "PDE_form is not assembled with the parameter assembled last", th, [p for p, _ in calls][:4])
            elif a == "observe":
                if not defined:
                    undefined_obs(e, lambda: _quiet(lambda: pde.observe(sol)))
                else:
                    ok, y = attempt(e, lambda: _quiet(lambda: pde.observe(sol)), "observe()")
                    if ok and not compare_obs(e, y, sol, "observe()", "observe_value"):
                        return
            elif a == "pipeline":
                # mode "param", on the PDE object: assemble(array) - solve() - observe(solution), compared after each of the three calls
                src = heap[e["arg"][0]]
                arg = src.copy() if e["arg"].endswith("copy") else src
                passed = (arg, arg.copy())
                now = np.array(e["val"]["th"], dtype=float)          # the spec's CURRENT value of the array
                del calls[:]
                pde.assemble(arg)
                if steady:
                    # (how often the form is evaluated is not specified; an evaluation at another value is)
                    if any(not np.array_equal(p, now) for p in calls):
                        ctx.mismatch(sig("form_calls"), c, "PDE_form is not evaluated at the current value of the supplied parameter array",
                                     [now], calls)
                    if not (np.array_equal(np.asarray(pde.diff_op, float), _qm(e["val"]["A"]))
                            and np.array_equal(np.asarray(pde.rhs, float), _qv(e["val"]["f"]))):
                        ctx.mismatch(sig("assemble"), c, "after assemble(%s) the assembled operator / right-hand side are not A(theta), "
                                     "f(theta) for the CURRENT value %s of that array" % (e["arg"], list(now)),
                                     [_qm(e["val"]["A"]), _qv(e["val"]["f"])], [pde.diff_op, pde.rhs], detail={"step": len(path)})
                        return
                del calls[:]
                out = _quiet(pde.solve)
                exp = _qv(e["val"]["sol"]) if steady else _seq_levels(e["val"]["sol"])
                ok = isinstance(out, tuple) and len(out) == 2
                if ok:
                    sol = np.asarray(out[0], dtype=float)
                    ok = sol.shape == exp.shape and _close(sol, exp)
                if not ok:
                    ctx.mismatch(sig("solution"), c, "solve() after assemble(%s) is not (solution of the discrete problem for the CURRENT "
                                 "value %s of that array, info)" % (e["arg"], list(now)), exp,
                                 out[0] if isinstance(out, tuple) and out else repr(out)[:200], detail={"step": len(path)})
                    return
                if not steady and any(not np.array_equal(p, now) for p, _ in calls):
                    ctx.mismatch(sig("form_calls"), c, "PDE_form is not assembled with the current value of the supplied parameter array",
                                 now, [p for p, _ in calls][:4])
                y = _quiet(lambda: pde.observe(sol))
                if not compare_obs(e, y, sol, "observe(solve()) after assemble(%s)" % e["arg"], "observe_value"):
                    return
                check_value_repeat(e, y, "repeat_value")
            elif a == "forward":
                exp = _seq_expected_obs(c, e)
                if mode == "param":
                    src = heap[e["arg"][0]]
                    th = src.copy() if e["arg"].endswith("copy") else src
                    passed = (th, th.copy())
                else:
                    th = np.array(e["val"]["th"], dtype=float)
                if exp.ndim == 1:
                    fn = lambda: _quiet(lambda: get_model(exp.shape[0]).forward(th))
                    what = "PDEModel.forward"
                else:
                    # several observation times (matrix-valued observation): the three calls PDEModel.forward is documented to
                    # make ('the PDE is assembled, solved and observed'), on the same object
                    def fn():
                        pde.assemble(th)
                        return _quiet(lambda: pde.observe(pde.solve()[0]))
                    what = "observe(solve()) after assemble"
                if not defined:
                    undefined_obs(e, fn)
                else:
                    ok, y = attempt(e, fn, what)
                    if mode == "param":
                        what = "PDEModel.forward(%s)" % e["arg"]
                    if ok and not compare_obs(e, y, None, what, "forward_value"):
                        return
                    if ok and mode == "param":
                        check_value_repeat(e, y, "repeat_value")
            else:
                from cuqiverif.core import MachineryError
                raise MachineryError("PDE.tla emitted an unknown action %r" % (a,))
        except Exception as ex:
            from cuqiverif.core import MachineryError
            if isinstance(ex, MachineryError):
                raise
            if not defined and a in ("observe", "forward"):
                raise
            ctx.mismatch(sig("raises"), c, "%s raised %r" % (a, ex), detail={"step": k + 1})
            return
        e_prev_state = e
        # the arrays of the user after every call: only the user's own in-place modifications change them
        if mode == "param":
            bad = [o for o in sorted(heap) if not np.array_equal(heap[o], np.array(e["heap"][o], dtype=float))]
            if passed is not None and not np.array_equal(passed[0], passed[1]):
                bad.append(e["arg"])
            if bad:
                ctx.mismatch(sig("arg_mutated"), c, "%s changed the parameter array(s) %s of the caller" % (a, bad),
                             {o: e["heap"][o] for o in sorted(heap)}, {o: heap[o].tolist() for o in sorted(heap)}, detail={"step": k + 1})
                return
        if mode == "ginp":
            bad = [s_ for s_ in ("gs", "go", "to") if live[s_] is not None and not np.array_equal(live[s_], _qv(e["live"][s_]))]
            if bad:
                ctx.mismatch(sig("grid_arg_mutated"), c, "%s changed the grid array(s) %s of the caller" % (a, bad),
                             {s_: [_q(q) for q in e["live"][s_]] for s_ in bad}, {s_: live[s_].tolist() for s_ in bad}, detail={"step": k + 1})
                return
            if not defined:          # which values the getters show for a modified array is not specified either
                continue
        # the public getters after every call
        g_sol = pde.grid_sol
        if g_sol is None or not np.array_equal(np.asarray(g_sol, dtype=float), GX(e["gs"])):
            ctx.mismatch(sig("grid_sol_getter"), c, "grid_sol is not the solution grid set last", GX(e["gs"]), g_sol)
            return
        g_obs = pde.grid_obs
        if not e["godef"]:
            if g_obs is None or not np.array_equal(np.asarray(g_obs, dtype=float), GX(e["go"])):
                ctx.mismatch(sig("grid_obs_getter"), c, "grid_obs is not the observation grid set last", GX(e["go"]), g_obs)
                return
        else:          # what the getter returns for a grid_obs given as None is not documented
            ctx.observations["seq_grid_obs_getter_after_None"] = "None" if g_obs is None else (
                "grid_sol" if np.array_equal(np.asarray(g_obs, dtype=float), GX(e["gs"])) else "another grid")


def _seq_has(c, pred):
    """some window of consecutive calls of the behaviour satisfies pred (a function of the window; its arity = window length)"""
    n = pred.__code__.co_argcount
    h = c["hist"]
    return any(pred(*h[i:i + n]) for i in range(len(h) - n + 1))


_USE = ("pipeline", "forward")
# what the modes "param" / "ginp" have to contain for every class and every way of calling (vacuity guards)
_SEQ_PATTERNS = {
    # the array itself - modified in place - the array itself again
    "use(X).mutate(X).use(X)": lambda a, b, d: (a["a"] in _USE and d["a"] in _USE and b["a"] == "mutate_param" and
                                                a["arg"] == b["arg"] == d["arg"] and a["val"]["th"] != d["val"]["th"]),
    # modified in place first (the object was assembled with P at construction)
    "mutate(P).use(P)": lambda a, b: a["a"] == "mutate_param" and b["a"] in _USE and a["arg"] == b["arg"] == "P",
    # f(th1) . f(th2) . f(th1)
    "use(th1).use(th2).use(th1)": lambda a, b, d: (all(x["a"] in _USE for x in (a, b, d)) and a["val"]["th"] == d["val"]["th"] and
                                                   a["val"]["th"] != b["val"]["th"]),
    # the array itself, then a copy of it (and the other way round)
    "use(X).use(copy of X)": lambda a, b: a["a"] in _USE and b["a"] in _USE and b["arg"] == a["arg"] + "copy",
    "use(copy of X).use(X)": lambda a, b: a["a"] in _USE and b["a"] in _USE and a["arg"] == b["arg"] + "copy",
    # another array is used in between: use(X) . use(Y) . mutate(X) . use(X)
    "use(X).use(Y).mutate(X).use(X)": lambda a, b, d, e: (a["a"] in _USE and b["a"] in _USE and e["a"] in _USE and d["a"] == "mutate_param"
                                                          and a["arg"] == d["arg"] == e["arg"] and b["arg"][0] != a["arg"][0]),
    # a grid array modified in place and handed over again, then observed (specified); observed in between (recorded only)
    "mutate_grid(s).reassign(s).observe": lambda a, b, d: (a["a"] == "mutate_grid" and b["a"] == "reassign" and a["arg"] == b["arg"]
                                                           and d["a"] in ("observe", "forward") and d["defined"]),
    "mutate_grid(s).observe[unspecified]": lambda a, b: a["a"] == "mutate_grid" and b["a"] in ("observe", "forward") and not b["defined"],
}


def _seq_select(ctx, seqs):
    """quick / thorough budget: every behaviour of at most 3 calls (observe - set - observe for each setter and value), and
    a VERIF_SEED-seeded sample of the longer ones if there are more than the budget"""
    cap = 6000 if ctx.tier == "quick" else 80000
    if len(seqs) <= cap:
        return seqs, False
    short = [c for c in seqs if len(c["hist"]) <= 3]
    longer = [c for c in seqs if len(c["hist"]) > 3]
    rng = np.random.RandomState(int(ctx.seed) % (2 ** 31))
    pick = rng.choice(len(longer), size=max(0, cap - len(short)), replace=False)
    return short + [longer[i] for i in sorted(pick)], True


def observe_small_grids(ctx, cuqi):
    """'all' on a grid with fewer than 4 nodes/levels: neither documented nor excluded - recorded, never a violation."""
    T = np.array([0.0, 0.5, 2.0])
    x = np.array([0.0, 1.0, 3.0])
    pde = cuqi.pde.TimeDependentLinearPDE(lambda p, t: (np.eye(3), np.zeros(3), np.zeros(3)), time_steps=T, grid_sol=x, time_obs="all")
    u = np.arange(9.0).reshape(3, 3)
    try:
        r = _quiet(lambda: pde.observe(u))
        ctx.observe("observe_all_on_3x3_grid", "returns restriction" if np.allclose(r, u) else "returns other values")
    except Exception as e:
        ctx.observe("observe_all_on_3x3_grid", "raises %s" % type(e).__name__)


def observe_list_grids(ctx, cuqi):
    """grid_sol / grid_obs are documented as np.ndarray: whether python lists are accepted is recorded, never a violation"""
    x = [0.0, 0.5, 2.0]
    u = np.array([1.0, 2.0, 4.0])
    for name, kw in (("grid_sol list, grid_obs None", dict(grid_sol=x)), ("grid_sol and grid_obs equal lists", dict(grid_sol=x, grid_obs=list(x))),
                     ("grid_sol array, grid_obs list", dict(grid_sol=np.array(x), grid_obs=[0.25, 1.0]))):
        try:
            pde = cuqi.pde.SteadyStateLinearPDE(lambda p: (np.eye(3), np.zeros(3)), **kw)
            r = np.asarray(_quiet(lambda: pde.observe(u)), dtype=float)
            ctx.observations.setdefault("grids_as_python_lists", {})[name] = "accepted (%d values)" % r.size
        except Exception as e:
            ctx.observations.setdefault("grids_as_python_lists", {})[name] = "raises %s" % type(e).__name__


# ----------------------------------------------------------------------------------------------------------
def _dispatch(ctx, cuqi, cases):
    counts = {}
    for i, c in enumerate(cases):
        k = c["kind"]
        counts[k] = counts.get(k, 0) + 1
        {"steady": check_steady, "time": check_time, "tobs": check_tobs, "sobs": check_sobs, "sseq": check_seq,
         "tseq": check_seq}[k](ctx, cuqi, c, i)
    return counts


def _sort_key(c):
    return json.dumps(c, sort_keys=True)


def run(ctx):
    from cuqiverif.core import MachineryError
    from cuqiverif import tlc as _tlc
    import concurrent.futures, os
    cuqi = _pde_mod()
    # named deviation -> the invariant it has to violate on the model
    devs = {"OperatorAtOldTime": "DiscreteEquation", "DtFromNextInterval": "DiscreteEquation", "StaleGridFlag": "SeqObserveCurrent",
            "AssembleSkipsSameObject": "SeqParamCurrent", "SetterSkipsSameObject": "SeqObserveCurrent",
            "ObserveInSolutionOrder": "SeqObserveCurrent", "StaleStepSystem": "SeqSolveCurrent",
            "GridsEqualWithinTolerance": "SobsImplExact", "FinalTimeWithinTolerance": "TobsImplExact"}
    wd = lambda label: os.path.join(_tlc.WORK, "PDE-c18-%s-%d" % (label, os.getpid()))
    # the (small) deviation runs are started together with the main run (JVM starts in sequence cost minutes on a loaded machine)
    pool = concurrent.futures.ThreadPoolExecutor(max_workers=len(devs))
    fut = {dev: pool.submit(ctx.tlc, "PDE", cfg="PDE.dev_%s.cfg" % dev, workers=2, timeout=2400, expect_violation=True,
                            workdir=wd(dev)) for dev in devs}
    try:
        res = ctx.tlc("PDE", cfg="PDE.%s.cfg" % ctx.tier, workers=16, timeout=3600,
                      require_actions=["Start", "Step", "SetGridObs", "SetGridSol", "SetTimeObs", "Assemble", "Solve", "Observe",
                                       "Forward", "MutateParam", "Use", "MutateGrid", "Reassign", "SvAssemble", "SvSolveAct",
                                       "SvForward", "SvGradient"], workdir=wd("main"))
    except BaseException:
        concurrent.futures.wait(list(fut.values()))
        for label in ["main"] + list(devs):                       # nothing of a failed run stays under .work
            _tlc.cleanup(wd(label))
        raise
    finally:
        concurrent.futures.wait(list(fut.values()))
        pool.shutdown()
    try:
        ctx.model_must_hold(res, "PDE")
        cases = sorted(res.cases, key=_sort_key)
        if set(c["kind"] for c in cases) != {"steady", "time", "tobs", "sobs", "sseq", "tseq"}:
            raise MachineryError("PDE emitted kinds %r" % sorted(set(c["kind"] for c in cases)))
        for dev, inv in devs.items():
            r2 = fut[dev].result()
            if r2.ok or r2.violated != inv:
                raise MachineryError("deviation %s does not violate %s on the model (violated=%r)" % (dev, inv, r2.violated))
    finally:
        for label in ["main"] + list(devs):
            _tlc.cleanup(wd(label))
    seqs = [c for c in cases if c["kind"] in ("sseq", "tseq")]
    for k in ("sseq", "tseq"):
        for via in ("pde", "model"):
            mine = [c for c in seqs if c["kind"] == k and c["via"] == via]
            seen = set(e["a"] for c in mine if c.get("mode", "grid") == "grid" for e in c["hist"])
            need = set(SEQ_ACTIONS) - ({"set_time_obs"} if k == "sseq" else set()) - \
                ({"forward"} if via == "pde" else {"assemble", "solve", "observe"})
            if need - seen:
                raise MachineryError("vacuous model: no %s/%s behaviour with the call(s) %r" % (k, via, sorted(need - seen)))
            missing = [name for name, pred in _SEQ_PATTERNS.items()
                       if not any(_seq_has(c, pred) for c in mine if c.get("mode") == ("ginp" if "grid" in name else "param"))]
            if missing:
                raise MachineryError("vacuous model: no %s/%s behaviour with the pattern(s) %r" % (k, via, missing))
            # mode "order": an observation of an object CONSTRUCTED with an unsorted observation grid, and one after each setter
            # chose an unsorted / repeated grid (times) on an object that has observed before
            omine = [c for c in mine if c.get("mode") == "order"]
            need = {"new[unsorted].observe": lambda c: c["hist"][0]["a"] in ("observe", "forward") and c["hist"][0]["order"] == "unsorted",
                    "observe.set_grid_obs[unsorted].observe": lambda c: _seq_has(c, lambda a, b, d: (
                        a["a"] in ("observe", "forward") and b["a"] == "set_grid_obs" and b["order"] == "unsorted"
                        and d["a"] in ("observe", "forward"))),
                    "set_grid_obs[repeated].observe": lambda c: _seq_has(c, lambda a, b: (
                        a["a"] == "set_grid_obs" and a["order"] == "repeated" and b["a"] in ("observe", "forward"))),
                    "set_grid_obs[unsorted].set_grid_sol.observe": lambda c: _seq_has(c, lambda a, b, d: (
                        a["a"] == "set_grid_obs" and b["a"] == "set_grid_sol" and b["order"] == "unsorted"
                        and d["a"] in ("observe", "forward")))}
            if k == "tseq":
                need["set_time_obs[unsorted].observe"] = lambda c: _seq_has(c, lambda a, b: (
                    a["a"] == "set_time_obs" and a["order"] == "unsorted" and b["a"] in ("observe", "forward")))
            missing = [name for name, pred in need.items() if not any(pred(c) for c in omine)]
            if missing:
                raise MachineryError("vacuous model: no %s/%s behaviour of mode order with the pattern(s) %r" % (k, via, missing))
    # mode "solve": for BOTH methods and a SINGLE time step: two different parameters solved one after the other on one object, a
    # solve repeated without a new assemble, through the model two different parameters and a gradient at a parameter that is not
    # the one of the last forward evaluation; a single node
    sv = [c for c in seqs if c.get("mode") == "solve"]
    for method in ("forward_euler", "backward_euler"):
        for nt in (2, 3, 4):
            for via, need in (("pde", {"assemble.solve.assemble.solve": lambda a, b, d, e: (
                                           [h["a"] for h in (a, b, d, e)] == ["assemble", "solve", "assemble", "solve"]
                                           and b["val"]["th"] != e["val"]["th"]),
                                       "solve.solve[again]": lambda a, b: a["a"] == b["a"] == "solve" and b["arg"] == "again"}),
                              ("model", {"forward(p1).forward(p2)": lambda a, b: a["a"] == b["a"] == "forward" and a["val"]["th"] != b["val"]["th"],
                                         "forward(p1).gradient(p2)": lambda a, b: (a["a"] == "forward" and b["a"] == "gradient"
                                                                                   and a["val"]["th"] != b["val"]["th"])})):
                mine = [c for c in sv if c["method"] == method and len(c["T"]) == nt and c["via"] == via]
                if nt == 4 and via == "model":          # (three steps through the model: exact sensitivities exceed 32 bits, not emitted)
                    continue
                missing = [name for name, pred in need.items() if not any(_seq_has(c, pred) for c in mine)]
                if missing:
                    raise MachineryError("vacuous model: no solve-mode behaviour (%s, %d levels, %s) with %r" % (method, nt, via, missing))
    if not any(c["m"]["n"] == 1 for c in sv) or not any(c["n"] == 1 for c in cases if c["kind"] in ("steady", "time")):
        raise MachineryError("vacuous model: no single-node problem")
    if not any(len(c["T"]) == 2 for c in cases if c["kind"] == "time"):
        raise MachineryError("vacuous model: no time grid with a single step")
    # where the grids lie on the axis, sequences: per class and via an object whose grids are moved, with observe - set grid_obs -
    # observe and set grid_sol - observe
    for k in ("sseq", "tseq"):
        for via in ("pde", "model"):
            mine = [c for c in seqs if c["kind"] == k and c["via"] == via and c.get("xf", "id") != "id"]
            need = {"observe.set_grid_obs.observe": lambda a, b, d: (a["a"] in ("observe", "forward") and b["a"] == "set_grid_obs"
                                                                     and d["a"] in ("observe", "forward")),
                    "set_grid_sol.observe": lambda a, b: a["a"] == "set_grid_sol" and b["a"] in ("observe", "forward")}
            missing = [name for name, pred in need.items() if not any(_seq_has(c, pred) for c in mine)]
            if missing:
                raise MachineryError("vacuous model: no %s/%s behaviour under a change of variable with %r" % (k, via, missing))
    # where the grids lie on the axis: every change of variable with a staggered grid of the length of the solution grid
    for kind_ in ("sobs", "tobs"):
        have = set((c["xf"], c["g"]) for c in cases if c["kind"] == kind_)
        xfs = set(c["xf"] for c in cases if c["kind"] == kind_)
        if len(xfs) < 9 or any((xf_, g_) not in have for xf_ in xfs for g_ in ("same", "stag")):
            raise MachineryError("vacuous model: %s cases do not cover every change of variable with the grids same / stag" % kind_)
    # the ORDER grids / times of the one-shot kinds
    for kind_, field, vals in (("sobs", "g", ("rev", "perm", "subu", "rep", "repu", "shiftu", "mixu")),
                               ("tobs", "g", ("rev", "perm", "subu", "rep", "repu", "shiftu", "mixu")),
                               ("tobs", "t", ("allrev", "subu", "finu", "rep", "shiftu", "mixu")),
                               ("steady", "omode", ("perm", "pick")), ("time", "omode", ("explu", "finalrev"))):
        have = set(c[field] for c in cases if c["kind"] == kind_)
        if set(vals) - have:
            raise MachineryError("vacuous model: no %s case with %s in %r" % (kind_, field, sorted(set(vals) - have)))
    chosen, sampled = _seq_select(ctx, seqs)
    cases = [c for c in cases if c["kind"] not in ("sseq", "tseq")] + chosen
    counts = _dispatch(ctx, cuqi, cases)
    observe_small_grids(ctx, cuqi)
    observe_list_grids(ctx, cuqi)
    # the SOLUTION grid as an ordered sequence: descending / permuted node numbering (specs/PDESolGrid.tla)
    from cuqiverif import c18_solgrid
    counts["solgrid"] = c18_solgrid.run_part(ctx, cuqi)
    from cuqiverif import c18_timeseq
    counts["timeseq"] = c18_timeseq.run_part(ctx, cuqi)
    ctx.observe("cases_by_kind", counts)
    ctx.observe("seq_behaviours", {"emitted": len(seqs), "replayed": len(chosen), "sampled": sampled,
                                   "by_length": {str(n): sum(1 for c in chosen if len(c["hist"]) == n)
                                                 for n in sorted(set(len(c["hist"]) for c in chosen))}})
    for k in ("steady", "time", "tobs", "sobs"):
        ex = [c for c in cases if c["kind"] == k]
        ctx.sample({"case": ex[len(ex) // 2]})
    for k in ("sseq", "tseq"):          # one observe - set - observe behaviour per class
        ex = [c for c in chosen if c["kind"] == k and [e["a"] for e in c["hist"]] == ["observe", "set_grid_obs", "observe"]]
        if ex:
            ctx.sample({"case": {kk: vv for kk, vv in ex[0].items() if kk != "m"}})
    ex = [c for c in chosen if c["kind"] == "sseq" and c.get("mode") == "param" and _seq_has(c, _SEQ_PATTERNS["use(X).mutate(X).use(X)"])]
    if ex:
        ctx.sample({"case": {kk: vv for kk, vv in ex[0].items() if kk != "m"}}, limit=7)
    ex = [c for c in chosen if c["kind"] == "sseq" and c.get("mode") == "order" and c["go0"] == "none"
          and [e["a"] for e in c["hist"]] == ["observe", "set_grid_obs", "observe"] and c["hist"][1]["arg"] == "subu"]
    if ex:
        ctx.sample({"case": {kk: vv for kk, vv in ex[0].items() if kk != "m"}}, limit=8)
    ctx.observe("seq_behaviours_by_mode", {md: sum(1 for c in chosen if c.get("mode", "grid") == md) for md in ("grid", "param", "ginp", "order", "solve")})
    ctx.observe("observation_cases_by_change_of_variable",
                {xf_: sum(1 for c in cases if c["kind"] in ("sobs", "tobs") and c.get("xf") == xf_)
                 for xf_ in sorted(set(c.get("xf", "id") for c in cases if c["kind"] in ("sobs", "tobs")))})
    ctx.observe("cases_by_order_of_observation_grid_and_times",
                {o: sum(1 for c in cases if c["kind"] not in ("sseq", "tseq") and c.get("order") == o) for o in ("asc", "repeated", "unsorted")})
    ctx.rule = ("one case per problem emitted by TLC from PDE.tla (steady: matrices, theta, solver return shape, observation grid/map with "
                "exact A, f, u, forward value and Jacobian; time: matrices, non-uniform grid, theta, method, observation mode with the "
                "exact trajectory and the assembly times; tobs/sobs: polynomial data with exact observed values; sseq/tseq: one "
                "behaviour = one sequence of <= SeqDepth calls on one PDE object / PDEModel with the exact value of every call, in the "
                "modes grid (setters) / param (parameter arrays modified in place, itself or copy) / ginp (grid arrays modified in place "
                "and handed over again) / order (observation grids / times reversed, permuted, unsorted sub-selections, repeated) / solve "
                "(several parameters through one time-dependent object, 1-3 time steps); sobs / tobs / mode grid also under changes of "
                "variable of the axis (field xf) and, harness side, with the arrays in other layouts / types); "
                "distinct = problem x comparison group (solve, observe, model forward, gradient variant; sequences: every prefix)")
    ctx.exhaustive = not sampled
    ctx.traces = counts.get("time", 0) + len(chosen)
    ctx.assumptions += ["numpy.linalg.solve inside the scripted linear solvers handed to the PDE classes",
                        "scipy's quadratic / bicubic interpolants reproduce polynomials of degree <= 2 / <= 3 per variable "
                        "(checked: the polynomial cases agree to 1e-9)"]


def replay(ctx, case):
    if case.get("kind") == "model":
        return run(ctx)
    cuqi = _pde_mod()
    if case.get("kind") == "timeseq":
        from cuqiverif import c18_timeseq
        return c18_timeseq.run_part(ctx, cuqi, only=case["key"])
    if case.get("kind") == "solgrid":
        from cuqiverif import c18_solgrid
        return c18_solgrid.run_part(ctx, cuqi, only=c18_solgrid.skey(case["c"]))
    fn = {"steady": check_steady, "time": check_time, "tobs": check_tobs, "sobs": check_sobs, "sseq": check_seq,
          "tseq": check_seq}[case["kind"]]
    for idx in range(12):          # all harness-side variants (default solver, kwargs, spelling of time_obs, ...)
        fn(ctx, cuqi, case, idx)
