"""C13 - geometry maps are mutually inverse and act column-wise on batches; conversions are lossless.

Spec: specs/Geometry.tla.  mode "maps": TLC enumerates every geometry configuration of the bounded instance, checks
Partition, Bijection, RoundTrip, Idempotent, Columnwise and Shapes on the specification's index-level maps and emits
the exact index maps / step partitions (rational grids, exact membership) / rational projections.  mode "conv": TLC
explores the flag automaton of Samples (funvals / vector / parameters) and CUQIarray (funvals / parameters) with
explicit content for trails of <= 3 conversions (FlagsLegal, Lossless) and emits every behaviour.  This module drives
the real cuqi.geometry / Samples / CUQIarray objects through every emitted case.
"""
META = {
    "claimed": True,
    "engine": "Geometry.tla",
    "text": ("TLC enumerates Continuous1D / default / Discrete (n<=4/6), Image2D C and F order, visual-only, default 2D and "
             "Continuous2D (r,c<=3/4 incl. 1xn), mapped geometries, KLExpansion (grid<=4/6, every mode count, grid "
             "replacement) and StepExpansion on rational grids (n<=12/24 nodes, every n_steps<=n, 9/30 offset-length "
             "pairs, three projections), checks Partition, Bijection, RoundTrip, Idempotent, Columnwise (numpy reshape "
             "index arithmetic) and Shapes on the specification and emits exact index maps, partitions and rational "
             "projections; it explores the Samples / CUQIarray conversion automaton with explicit content for trails "
             "of <=3 conversions (FlagsLegal, Lossless; five named deviations must each violate their invariant). The "
             "harness applies the real maps to basis vectors, ramps and batches of width 2 and 3, reads the step "
             "partition through fun2par, and replays every conversion behaviour comparing flags and content after "
             "every action."),
    "note": ("Bounded sizes; KLExpansion is specified abstractly in the sine basis written in its docstring (decay 2, "
             "normalizer 12; compared to 1e-10), KLExpansion_Full / CustomKL / FEniCS geometries are not modelled. "
             "Batch behaviour is asserted for par2fun everywhere and for fun2par of the continuous, KL and step "
             "geometries; Image2D.fun2par on batches and Continuous2D.fun2vec are observations. A grid node that "
             "coincides with an interior step boundary may be assigned to either neighbouring step (observation) as long "
             "as the steps still partition the grid; step grids are built with np.linspace from correctly rounded "
             "end points."),
    "technique": "TLA+ spec (Geometry) model-checked with TLC; TLC-emitted index maps, partitions and conversion "
                 "behaviours replayed into cuqi.geometry, cuqi.samples.Samples and cuqi.array.CUQIarray",
}

import contextlib, io, math, warnings
from fractions import Fraction

import numpy as np

DEVIATIONS = [("openfirst", "PartitionInv"), ("batchmix", "ColumnwiseInv"), ("ravelC", "RoundTripInv"), ("stalekl", "RoundTripInv"),
              ("vectorsetspar", "Lossless")]
TOL = 1e-12
KLTOL = 1e-10


# ---------------------------------------------------------------------------------------------------------------
def fr(q):
    return Fraction(int(q[0]), int(q[1]))


def dec(v, ndim):
    """nested sequences with rational leaves <<n, d>> -> float ndarray with `ndim` axes"""
    if ndim == 0:
        return float(fr(v))
    return np.array([dec(x, ndim - 1) for x in v], dtype=float)


def ckey(c):
    k = c["kind"]
    if k == "ident":
        return "ident/%s/n=%d" % (c["cls"], c["n"])
    if k == "image":
        return "image/%s/r=%d/c=%d" % (c["cls"], c["r"], c["cc"])
    if k == "mapped":
        return "mapped/%s/n=%d/r=%d/c=%d" % (c["cls"], c["n"], c["r"], c["cc"])
    if k == "kl":
        return "kl/n=%d/m=%d/n2=%d" % (c["n"], c["m"], c["n2"])
    if k == "step":
        s = "step/x0=%d_%d/L=%d_%d/n=%d/s=%d" % (c["x0"][0], c["x0"][1], c["len"][0], c["len"][1], c["n"], c["s"])
        return s + ("/proj=%s" % c["proj"] if c["proj"] else "")
    return repr(c)


def is2d(c):
    return (c["kind"] == "image" and not c["cls"].startswith("Visual")) or (c["kind"] == "mapped" and c["cls"] != "Continuous1D")


def sel_type(c):
    return c["kind"] != "kl"


# ---------------------------------------------------------------------------------------------------------------
# realisation
def _image(cls, r, cc):
    import cuqi
    G = cuqi.geometry
    if cls == "Image2D_C":
        return G.Image2D((r, cc), order="C")
    if cls == "Image2D_F":
        return G.Image2D((r, cc), order="F")
    if cls == "Visual_C":
        return G.Image2D((r, cc), order="C", visual_only=True)
    if cls == "Visual_F":
        return G.Image2D((r, cc), order="F", visual_only=True)
    if cls == "Default2D":
        from cuqi.geometry import _DefaultGeometry2D
        return _DefaultGeometry2D((r, cc))
    if cls == "Continuous2D":
        return G.Continuous2D((r, cc))
    raise KeyError(cls)


def step_grid(c):
    x0, L = fr(c["x0"]), fr(c["len"])
    return np.linspace(float(x0), float(x0 + L), c["n"])


def make_geometry(c, proj=None):
    from cuqiverif.core import MachineryError
    import cuqi
    G = cuqi.geometry
    k = c["kind"]
    with warnings.catch_warnings(), contextlib.redirect_stdout(io.StringIO()):
        warnings.simplefilter("ignore")
        if k == "ident":
            if c["cls"] == "Continuous1D":
                return G.Continuous1D(c["n"])
            if c["cls"] == "Default1D":
                from cuqi.geometry import _DefaultGeometry1D
                return _DefaultGeometry1D(c["n"])
            if c["cls"] == "Discrete":
                return G.Discrete(c["n"])
        if k == "image":
            return _image(c["cls"], c["r"], c["cc"])
        if k == "mapped":
            inner = G.Continuous1D(c["n"]) if c["cls"] == "Continuous1D" else _image(c["cls"], c["r"], c["cc"])
            return G.MappedGeometry(inner, map=lambda x: 2 * x + 1, imap=lambda f: (f - 1) / 2)
        if k == "kl":
            g = G.KLExpansion(np.linspace(0, 1, c["n"]), decay_rate=2, normalizer=12,
                              num_modes=None if c["m"] == 0 else c["m"])
            if c["n2"] > 0:
                # use the geometry once (fills whatever it caches), then replace the grid
                d = g.par_dim
                if d > 0:
                    f = g.par2fun(np.ones(d))
                    if c["n"] > 1:
                        g.fun2par(np.asarray(f).reshape(c["n"]))
                g.grid = np.linspace(0, 1, c["n2"])
            return g
        if k == "step":
            return G.StepExpansion(step_grid(c), n_steps=c["s"], fun2par_projection=proj or c["proj"] or "mean")
    raise MachineryError("unknown configuration emitted by the spec: %r" % (c,))


def kl_basis(N):
    """the sine basis written in the KLExpansion docstring: column i is mode i evaluated at K = 0..N-1"""
    K = np.arange(N)[:, None]
    i = np.arange(N)[None, :]
    B = np.sin(math.pi / N * (i + 1) * (K + 0.5))
    B[:, N - 1] = ((-1.0) ** np.arange(N)) / 2
    return B


# ---------------------------------------------------------------------------------------------------------------
class Model:
    """The specification's maps of one configuration, rebuilt from the emitted index maps (selection type) or
    coefficients (KL).  Everything here is derived from what TLC emitted."""

    def __init__(self, case):
        self.case = case
        c = self.c = case["c"]
        self.par_dim = case["par_shape"][0]
        self.fun_shape = tuple(case["fun_shape"])
        self.has_vec = case["has_vec"]
        self.two = is2d(c)
        if self.two:
            self.index = np.array(case["index"], dtype=int)
        if c["kind"] == "step":
            self.stepof = np.array(case["stepof"], dtype=int)
        if c["kind"] == "kl":
            self.N = self.fun_shape[0]
            self.B = kl_basis(self.N)
            self.coefs = np.array([float(fr(q)) for q in case["coefs"]])

    def p2f(self, p):
        c = self.c
        p = np.asarray(p, dtype=float)
        if c["kind"] == "ident":
            return p.copy()
        if c["kind"] in ("image", "mapped"):
            f = p[self.index] if self.two else p.copy()
            return 2 * f + 1 if c["kind"] == "mapped" else f
        if c["kind"] == "kl":
            modes = np.zeros(self.N)
            modes[:self.par_dim] = self.coefs * p
            return self.B @ modes
        if c["kind"] == "step":
            return p[self.stepof]

    def f2v(self, f):
        if not self.two:
            return np.asarray(f, dtype=float).copy()
        v = np.empty(self.index.size)
        v[self.index] = f
        return v

    def tol(self):
        return TOL if sel_type(self.c) else KLTOL


def close(a, b, tol):
    a, b = np.asarray(a, dtype=float), np.asarray(b, dtype=float)
    if a.shape != b.shape:
        return False
    if a.size == 0:
        return True
    return bool(np.all(np.abs(a - b) <= tol * np.maximum(1.0, np.abs(b))))


def compare(ctx, sig, case, what, expected, observed, tol):
    """value + shape comparison; a result that differs from the expectation only by squeezed unit dimensions is
    reported under its own signature class (shape_unitdim/...)."""
    expected = np.asarray(expected, dtype=float)
    try:
        obs = np.asarray(observed, dtype=float)
    except Exception:       # noqa: BLE001
        ctx.mismatch("value/" + sig, case, what + " (result is not a numeric array)", expected, repr(observed)[:200])
        return False
    if obs.shape == expected.shape:
        if close(obs, expected, tol):
            return True
        ctx.mismatch("value/" + sig, case, what, expected, obs)
        return False
    if obs.size == expected.size and [d for d in obs.shape if d != 1] == [d for d in expected.shape if d != 1] \
            and 1 in expected.shape and close(obs.reshape(expected.shape), expected, tol):
        ctx.mismatch("shape_unitdim/" + sig, case, what + ": values agree but a dimension of size 1 of the reported shape is missing",
                     list(expected.shape), list(obs.shape))
        return False
    ctx.mismatch("shape/" + sig, case, what + ": shape differs", list(expected.shape), list(obs.shape))
    return False


def _call(f, *a):
    with warnings.catch_warnings(), contextlib.redirect_stdout(io.StringIO()):
        warnings.simplefilter("ignore")
        return f(*a)


# ---------------------------------------------------------------------------------------------------------------
# StepExpansion: partition read through the public maps
def check_step_partition(ctx, case, G):
    """Returns (status, steps) with status in {'exact', 'shifted', 'broken'}; steps = code's step per node."""
    c = case["c"]
    key = ckey(c)
    n, s = c["n"], c["s"]
    exact = np.array(case["stepof"], dtype=int)
    boundary = np.array(case["boundary"], dtype=bool)
    Gm = make_geometry(c, "mean")
    ctx.case(("step_partition", key), facet="step_partition")
    # membership matrix through fun2par('mean') of the nodal basis functions: M[i, j] > 0 iff node j contributes to step i
    try:
        M = np.asarray(_call(Gm.fun2par, np.eye(n)), dtype=float).reshape(s, n)
    except Exception as ex:        # noqa: BLE001
        ctx.mismatch("stepexp/partition/%s" % key, case, "fun2par of the nodal basis raised: %r" % (ex,))
        return "broken", None
    member = M > 0
    empty = [i for i in range(s) if not member[i].any() or np.isnan(M[i]).any()]
    counts = member.sum(axis=0)
    # what par2fun writes on the nodes (0 where no step writes)
    written = np.asarray(_call(G.par2fun, np.arange(1, s + 1, dtype=float)), dtype=float).reshape(n)
    uncovered = [j for j in range(n) if written[j] == 0 or counts[j] == 0]
    double = [j for j in range(n) if counts[j] > 1]
    code = np.array([int(written[j]) - 1 for j in range(n)])
    shift_only = all((code[j] == exact[j]) or (boundary[j] and code[j] == exact[j] + 1) for j in range(n))
    last_out = (uncovered == [n - 1] and not double
                and all((code[j] == exact[j]) or (boundary[j] and code[j] == exact[j] + 1) for j in range(n - 1))
                and all(member[:, j].sum() == 1 for j in range(n - 1)))
    if empty or uncovered or double:
        if last_out:
            ctx.mismatch("stepexp/last_node_uncovered/%s" % key, case,
                         "the last grid node belongs to no step: x0 + n_steps*L/n_steps evaluated in floating point is smaller "
                         "than the last node (par2fun returns 0 there)",
                         expected={"step_of_node": exact.tolist()}, observed={"step_written_by_par2fun": code.tolist(), "empty_steps": empty})
        elif shift_only and not uncovered and not double:
            ctx.mismatch("stepexp/empty_step_boundary_shift/%s" % key, case,
                         "a step receives no grid node: a node that coincides with a step boundary is moved to the next "
                         "step by floating-point comparison (par2fun ignores the step's parameter, fun2par returns NaN)",
                         expected={"step_of_node": exact.tolist()}, observed={"step_of_node": code.tolist(), "empty_steps": empty})
        else:
            ctx.mismatch("stepexp/partition/%s" % key, case, "the steps do not partition the grid nodes",
                         expected={"step_of_node": exact.tolist()},
                         observed={"step_written_by_par2fun": code.tolist(), "empty_steps": empty, "uncovered_nodes": uncovered,
                                   "nodes_in_two_steps": double})
        return "broken", None
    if not all(member[code[j], j] for j in range(n)):
        ctx.mismatch("stepexp/partition_inconsistent/%s" % key, case, "par2fun and fun2par use different partitions",
                     code.tolist(), member.astype(int).tolist())
        return "broken", None
    if np.array_equal(code, exact):
        return "exact", code
    if shift_only:
        ctx.observations["step_boundary_node_in_next_step"] = ctx.observations.get("step_boundary_node_in_next_step", 0) + 1
        return "shifted", code
    ctx.mismatch("stepexp/membership/%s" % key, case, "a grid node strictly inside a step interval is assigned to another step",
                 exact.tolist(), code.tolist())
    return "broken", None


def step_projection(f, steps, s, proj):
    out = []
    for i in range(s):
        vals = [Fraction(int(f[j])) for j in range(len(f)) if steps[j] == i]
        out.append(sum(vals) / len(vals) if proj == "mean" else (min(vals) if proj == "min" else max(vals)))
    return np.array([float(x) for x in out])


# ---------------------------------------------------------------------------------------------------------------
def check_maps(ctx, case):
    c = case["c"]
    key = ckey(c)
    try:
        G = make_geometry(c, "mean")
    except Exception as ex:     # noqa: BLE001
        from cuqiverif.core import MachineryError
        if isinstance(ex, MachineryError):
            raise
        ctx.mismatch("construct/" + key, case, "an admissible configuration cannot be constructed: %r" % (ex,))
        return
    m = Model(case)
    tol = m.tol()
    d = m.par_dim
    # --- shapes reported by the geometry
    ctx.case(("shapes", key), facet="shapes")
    rep = {"par_shape": tuple(G.par_shape), "fun_shape": tuple(G.fun_shape), "par_dim": G.par_dim, "fun_dim": G.fun_dim}
    exp = {"par_shape": (d,), "fun_shape": m.fun_shape, "par_dim": d, "fun_dim": int(np.prod(m.fun_shape))}
    if m.has_vec:
        try:
            rep["funvec_shape"] = tuple(_call(lambda: G.funvec_shape))
            rep["funvec_dim"] = _call(lambda: G.funvec_dim)
        except Exception as ex:     # noqa: BLE001
            rep["funvec_shape"] = repr(ex)
        exp["funvec_shape"] = tuple(case["funvec_shape"])
        exp["funvec_dim"] = case["funvec_shape"][0]
    else:
        try:
            ctx.observe("funvec_shape_without_vector_form/" + c["cls"], repr(_call(lambda: G.funvec_shape)))
        except Exception as ex:     # noqa: BLE001
            ctx.observe("funvec_shape_without_vector_form/" + c["cls"], type(ex).__name__)
    if rep != exp:
        rest = {k: v for k, v in rep.items() if not k.startswith("funvec")} == {k: v for k, v in exp.items() if not k.startswith("funvec")}
        if rest and isinstance(rep.get("funvec_shape"), str) and (1 in m.fun_shape or d == 1):
            # funvec_shape is inferred from fun2vec(par2fun(ones)), whose unit dimension was squeezed away
            ctx.mismatch("shape_unitdim/%s/reported_funvec_shape" % key, case, "funvec_shape cannot be inferred: the single-input "
                         "map output lost a dimension of size 1", exp, rep)
        else:
            ctx.mismatch("reported_shape/" + key, case, "shapes / dimensions reported by the geometry differ from the specification", exp, rep)
    if d == 0:
        return
    # --- StepExpansion partition (decides which oracle the projections use)
    steps_status = None
    if c["kind"] == "step":
        steps_status, code_steps = check_step_partition(ctx, case, G)
        if steps_status == "broken":
            return
        if steps_status == "shifted":
            m.stepof = code_steps
    # --- par2fun on basis vectors and ramps; round trip; vector form
    inputs = [("e%d" % q, np.eye(d)[q]) for q in range(d)] + [("ramp", np.arange(1, d + 1, dtype=float)),
                                                              ("ramp2", (np.arange(1, d + 1, dtype=float) + 2) ** 2 % 11 - 4)]
    for name, p in inputs:
        ctx.case(("p2f", key, name), facet="par2fun")
        sig = "%s/par2fun/in=%s" % (key, name)
        try:
            f = _call(G.par2fun, p.copy())
        except Exception as ex:     # noqa: BLE001
            ctx.mismatch("raises/" + sig, case, "par2fun raised: %r" % (ex,))
            continue
        ef = m.p2f(p)
        if not compare(ctx, sig, case, "par2fun(p) is not the function the specification's index map gives", ef, f, tol):
            continue
        f = np.asarray(f, dtype=float)
        sig = "%s/fun2par_par2fun/in=%s" % (key, name)
        try:
            back = _call(G.fun2par, f.copy())
            compare(ctx, sig, case, "fun2par(par2fun(p)) is not p", p, back, max(tol, 1e-11) if c["kind"] == "kl" else tol)
        except Exception as ex:     # noqa: BLE001
            ctx.mismatch("raises/" + sig, case, "fun2par raised: %r" % (ex,))
        if m.has_vec:
            sig = "%s/fun2vec/in=%s" % (key, name)
            try:
                v = _call(G.fun2vec, f.copy())
                if compare(ctx, sig, case, "fun2vec(f) is not the vector form of the specification", m.f2v(ef), v, tol):
                    f2 = _call(G.vec2fun, np.asarray(v, dtype=float).copy())
                    compare(ctx, "%s/vec2fun_fun2vec/in=%s" % (key, name), case, "vec2fun(fun2vec(f)) is not f", ef, f2, tol)
            except Exception as ex:     # noqa: BLE001
                ctx.mismatch("raises/" + sig, case, "fun2vec / vec2fun raised: %r" % (ex,))
    # --- fun2par of a function outside the range of par2fun: the documented projection; idempotence
    projs = ["mean", "min", "max"] if c["kind"] == "step" else [None]
    for pr in projs:
        Gp = make_geometry(c, pr) if pr else G
        nd = 2 if m.two else 1
        f0 = dec(case["f0"], nd)
        if c["kind"] == "kl":
            f0 = m.B @ f0                      # the spec's function is given in mode coordinates
        if c["kind"] == "step":
            if steps_status == "exact":
                ep = dec(case["f2p_" + pr], 1)
            else:                              # boundary node in the neighbouring step: consistency with the code's own partition
                ep = step_projection(f0, m.stepof, c["s"], pr)
        else:
            ep = dec(case["f2p"], 1)
        ctx.case(("f2p", key, pr), facet="fun2par")
        sig = "%s/fun2par/proj=%s" % (key, pr)
        try:
            p1 = _call(Gp.fun2par, f0.copy())
        except Exception as ex:     # noqa: BLE001
            ctx.mismatch("raises/" + sig, case, "fun2par raised: %r" % (ex,))
            continue
        if not compare(ctx, sig, case, "fun2par(f) is not the documented inverse / projection", ep, p1, tol):
            continue
        try:
            g1 = np.asarray(_call(Gp.par2fun, np.asarray(p1, dtype=float).reshape(d)), dtype=float)
            p2 = _call(Gp.fun2par, g1.copy())
            g2 = _call(Gp.par2fun, np.asarray(p2, dtype=float).reshape(d))
            compare(ctx, "%s/idempotent/proj=%s" % (key, pr), case, "mapping back and forth once more changes the function",
                    g1, g2, max(tol, 1e-11))
        except Exception as ex:     # noqa: BLE001
            ctx.mismatch("raises/%s/idempotent/proj=%s" % (key, pr), case, "second round trip raised: %r" % (ex,))
    # --- batches: column-wise action
    for W in (2, 3):
        P = np.array([[i + 1 + 10 * w for w in range(W)] for i in range(d)], dtype=float)
        EF = np.stack([m.p2f(P[:, w]) for w in range(W)], axis=-1)
        ctx.case(("batch_p2f", key, W), facet="batch")
        sig = "%s/par2fun_batch/W=%d" % (key, W)
        try:
            FB = _call(G.par2fun, P.copy())
            ok = compare(ctx, sig, case, "par2fun of a matrix of columns is not column-wise par2fun", EF, FB, tol)
        except Exception as ex:     # noqa: BLE001
            ctx.mismatch("raises/" + sig, case, "par2fun raised on a (par_dim, %d) matrix: %r" % (W, ex))
            ok = False
        asserted = c["kind"] in ("kl", "step") or (c["kind"] == "ident" and c["cls"] != "Discrete") or \
            (c["kind"] == "image" and c["cls"] == "Continuous2D")
        sig = "%s/fun2par_batch/W=%d" % (key, W)
        try:
            PB = _call(G.fun2par, EF.copy())
            if asserted:
                ctx.case(("batch_f2p", key, W), facet="batch")
                compare(ctx, sig, case, "fun2par of stacked functions is not column-wise fun2par", P, PB, max(tol, 1e-11))
            else:
                same = np.shape(PB) == P.shape and close(PB, P, 1e-10)
                ctx.observations.setdefault("fun2par_batch_columnwise", {})[c["kind"] + "/" + c["cls"]] = bool(same)
        except Exception as ex:     # noqa: BLE001
            if asserted:
                ctx.mismatch("raises/" + sig, case, "fun2par raised on stacked functions: %r" % (ex,))
            else:
                ctx.observations.setdefault("fun2par_batch_columnwise", {})[c["kind"] + "/" + c["cls"]] = type(ex).__name__


# ---------------------------------------------------------------------------------------------------------------
# conversion automaton
def conv_value(m, case_val, par, vec, fun1d):
    """emitted content (list over columns) -> array with the columns on the last axis, in real coordinates"""
    c = m.c
    cols = []
    for v in case_val:
        nd = 1 if (par or vec or fun1d) else 2
        a = dec(v, nd)
        if c["kind"] == "kl" and not par:
            a = m.B @ a
        cols.append(a)
    return np.stack(cols, axis=-1)


def replay_conv_group(ctx, mcase, group):
    """group: all emitted behaviours of one (configuration, rep, origin); replayed along the trie of trails."""
    from cuqi.samples import Samples
    from cuqi.array import CUQIarray
    c = group[0]["c"]
    key = ckey(c)
    rep, origin = group[0]["rep"], group[0]["origin"]
    m = Model(dict(mcase, c=c))
    fun1d = not m.two
    by_trail = {tuple(g["trail"]): g for g in group}
    root = by_trail[()]
    G = make_geometry(c)
    tol = max(m.tol(), 1e-11) if c["kind"] == "kl" else TOL
    init = conv_value(m, root["val"], root["par"], root["vec"], fun1d)
    if rep == "samples":
        obj0 = Samples(init.copy(), geometry=G, is_par=root["par"], is_vec=root["vec"])
    else:
        obj0 = CUQIarray(init[..., 0].copy(), is_par=root["par"], geometry=G)

    def check(obj, g):
        trail = "-".join(g["trail"]) or "init"
        sig = "%s/%s/origin=%s/trail=%s" % (key, rep, origin, trail)
        case = {"kind": "conv", "c": c, "rep": rep, "origin": origin, "trail": g["trail"]}
        ctx.case(("conv", key, rep, origin, trail), facet="conv_" + rep)
        ok = True
        if bool(obj.is_par) != g["par"] or (rep == "samples" and bool(obj.is_vec) != g["vec"]):
            ctx.mismatch("conv_flags/" + sig, case, "representation flags after the conversions differ from the automaton",
                         [g["par"], g["vec"]], [obj.is_par, getattr(obj, "is_vec", None)])
            ok = False
        if not (obj.geometry is G or obj.geometry == G):
            ctx.mismatch("conv_geometry/" + sig, case, "conversion changed the geometry", repr(G), repr(obj.geometry))
            ok = False
        exp = conv_value(m, g["val"], g["par"], g["vec"], fun1d)
        got = obj.samples if rep == "samples" else np.asarray(obj)
        if rep == "array":
            exp = exp[..., 0]
        ok &= compare(ctx, "conv/" + sig, case, "content after the conversions is not the specification's (lossless, per-sample maps)",
                      exp, got, tol)
        return ok

    def walk(obj, trail):
        g = by_trail[trail]
        if not check(obj, g):
            return
        for op in ("funvals", "vector", "parameters"):
            t2 = trail + (op,)
            if t2 not in by_trail:
                continue
            try:
                nxt = _call(lambda: getattr(obj, op))
            except Exception as ex:     # noqa: BLE001
                sig = "%s/%s/origin=%s/trail=%s" % (key, rep, origin, "-".join(t2))
                unit = (1 in m.fun_shape or m.par_dim == 1) and "broadcast" in str(ex)
                ctx.mismatch(("shape_unitdim/conv_raises/" if unit else "conv_raises/") + sig, {"kind": "conv", "c": c, "rep": rep, "origin": origin, "trail": list(t2)},
                             "conversion raised: %r" % (ex,))
                continue
            walk(nxt, t2)

    before = init.copy()
    walk(obj0, ())
    now = obj0.samples if rep == "samples" else np.asarray(obj0)
    if not np.array_equal(np.asarray(now, dtype=float), before if rep == "samples" else before[..., 0]):
        ctx.mismatch("conv_source/%s/%s/origin=%s" % (key, rep, origin), {"kind": "conv", "c": c, "rep": rep, "origin": origin, "trail": []},
                     "conversions altered the object they were called on", before, now)
    return len(group)


# ---------------------------------------------------------------------------------------------------------------
def run_deviations(ctx):
    from cuqiverif.core import MachineryError
    from cuqiverif import tlc as _t
    for dev, inv in DEVIATIONS:
        res = ctx.tlc("Geometry", cfg="Geometry.dev_%s.cfg" % dev, workers=4, timeout=600, expect_violation=True)
        if res.ok or res.violated != inv:
            raise MachineryError("deviation %s must violate %s on the specification (vacuity test), got %r" % (dev, inv, res.violated))
        ctx.observations.setdefault("deviations_violating", {})[dev] = inv
        _t.cleanup(res)


def _maps_like(c):
    """key of the maps case that belongs to a conv configuration (conv step configurations carry a projection)"""
    return ckey(dict(c, proj=""))


_CASES = {}


def _cases(ctx, tier):
    """TLC run of one tier, cached within the process (a replay file holds several cases)."""
    from cuqiverif import tlc as _t
    from cuqiverif.core import MachineryError
    if tier not in _CASES:
        res = ctx.tlc("Geometry", cfg="Geometry.%s.cfg" % tier, workers=16, timeout=2400, heap="8g")
        ctx.model_must_hold(res, "Geometry")
        maps = {ckey(k["c"]): k for k in res.cases if k["kind"] == "maps"}
        convs = {}
        for k in res.cases:
            if k["kind"] == "conv":
                convs.setdefault((ckey(k["c"]), k["rep"], k["origin"]), []).append(k)
        _t.cleanup(res)
        if not maps or not convs:
            raise MachineryError("Geometry emitted no maps / conv cases")
        _CASES[tier] = (maps, convs)
    return _CASES[tier]


def run(ctx, only=None):
    from cuqiverif.core import MachineryError
    if only is None:
        maps, convs = _cases(ctx, ctx.tier)
        run_deviations(ctx)
    else:
        maps, convs = _cases(ctx, "quick")
        if only not in maps:
            maps, convs = _cases(ctx, "thorough")
    kinds = {}
    for key in sorted(maps):
        if only is not None and key != only:
            continue
        check_maps(ctx, maps[key])
        kinds[maps[key]["c"]["kind"]] = kinds.get(maps[key]["c"]["kind"], 0) + 1
    nbeh = 0
    for (key, rep, origin) in sorted(convs):
        grp = convs[(key, rep, origin)]
        mk = _maps_like(grp[0]["c"])
        if only is not None and mk != only and key != only:
            continue
        if mk not in maps:
            raise MachineryError("no maps case for the conversion configuration %s" % key)
        nbeh += replay_conv_group(ctx, maps[mk], grp)
    ctx.observe("configurations_by_kind", kinds)
    ks = sorted(maps)
    for pick in [k for k in ks if k.startswith("image/Image2D_F/r=2/c=3")][:1] + [k for k in ks if k.startswith("step/") and "n=6/s=5" in k][:1]:
        mc = maps[pick]
        ctx.sample({"maps": {k: mc[k] for k in ("c", "par_shape", "fun_shape", "funvec_shape", "index", "stepof", "boundary", "f2p", "f2p_mean")}})
    g = [x for x in convs.get(("image/Image2D_F/r=2/c=3", "samples", "par"), []) if x["trail"] == ["funvals", "vector"]]
    if g:
        ctx.sample({"conv": g[0]})
    ctx.rule = ("one case per geometry configuration (maps) x input (basis vectors, two ramps, a function outside the range, "
                "batches of width 2 and 3) and one per conversion behaviour (configuration, Samples / CUQIarray, origin, trail) "
                "emitted by TLC from Geometry.tla")
    ctx.exhaustive = True
    ctx.traces = nbeh + len(maps) if only is None else nbeh
    ctx.assumptions += ["sizes bounded by the cfg; step grids np.linspace(float(x0), float(x0 + L), n) with correctly rounded end points",
                        "KLExpansion compared with the sine basis of its docstring evaluated with numpy (1e-10)",
                        "a node on an interior step boundary may belong to either neighbouring step (observation) if the steps partition the grid"]


def replay(ctx, case):
    if case.get("kind") == "model":
        return run(ctx)
    c = case["c"]
    return run(ctx, only=_maps_like(c))
