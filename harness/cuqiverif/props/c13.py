"""C13 - geometry maps are mutually inverse and act column-wise on batches; conversions are lossless.

Spec: specs/Geometry.tla.  mode "maps": TLC enumerates every geometry configuration of the bounded instance, checks
Partition, Bijection, RoundTrip, Idempotent, Columnwise and Shapes on the specification's index-level maps and emits
the exact index maps / step partitions (rational grids, exact membership) / rational projections.  mode "conv": TLC
explores the flag automaton of Samples (funvals / vector / parameters) and CUQIarray (funvals / parameters) with
explicit content for trails of <= 3 conversions (FlagsLegal, Lossless) and emits every behaviour.  Mapped geometries are
modelled structurally (par2fun = Map . inner.par2fun, fun2par = inner.fun2par . IMap) over every inner kind with affine,
cube (exact rationals) and exp (tagged pre-image) maps and stacks of two maps.  mode "seq": behaviours Use / Set on ONE
object (public setters: grid, Discrete.variables; also of the geometry inside a MappedGeometry); after every action the
object must answer like a freshly constructed geometry with the current settings (SeqFresh).  This module drives the real
cuqi.geometry / Samples / CUQIarray objects through every emitted case.  Batches and sample sets have 1, 2 and 3 columns
(Widths): the specification emits par2fun of every column, the shapes of a sample set of Ns samples in its three forms and Ns
(SamplesShape: per-sample shape, then Ns - the sample axis is never dropped, also for ONE sample; deviation batchfast).
Constructor options are a dimension of the configuration space (constants StepOpts, KLDecay2, KLNorms, Forms): every
documented option value of every geometry is a maps configuration and goes through every invariant and every replayed facet;
fun2par of a matrix of stacked functions is column-wise (ColumnwiseF2P; deviation batchreduce); the table option value x
facet is part of the evidence (observation option_value_x_facet) and guarded (_vacuity_options).
Second module specs/GeometryShapeMap.tla (helper cuqiverif/c13_shapemap.py): MappedGeometry whose map CHANGES THE SHAPE of the
function values (sub-sampling, concatenation, reshape 1-D <-> 2-D, transposition, reduction to one number, stacks of two): the
reported fun_shape / fun_dim are those of what par2fun produces (ShapesInv; deviation innershape = the wrapper answers with the
wrapped geometry's shape), Samples.funvals allocates fun_shape + (Ns,) (SamplesInv), round trip where every map has an inverse.
"""
META = {
    "claimed": True,
    "engine": "Geometry.tla + GeometryShapeMap.tla",
    "text": ("TLC enumerates Continuous1D / default / Discrete (n<=4/6), Image2D C and F order, visual-only, default 2D and "
             "Continuous2D (r,c<=3/4 incl. 1xn), MappedGeometry (structurally: par2fun = map . inner.par2fun, fun2par = "
             "inner.fun2par . imap; affine, cube, exp and two stacked maps over 1D / discrete / image C,F / visual-only / "
             "Continuous2D / KL with all and truncated modes / step geometries), KLExpansion (grid<=4/6, every mode count, grid "
             "replacement) and StepExpansion on rational grids (n<=12/24 nodes, every n_steps<=n, 9/30 offset-length "
             "pairs, three projections), checks Partition, Bijection, RoundTrip, Idempotent, Columnwise (numpy reshape "
             "index arithmetic) and Shapes on the specification and emits exact index maps, partitions and rational "
             "projections; it explores the Samples / CUQIarray conversion automaton with explicit content for trails "
             "of <=3 conversions (FlagsLegal, Lossless) and behaviours of <=3/4 uses and public reassignments (grid, "
             "variables; also of the geometry inside a wrapper) on one object (SeqFresh: the object answers like a fresh "
             "geometry with the current settings); sample sets hold 1, 2 and 3 samples and the array shape is part of the "
             "state (SamplesShape: per-sample shape, then Ns); constructor options are constants TLC enumerates - StepExpansion "
             "fun2par_projection mean / max / min in several letter cases, KLExpansion decay_rate (1, 2, omitted = 2.5, 3) x "
             "normalizer (1, 3, 12) x num_modes, the forms of the grid argument (int, tuple, list, array; Continuous2D ints / "
             "arrays / mixed), Discrete variables as int / names, Image2D order C / F / omitted and visual_only, default 2D "
             "visual_only, MappedGeometry map stacks and imap given / None, the bare _WrappedGeometry - each value a configuration "
             "that passes every invariant; ColumnwiseF2P: fun2par of a matrix of stacked functions outside the range of par2fun "
             "(pairwise different columns, step extrema in different columns) is the projection of each column; twelve named "
             "deviations (incl. batchreduce: a step's node values reduced over all columns at once) must each violate their invariant. The "
             "harness applies the real maps to basis vectors, ramps and batches of width 1, 2 and 3, reads the step "
             "partition through fun2par, converts sample sets of 1, 2 and 3 samples on every configuration (shape, Ns, flags, "
             "content, round trips; also sets of FUNCTION samples outside the range through parameters / funvals), applies "
             "fun2par to the stacked functions as a matrix of 1, 2, 3 columns and column by column for every projection "
             "option, records which option value was replayed with which facet (guarded: every documented value x every "
             "facet), replays every conversion behaviour comparing flags, array shape, Ns and content after "
             "every action, and replays every use / reassign behaviour on one real object comparing after every action. "
             "GeometryShapeMap.tla: MappedGeometry with SHAPE-CHANGING maps (f[::2], concatenate([f, 2f+1]), reshape 1-D <-> 2-D, "
             "transpose, array([f.sum()]), and stacks of two = nested wrappers) over Continuous1D / Discrete / Image2D C, F / "
             "Continuous2D / visual-only / StepExpansion; function values are records (shape, entries in C order); ShapesInv (the "
             "reported fun_shape - inferred by applying par2fun to ones - and fun_dim are the shape / size of par2fun(p) for all "
             "basis vectors and ramps; the named deviation 'wrapper answers with the wrapped geometry's fun_shape' must violate it), "
             "SamplesInv (funvals of 1, 2, 3 samples fits fun_shape + (Ns,)), RoundTripInv (stacks whose maps all have an inverse); "
             "every configuration is replayed: reported shapes / dims, funvec_shape where the vector form is defined, par2fun shape "
             "and entries, fun2par(par2fun(p)), Samples.funvals (shape, Ns, flags, every sample), .funvals.parameters, CUQIarray."),
    "note": ("Bounded sizes; KLExpansion is specified abstractly in the sine basis written in its docstring (decay 2, "
             "normalizer 12; compared to 1e-10), KLExpansion_Full / CustomKL / FEniCS geometries are not modelled. "
             "Maps of a mapped geometry are applied by the harness in floating point to the specification's pre-image "
             "(exact rational values of affine / cube maps are emitted and cross-checked). Only attributes with public "
             "setters are reassigned (grid, variables); a refused assignment is accepted; length of `variables` after a "
             "reassignment is an observation. "
             "Batch behaviour is asserted for par2fun everywhere and for fun2par of the continuous, KL and step "
             "geometries; Image2D.fun2par and fun2vec / vec2fun on batches and Continuous2D.fun2vec are observations, as is "
             "whether a geometry map returns the batch axis for a one-column input (both forms are accepted; Samples "
             "conversions must keep it). A grid node that "
             "coincides with an interior step boundary may be assigned to either neighbouring step (observation) as long "
             "as the steps still partition the grid; step grids are built with np.linspace from correctly rounded "
             "end points. Letter-case insensitivity of fun2par_projection is taken from tests/test_geometry.py ('MiN'); "
             "KL decay rates are multiples of 1/2, normalizers integers; the default normalizer (docstring 1.0, signature "
             "12.0) and fun2par of a MappedGeometry without imap are observations. Shape-changing maps: the vector form (funvec_shape, "
             "Samples.vector) is asserted only for a 1-D result over an inner geometry with the base-class vector form; "
             "batches handed to a shape-changing map itself are not asserted (the map is the user's)."),
    "technique": "TLA+ spec (Geometry) model-checked with TLC; TLC-emitted index maps, partitions and conversion "
                 "behaviours replayed into cuqi.geometry, cuqi.samples.Samples and cuqi.array.CUQIarray",
}

import contextlib, io, math, warnings
from fractions import Fraction

import numpy as np

DEVIATIONS = [("openfirst", "PartitionInv"), ("batchmix", "ColumnwiseInv"), ("ravelC", "RoundTripInv"), ("stalekl", "RoundTripInv"),
              ("vectorsetspar", "Lossless"),
              # a Samples conversion that hands the whole array to the (squeezing) geometry map: one sample loses its axis
              ("batchfast", "SamplesShape"),
              # MappedGeometry.fun2par = imap . inner.fun2par (IMapAfterInnerFun2Par): mapped KL round trip; mapped step projection
              ("imapafter", "MappedRoundTripInv"), ("imapafter_proj", "MappedProjectionInv"),
              # a public setter that does not recompute / forget what was derived from the old value
              ("stalestep", "SeqFresh"), ("stalefunvec", "SeqFresh"), ("stalewrap", "SeqFresh"),
              # fun2par of a matrix of stacked functions reduces the node values of a step over ALL columns at once
              ("batchreduce", "ColumnwiseF2PInv")]
TOL = 1e-12
KLTOL = 1e-10


# ---------------------------------------------------------------------------------------------------------------
def fr(q):
    return Fraction(int(q[0]), int(q[1]))


def dec(v, ndim):
    """nested sequences with rational leaves <<n, d>> -> float ndarray with `ndim` axes"""
    if ndim == 0:
        return float(fr(v))
    return np.array([dec(x, ndim - 1) for x in v], dtype=float)


def _cube(v):
    return v ** 3


def _affine(v):
    return 2 * v + 1


def _iaffine(f):
    return (f - 1) / 2


# entry-wise maps of MappedGeometry named by the specification: (map, inverse map)
def _same(v):
    return v


# "wrap": the bare _WrappedGeometry (no map at all)
MAPS = {"affine": (_affine, _iaffine), "cube": (_cube, np.cbrt), "exp": (np.exp, np.log), "wrap": (_same, _same)}


# derivatives of the maps (only to bound the floating-point error of a round trip through the inverse maps)
DMAPS = {"affine": lambda v: 2.0 + 0 * v, "cube": lambda v: 3 * v ** 2, "exp": np.exp, "wrap": lambda v: 1.0 + 0 * v}


def apply_maps(ms, x):
    """<<m1, .., mj>>: mj(.. m1(x))"""
    for mp in ms:
        x = MAPS[mp][0](x)
    return x


def apply_imaps(ms, y):
    for mp in reversed(ms):
        y = MAPS[mp][1](y)
    return y


def inner_cfg(c):
    return dict(c, maps=[])


def _optkey(c):
    """suffix naming the non-default constructor options of a configuration (nothing for the defaults: the keys of the
    configurations that existed before the option dimension are unchanged)"""
    out = ""
    if c.get("d2", 4) != 4 or c.get("tau", 12) != 12:
        out += "/decay2=%d/tau=%d" % (c["d2"], c["tau"])
    if c.get("form"):
        out += "/form=%s" % c["form"]
    return out


def ckey(c):
    ms = c.get("maps") or []
    if ms:      # the form of a mapped configuration is an option of the wrapper (MappedGeometry without imap)
        return "mapped/inner=%s/map=%s" % (ckey(dict(c, maps=[], form="")), "+".join(ms)) + ("/form=%s" % c["form"] if c.get("form") else "")
    return _ckey(c) + _optkey(c)


def _ckey(c):
    k = c["kind"]
    if k == "ident":
        return "ident/%s/n=%d" % (c["cls"], c["n"])
    if k == "image":
        return "image/%s/r=%d/c=%d" % (c["cls"], c["r"], c["cc"])
    if k == "kl":
        return "kl/n=%d/m=%d/n2=%d" % (c["n"], c["m"], c["n2"])
    if k == "step":
        s = "step/x0=%d_%d/L=%d_%d/n=%d/s=%d" % (c["x0"][0], c["x0"][1], c["len"][0], c["len"][1], c["n"], c["s"])
        return s + ("/proj=%s" % c["proj"] if c["proj"] else "")
    return repr(c)


def is2d(c):
    return c["kind"] == "image" and c["cls"] not in ("Visual_C", "Visual_F", "DefaultVisual")


def sel_type(c):
    return c["kind"] != "kl"


# ---------------------------------------------------------------------------------------------------------------
# realisation
def _image(cls, r, cc, form=""):
    import cuqi
    G = cuqi.geometry
    if form == "noorder":           # the order argument is omitted: documented default 'C'
        if cls == "Image2D_C":
            return G.Image2D((r, cc))
        if cls == "Visual_C":
            return G.Image2D((r, cc), visual_only=True)
        raise KeyError((cls, form))
    if cls == "Continuous2D" and form:
        # grid given as two arrays of node coordinates / one array and one number of nodes
        a, b = np.linspace(-1.0, 2.0, r), np.linspace(0.5, 1.0, cc)
        return G.Continuous2D((a, b)) if form == "array" else G.Continuous2D((list(a), cc))
    if form:
        raise KeyError((cls, form))
    if cls == "DefaultVisual":
        from cuqi.geometry import _DefaultGeometry2D
        return _DefaultGeometry2D((r, cc), visual_only=True)
    if cls == "Image2D_C":
        return G.Image2D((r, cc), order="C")
    if cls == "Image2D_F":
        return G.Image2D((r, cc), order="F")
    if cls == "Visual_C":
        return G.Image2D((r, cc), order="C", visual_only=True)
    if cls == "Visual_F":
        return G.Image2D((r, cc), order="F", visual_only=True)
    if cls == "Default2D":
        from cuqi.geometry import _DefaultGeometry2D
        return _DefaultGeometry2D((r, cc))
    if cls == "Continuous2D":
        return G.Continuous2D((r, cc))
    raise KeyError(cls)


def step_grid(c):
    x0, L = fr(c["x0"]), fr(c["len"])
    return np.linspace(float(x0), float(x0 + L), c["n"])


def make_geometry(c, proj=None):
    """the real geometry of a configuration; a non-empty `maps` wraps it in one MappedGeometry per map"""
    import cuqi
    from cuqi.geometry import _WrappedGeometry
    ms = c.get("maps") or []
    g = _make_inner(dict(c, form="") if ms else c, proj)
    for mp in ms:
        if mp == "wrap":
            g = _WrappedGeometry(g)
        elif c.get("form") == "noimap":
            g = cuqi.geometry.MappedGeometry(g, map=MAPS[mp][0])
        else:
            g = cuqi.geometry.MappedGeometry(g, map=MAPS[mp][0], imap=MAPS[mp][1])
    return g


def innermost(g):
    from cuqi.geometry import _WrappedGeometry
    while isinstance(g, _WrappedGeometry):
        g = g.geometry
    return g


def _grid1d(n, form):
    """the documented forms of a 1-D grid argument: number of nodes, tuple with one int, list / array of coordinates"""
    if not form:
        return n
    if form == "tuple":
        return (n,)
    x = np.linspace(-0.5, 1.5, n) if n > 1 else np.array([0.25])
    if form == "list":
        return [float(v) for v in x]
    if form == "array":
        return x
    raise KeyError(form)


def _make_inner(c, proj=None):
    from cuqiverif.core import MachineryError
    import cuqi
    G = cuqi.geometry
    k = c["kind"]
    with warnings.catch_warnings(), contextlib.redirect_stdout(io.StringIO()):
        warnings.simplefilter("ignore")
        form = c.get("form") or ""
        if k == "ident":
            if c["cls"] == "Continuous1D":
                return G.Continuous1D(_grid1d(c["n"], form))
            if c["cls"] == "Default1D":
                from cuqi.geometry import _DefaultGeometry1D
                return _DefaultGeometry1D(_grid1d(c["n"], form))
            if c["cls"] == "Discrete":
                if form == "names":
                    return G.Discrete(["name%d" % i for i in range(c["n"])])
                if not form:
                    return G.Discrete(c["n"])
        if k == "image":
            return _image(c["cls"], c["r"], c["cc"], form)
        if k == "kl" and form in ("", "list"):
            grid = np.linspace(0, 1, c["n"])
            kw = {"normalizer": c.get("tau", 12), "num_modes": None if c["m"] == 0 else c["m"]}
            if c.get("d2", 4) != 5:         # 5: the decay rate is the documented default 2.5 - the argument is omitted
                kw["decay_rate"] = c.get("d2", 4) / 2 if c.get("d2", 4) % 2 else c.get("d2", 4) // 2
            g = G.KLExpansion([float(v) for v in grid] if form == "list" else grid, **kw)
            if c["n2"] > 0:
                # use the geometry once (fills whatever it caches), then replace the grid
                d = g.par_dim
                if d > 0:
                    f = g.par2fun(np.ones(d))
                    if c["n"] > 1:
                        g.fun2par(np.asarray(f).reshape(c["n"]))
                g.grid = np.linspace(0, 1, c["n2"])
            return g
        if k == "step":
            return G.StepExpansion(step_grid(c), n_steps=c["s"], fun2par_projection=proj or c["proj"] or "mean")
    raise MachineryError("unknown configuration emitted by the spec: %r" % (c,))


def kl_basis(N):
    """the sine basis written in the KLExpansion docstring: column i is mode i evaluated at K = 0..N-1"""
    K = np.arange(N)[:, None]
    i = np.arange(N)[None, :]
    B = np.sin(math.pi / N * (i + 1) * (K + 0.5))
    B[:, N - 1] = ((-1.0) ** np.arange(N)) / 2
    return B


# ---------------------------------------------------------------------------------------------------------------
class Model:
    """The specification's maps of one configuration, rebuilt from the emitted index maps (selection type) or
    coefficients (KL).  Everything here is derived from what TLC emitted."""

    def __init__(self, case):
        self.case = case
        c = self.c = case["c"]
        self.par_dim = case["par_shape"][0]
        self.fun_shape = tuple(case["fun_shape"])
        self.has_vec = case["has_vec"]
        self.has_inv = case.get("has_inv", True)
        self.two = is2d(c)
        self.maps = list(c.get("maps") or [])
        if self.two:
            self.index = np.array(case["index"], dtype=int)
        if c["kind"] == "step":
            self.stepof = np.array(case["stepof"], dtype=int)
        if c["kind"] == "kl":
            self.N = self.fun_shape[0]
            self.B = kl_basis(self.N)
            if case.get("halfpow"):
                # half-integer decay rate: the specification's basis functions are the sine modes divided by sqrt(i+1)
                self.B = self.B / np.sqrt(np.arange(1, self.N + 1))[None, :]
            self.coefs = np.array([float(fr(q)) for q in case["coefs"]])

    def p2f(self, p):
        """mapped geometry, structurally: the maps applied entry-wise to the inner geometry's function"""
        return apply_maps(self.maps, self.p2f_inner(p))

    def node(self, g):
        """node values of an (inner) function the specification gives in its own coordinates (KL: mode coordinates)"""
        g = np.asarray(g, dtype=float)
        return self.B @ g if self.c["kind"] == "kl" else g

    def p2f_inner(self, p):
        c = self.c
        p = np.asarray(p, dtype=float)
        if c["kind"] == "ident":
            return p.copy()
        if c["kind"] == "image":
            return p[self.index] if self.two else p.copy()
        if c["kind"] == "kl":
            modes = np.zeros(self.N)
            modes[:self.par_dim] = self.coefs * p
            return self.B @ modes
        if c["kind"] == "step":
            return p[self.stepof]

    def f2v(self, f):
        if not self.two:
            return np.asarray(f, dtype=float).copy()
        v = np.empty(self.index.size)
        v[self.index] = f
        return v

    def tol(self):
        return TOL if sel_type(self.c) else KLTOL

    def rt_tol(self, base, g):
        """Tolerance of fun2par(maps(g)) for a mapped geometry: a relative rounding error of the function values maps(g) is
        amplified by |maps(g)| / |maps'(g)| through the inverse maps (e.g. (v^3)*2+1 near v = 0) and by the norm of the inner
        fun2par (KL: 2 / smallest coefficient).  Unmapped geometries: `base`."""
        if not self.maps:
            return base
        v = np.asarray(g, dtype=float)
        D = np.ones_like(v)
        for mp in self.maps:
            D = D * DMAPS[mp](v)
            v = MAPS[mp][0](v)
        ok = (D != 0) & np.isfinite(D) & np.isfinite(v)
        amp = float(np.max(np.abs(v[ok]) / np.abs(D[ok]))) if ok.any() else 0.0
        if self.c["kind"] == "kl":
            amp *= 2.0 / float(np.min(self.coefs))
        return max(base, 64 * np.finfo(float).eps * amp)


def close(a, b, tol):
    a, b = np.asarray(a, dtype=float), np.asarray(b, dtype=float)
    if a.shape != b.shape:
        return False
    if a.size == 0:
        return True
    return bool(np.all(np.abs(a - b) <= tol * np.maximum(1.0, np.abs(b))))


def compare(ctx, sig, case, what, expected, observed, tol):
    """value + shape comparison; a result that differs from the expectation only by squeezed unit dimensions is
    reported under its own signature class (shape_unitdim/...)."""
    expected = np.asarray(expected, dtype=float)
    try:
        obs = np.asarray(observed, dtype=float)
    except Exception:       # noqa: BLE001
        ctx.mismatch("value/" + sig, case, what + " (result is not a numeric array)", expected, repr(observed)[:200])
        return False
    if obs.shape == expected.shape:
        if close(obs, expected, tol):
            return True
        ctx.mismatch("value/" + sig, case, what, expected, obs)
        return False
    if obs.size == expected.size and [d for d in obs.shape if d != 1] == [d for d in expected.shape if d != 1] \
            and 1 in expected.shape and close(obs.reshape(expected.shape), expected, tol):
        ctx.mismatch("shape_unitdim/" + sig, case, what + ": values agree but a dimension of size 1 of the reported shape is missing",
                     list(expected.shape), list(obs.shape))
        return False
    ctx.mismatch("shape/" + sig, case, what + ": shape differs", list(expected.shape), list(obs.shape))
    return False


def _call(f, *a):
    with warnings.catch_warnings(), contextlib.redirect_stdout(io.StringIO()):
        warnings.simplefilter("ignore")
        return f(*a)


# batch widths / numbers of samples every batch facet runs with (Widths of the specification)
WIDTHS = (1, 2, 3)


def _obs_batch(ctx, name, okind, W, value):
    """observation per (kind / class, width); configurations of one kind that disagree are all kept"""
    o = ctx.observations.setdefault(name, {}).setdefault(okind, {})
    k = "W=%d" % W
    if k in o and o[k] != value:
        value = sorted(set((o[k] if isinstance(o[k], list) else [o[k]]) + [value]), key=str)
    o[k] = value


def _batch_axis(ctx, name, okind, W, expected, result, documented):
    """The result of a geometry map for a W-column input.  For ONE column the batch axis of the result may be present or
    removed (the docstrings of the maps speak of `a single function if only one parameter vector was given`): both are
    accepted and brought to the stacked form; which one occurs, and whether it is the shape the specification's
    squeeze rule gives (`documented`, [] where it is silent), is an observation."""
    try:
        R = np.asarray(result, dtype=float)
    except Exception:       # noqa: BLE001
        return result
    if name is not None and documented:
        o = ctx.observations.setdefault("map_batch_result_shape_as_specified", {}).setdefault(name, {}).setdefault(okind, {})
        o["W=%d" % W] = bool(tuple(R.shape) == tuple(documented)) and o.get("W=%d" % W, True)
    if W == 1 and R.shape == expected.shape[:-1]:
        return R[..., np.newaxis]
    return R


# ---------------------------------------------------------------------------------------------------------------
# StepExpansion: partition read through the public maps
def check_step_partition(ctx, case, G):
    """Returns (status, steps) with status in {'exact', 'shifted', 'broken'}; steps = code's step per node."""
    c = case["c"]
    key = ckey(c)
    n, s = c["n"], c["s"]
    exact = np.array(case["stepof"], dtype=int)
    boundary = np.array(case["boundary"], dtype=bool)
    Gm = make_geometry(c, "mean")
    ctx.case(("step_partition", key), facet="step_partition")
    # membership matrix through fun2par('mean') of the nodal basis functions: M[i, j] > 0 iff node j contributes to step i
    try:
        M = np.asarray(_call(Gm.fun2par, np.eye(n)), dtype=float).reshape(s, n)
    except Exception as ex:        # noqa: BLE001
        ctx.mismatch("stepexp/partition/%s" % key, case, "fun2par of the nodal basis raised: %r" % (ex,))
        return "broken", None
    member = M > 0
    empty = [i for i in range(s) if not member[i].any() or np.isnan(M[i]).any()]
    counts = member.sum(axis=0)
    # what par2fun writes on the nodes (0 where no step writes)
    written = np.asarray(_call(G.par2fun, np.arange(1, s + 1, dtype=float)), dtype=float).reshape(n)
    uncovered = [j for j in range(n) if written[j] == 0 or counts[j] == 0]
    double = [j for j in range(n) if counts[j] > 1]
    code = np.array([int(written[j]) - 1 for j in range(n)])
    shift_only = all((code[j] == exact[j]) or (boundary[j] and code[j] == exact[j] + 1) for j in range(n))
    last_out = (uncovered == [n - 1] and not double
                and all((code[j] == exact[j]) or (boundary[j] and code[j] == exact[j] + 1) for j in range(n - 1))
                and all(member[:, j].sum() == 1 for j in range(n - 1)))
    if empty or uncovered or double:
        if last_out:
            ctx.mismatch("stepexp/last_node_uncovered/%s" % key, case,
                         "the last grid node belongs to no step: x0 + n_steps*L/n_steps evaluated in floating point is smaller "
                         "than the last node (par2fun returns 0 there)",
                         expected={"step_of_node": exact.tolist()}, observed={"step_written_by_par2fun": code.tolist(), "empty_steps": empty})
        elif shift_only and not uncovered and not double:
            ctx.mismatch("stepexp/empty_step_boundary_shift/%s" % key, case,
                         "a step receives no grid node: a node that coincides with a step boundary is moved to the next "
                         "step by floating-point comparison (par2fun ignores the step's parameter, fun2par returns NaN)",
                         expected={"step_of_node": exact.tolist()}, observed={"step_of_node": code.tolist(), "empty_steps": empty})
        else:
            ctx.mismatch("stepexp/partition/%s" % key, case, "the steps do not partition the grid nodes",
                         expected={"step_of_node": exact.tolist()},
                         observed={"step_written_by_par2fun": code.tolist(), "empty_steps": empty, "uncovered_nodes": uncovered,
                                   "nodes_in_two_steps": double})
        return "broken", None
    if not all(member[code[j], j] for j in range(n)):
        ctx.mismatch("stepexp/partition_inconsistent/%s" % key, case, "par2fun and fun2par use different partitions",
                     code.tolist(), member.astype(int).tolist())
        return "broken", None
    if np.array_equal(code, exact):
        return "exact", code
    if shift_only:
        ctx.observations["step_boundary_node_in_next_step"] = ctx.observations.get("step_boundary_node_in_next_step", 0) + 1
        return "shifted", code
    ctx.mismatch("stepexp/membership/%s" % key, case, "a grid node strictly inside a step interval is assigned to another step",
                 exact.tolist(), code.tolist())
    return "broken", None


def step_projection(f, steps, s, proj):
    out = []
    for i in range(s):
        vals = [Fraction(int(f[j])) for j in range(len(f)) if steps[j] == i]
        out.append(sum(vals) / len(vals) if proj == "mean" else (min(vals) if proj == "min" else max(vals)))
    return np.array([float(x) for x in out])


# ---------------------------------------------------------------------------------------------------------------
# constructor options x facets: what was replayed (evidence: observation option_value_x_facet; guard: _vacuity_options)
def opt_labels(c, pr=None):
    """the constructor option values a configuration stands for, as 'Class.option=value'"""
    ms = c.get("maps") or []
    form = c.get("form") or ""
    if ms:
        if ms == ["wrap"]:
            return ["_WrappedGeometry(geometry)"]
        return ["MappedGeometry.map=%s" % "+".join(ms), "MappedGeometry.imap=%s" % ("None" if form == "noimap" else "given")]
    k, cls = c["kind"], c["cls"]
    if k == "step":
        return ["StepExpansion.fun2par_projection=%s" % (pr or c["proj"] or "mean")]
    if k == "kl":
        n = c["n2"] if c["n2"] > 0 else c["n"]
        return ["KLExpansion.decay_rate=%s" % ("omitted(2.5)" if c["d2"] == 5 else "%g" % (c["d2"] / 2)),
                "KLExpansion.normalizer=%d" % c["tau"],
                "KLExpansion.num_modes=%s" % ("None" if c["m"] == 0 else "<grid" if c["m"] < n else "=grid" if c["m"] == n else ">grid"),
                "KLExpansion.grid=%s" % (form or "array")]
    if k == "ident":
        if cls == "Discrete":
            return ["Discrete.variables=%s" % (form or "int")]
        return ["%s.grid=%s" % ("Continuous1D" if cls == "Continuous1D" else "_DefaultGeometry1D", form or "int")]
    if cls == "Continuous2D":
        return ["Continuous2D.grid=%s" % (form or "ints")]
    if cls in ("Default2D", "DefaultVisual"):
        return ["_DefaultGeometry2D.visual_only=%s" % ("True" if cls == "DefaultVisual" else "omitted(False)")]
    return ["Image2D.order=%s" % ("omitted(C)" if form == "noorder" else cls[-1]),
            "Image2D.visual_only=%s" % ("True" if cls.startswith("Visual") else "omitted(False)")]


class _Cov:
    def __init__(self, ctx, c):
        self.table = ctx.observations.setdefault("option_value_x_facet", {})
        self.c = c
        self._labels = {}

    def __call__(self, facet, pr=None):
        if pr not in self._labels:
            self._labels[pr] = opt_labels(self.c, pr)
        for lab in self._labels[pr]:
            row = self.table.setdefault(lab, {})
            row[facet] = row.get(facet, 0) + 1


# facets every option value must have been replayed with (those of fun2par only where the geometry has an inverse and
# the batch behaviour of its fun2par is asserted)
FACETS_FORWARD = ["shapes", "par2fun/single"] + ["par2fun/batch/W=%d" % w for w in (1, 2, 3)] + ["samples/par-origin/Ns=%d" % w for w in (1, 2, 3)]
FACETS_INVERSE = ["round_trip/single", "fun2par/single", "fun2par/single-columns-of-the-batch"] + ["samples/fun-origin/Ns=%d" % w for w in (1, 2, 3)]
FACETS_BATCH_INV = ["round_trip/batch/W=%d" % w for w in (1, 2, 3)] + ["fun2par/batch/W=%d" % w for w in (1, 2, 3)]
REQUIRED_OPTIONS = (
    [("StepExpansion.fun2par_projection=%s" % o, "all") for o in ("mean", "max", "min", "MEAN", "Max", "MiN")]
    + [("KLExpansion.decay_rate=%s" % o, "all") for o in ("1", "2", "omitted(2.5)", "3")]
    + [("KLExpansion.normalizer=%d" % o, "all") for o in (1, 3, 12)]
    + [("KLExpansion.num_modes=%s" % o, "all") for o in ("None", "<grid", "=grid", ">grid")]
    + [("KLExpansion.grid=%s" % o, "all") for o in ("array", "list")]
    + [("%s.grid=%s" % (g, o), "all") for g in ("Continuous1D", "_DefaultGeometry1D") for o in ("int", "tuple", "list", "array")]
    + [("Continuous2D.grid=%s" % o, "all") for o in ("ints", "array", "mixed")]
    + [("Discrete.variables=%s" % o, "inverse") for o in ("int", "names")]
    + [("Image2D.order=%s" % o, "inverse") for o in ("C", "F", "omitted(C)")]
    + [("Image2D.visual_only=%s" % o, "inverse") for o in ("True", "omitted(False)")]
    + [("_DefaultGeometry2D.visual_only=%s" % o, "inverse") for o in ("True", "omitted(False)")]
    + [("MappedGeometry.map=%s" % o, "inverse") for o in ("affine", "cube", "exp", "affine+cube", "cube+affine")]
    + [("MappedGeometry.imap=given", "inverse"), ("MappedGeometry.imap=None", "forward"), ("_WrappedGeometry(geometry)", "inverse")])


def _vacuity_options(ctx):
    """every documented constructor option value was replayed with every facet (the table is part of the evidence)"""
    from cuqiverif.core import MachineryError
    table = ctx.observations.get("option_value_x_facet", {})
    miss = []
    for lab, level in REQUIRED_OPTIONS:
        need = list(FACETS_FORWARD)
        if level in ("inverse", "all"):
            need += FACETS_INVERSE
        if level == "all":
            need += FACETS_BATCH_INV
        miss += [(lab, f) for f in need if not table.get(lab, {}).get(f)]
    if miss:
        raise MachineryError("vacuous: constructor option value x facet not replayed: %r" % (miss[:6],))


def _extrema_spread(case, W=3):
    """do the extrema of the steps of this step configuration lie in different columns of the stacked functions `fb`?"""
    st = np.array(case["stepof"], dtype=int)
    FBm = np.stack([dec(case["fb"][w], 1) for w in range(W)], axis=-1)
    out = []
    for red in (np.max, np.min):
        cols = []
        for i in sorted(set(st.tolist())):
            blk = FBm[st == i]
            cols.append(frozenset(np.nonzero((blk == red(blk)).any(axis=0))[0].tolist()))
        out.append(any(not (a & b) for a in cols for b in cols))
    return all(out)


# ---------------------------------------------------------------------------------------------------------------
def check_maps(ctx, case):
    c = case["c"]
    key = ckey(c)
    cov = _Cov(ctx, c)
    # the projection the geometry is constructed with: the option of the configuration (any letter case), else 'mean'
    cproj = c["proj"] or "mean"
    try:
        G = make_geometry(c, cproj if c["kind"] == "step" else None)
    except Exception as ex:     # noqa: BLE001
        from cuqiverif.core import MachineryError
        if isinstance(ex, MachineryError):
            raise
        ctx.mismatch("construct/" + key, case, "an admissible configuration cannot be constructed: %r" % (ex,))
        return
    m = Model(case)
    tol = m.tol()
    d = m.par_dim
    # --- shapes reported by the geometry
    ctx.case(("shapes", key), facet="shapes")
    cov("shapes")
    rep = {"par_shape": tuple(G.par_shape), "fun_shape": tuple(G.fun_shape), "par_dim": G.par_dim, "fun_dim": G.fun_dim}
    exp = {"par_shape": (d,), "fun_shape": m.fun_shape, "par_dim": d, "fun_dim": int(np.prod(m.fun_shape))}
    if m.has_vec:
        try:
            rep["funvec_shape"] = tuple(_call(lambda: G.funvec_shape))
            rep["funvec_dim"] = _call(lambda: G.funvec_dim)
        except Exception as ex:     # noqa: BLE001
            rep["funvec_shape"] = repr(ex)
        exp["funvec_shape"] = tuple(case["funvec_shape"])
        exp["funvec_dim"] = case["funvec_shape"][0]
    else:
        try:
            ctx.observe("funvec_shape_without_vector_form/" + c["cls"], repr(_call(lambda: G.funvec_shape)))
        except Exception as ex:     # noqa: BLE001
            ctx.observe("funvec_shape_without_vector_form/" + c["cls"], type(ex).__name__)
    if rep != exp:
        rest = {k: v for k, v in rep.items() if not k.startswith("funvec")} == {k: v for k, v in exp.items() if not k.startswith("funvec")}
        if rest and isinstance(rep.get("funvec_shape"), str) and (1 in m.fun_shape or d == 1):
            # funvec_shape is inferred from fun2vec(par2fun(ones)), whose unit dimension was squeezed away
            ctx.mismatch("shape_unitdim/%s/reported_funvec_shape" % key, case, "funvec_shape cannot be inferred: the single-input "
                         "map output lost a dimension of size 1", exp, rep)
        else:
            ctx.mismatch("reported_shape/" + key, case, "shapes / dimensions reported by the geometry differ from the specification", exp, rep)
    if d == 0:
        return
    # --- StepExpansion partition (decides which oracle the projections use)
    steps_status = None
    if c["kind"] == "step" and not m.maps:
        steps_status, code_steps = check_step_partition(ctx, case, G)
        if steps_status == "broken":
            return
        if steps_status == "shifted":
            m.stepof = code_steps
    elif c["kind"] == "step":
        # the partition itself is judged on the unmapped configuration; here only: which neighbouring step did the float
        # comparison give to a node that coincides with an interior step boundary
        steps_status = "exact"
        try:
            Gi = make_geometry(inner_cfg(c), "mean")
            code = np.asarray(_call(Gi.par2fun, np.arange(1, c["s"] + 1, dtype=float)), dtype=float).reshape(c["n"]).astype(int) - 1
            boundary = np.array(case["boundary"], dtype=bool)
            if not np.array_equal(code, m.stepof) and all(code[j] == m.stepof[j] or (boundary[j] and code[j] == m.stepof[j] + 1)
                                                         for j in range(c["n"])) and set(code.tolist()) == set(range(c["s"])):
                steps_status, m.stepof = "shifted", code
        except Exception:       # noqa: BLE001  (reported by the unmapped configuration)
            pass
    # --- mapped geometry: the specification's exact values of par2fun (affine / cube maps) against the harness-side maps
    exact_p2f = {}
    if m.maps and not case["tagged"] and steps_status in (None, "exact"):
        nd = 2 if m.two else 1
        for q in range(d + 1):
            p = np.eye(d)[q] if q < d else np.arange(1, d + 1, dtype=float)
            ex = dec(case["p2f"][q], nd)
            if not close(m.p2f(p), ex, TOL):
                from cuqiverif.core import MachineryError
                raise MachineryError("harness-side maps %r disagree with the specification's exact values for %s" % (m.maps, key))
            exact_p2f["e%d" % q if q < d else "ramp"] = ex
    # --- par2fun on basis vectors and ramps; round trip; vector form
    inputs = [("e%d" % q, np.eye(d)[q]) for q in range(d)] + [("ramp", np.arange(1, d + 1, dtype=float)),
                                                              ("ramp2", (np.arange(1, d + 1, dtype=float) + 2) ** 2 % 11 - 4)]
    for name, p in inputs:
        ctx.case(("p2f", key, name), facet="par2fun")
        cov("par2fun/single")
        sig = "%s/par2fun/in=%s" % (key, name)
        try:
            f = _call(G.par2fun, p.copy())
        except Exception as ex:     # noqa: BLE001
            ctx.mismatch("raises/" + sig, case, "par2fun raised: %r" % (ex,))
            continue
        ef = exact_p2f.get(name, m.p2f(p))
        if not compare(ctx, sig, case, "par2fun(p) is not the function the specification's index map gives" if not m.maps else
                       "par2fun(p) of the mapped geometry is not map(inner.par2fun(p))", ef, f, tol):
            continue
        f = np.asarray(f, dtype=float)
        sig = "%s/fun2par_par2fun/in=%s" % (key, name)
        if m.has_inv:
            cov("round_trip/single")
            try:
                back = _call(G.fun2par, f.copy())
                compare(ctx, sig, case, "fun2par(par2fun(p)) is not p", p, back,
                        m.rt_tol(max(tol, 1e-11) if c["kind"] == "kl" else tol, m.p2f_inner(p)))
            except Exception as ex:     # noqa: BLE001
                ctx.mismatch("raises/" + sig, case, "fun2par raised: %r" % (ex,))
        elif name == "ramp":
            # MappedGeometry without imap: fun2par is not available; what it does instead is recorded
            try:
                ctx.observe("fun2par_without_imap/" + c["kind"], "returns " + type(_call(G.fun2par, f.copy())).__name__)
            except Exception as ex:     # noqa: BLE001
                ctx.observe("fun2par_without_imap/" + c["kind"], "raises " + type(ex).__name__)
        if m.has_vec:
            sig = "%s/fun2vec/in=%s" % (key, name)
            try:
                v = _call(G.fun2vec, f.copy())
                if compare(ctx, sig, case, "fun2vec(f) is not the vector form of the specification", m.f2v(ef), v, tol):
                    f2 = _call(G.vec2fun, np.asarray(v, dtype=float).copy())
                    compare(ctx, "%s/vec2fun_fun2vec/in=%s" % (key, name), case, "vec2fun(fun2vec(f)) is not f", ef, f2, tol)
            except Exception as ex:     # noqa: BLE001
                ctx.mismatch("raises/" + sig, case, "fun2vec / vec2fun raised: %r" % (ex,))
    # --- fun2par of functions outside the range of par2fun: the documented projection; idempotence.  A step
    #     configuration without a projection option is checked with all three projections, else with its option.
    nd = 2 if m.two else 1
    projs = ([c["proj"]] if c["proj"] else ["mean", "min", "max"]) if c["kind"] == "step" else [None]
    allproj = c["kind"] == "step" and not c["proj"]
    geoms = {pr: (make_geometry(c, pr) if pr and pr != cproj else G) for pr in projs}
    # the matrix of stacked functions: columns (mapped: pre-images) and the specification's fun2par of each column
    fb_pre = [dec(case["fb"][w], nd) for w in range(len(WIDTHS))]
    fb_cols = [apply_maps(m.maps, m.node(g)) for g in fb_pre]
    fb_tol = max(m.rt_tol(max(tol, 1e-11) if c["kind"] == "kl" else tol, m.node(g)) for g in fb_pre)

    def fb_expected(pr):
        if steps_status == "shifted":       # boundary node in the neighbouring step: consistency with the code's own partition
            return [step_projection(g, m.stepof, c["s"], pr.lower()) for g in fb_pre]
        return [dec(q, 1) for q in case["fb2p_" + pr if allproj else "fb2p"]]

    for pr in (projs if m.has_inv else []):
        Gp = geoms[pr]
        g0 = dec(case["g0"], nd)               # a lattice function (KL: in mode coordinates); mapped: the pre-image of f0
        f0 = apply_maps(m.maps, m.node(g0))
        if m.maps and not case["tagged"] and not close(f0, dec(case["f0"], nd), TOL):
            from cuqiverif.core import MachineryError
            raise MachineryError("harness-side maps %r disagree with the specification's exact f0 for %s" % (m.maps, key))
        if c["kind"] == "step":
            if steps_status == "exact":
                ep = dec(case["f2p_" + pr if allproj else "f2p"], 1)
            else:                              # boundary node in the neighbouring step: consistency with the code's own partition
                ep = step_projection(g0, m.stepof, c["s"], pr.lower())
        else:
            ep = dec(case["f2p"], 1)
        ctx.case(("f2p", key, pr), facet="fun2par")
        cov("fun2par/single", pr)
        sig = "%s/fun2par/proj=%s" % (key, pr)
        try:
            p1 = _call(Gp.fun2par, f0.copy())
        except Exception as ex:     # noqa: BLE001
            ctx.mismatch("raises/" + sig, case, "fun2par raised: %r" % (ex,))
            continue
        if not compare(ctx, sig, case, "fun2par(f) is not the documented inverse / projection" if not m.maps else
                       "fun2par(f) of the mapped geometry is not inner.fun2par(imap(f))", ep, p1, m.rt_tol(tol, m.node(g0))):
            continue
        try:
            g1 = np.asarray(_call(Gp.par2fun, np.asarray(p1, dtype=float).reshape(d)), dtype=float)
            p2 = _call(Gp.fun2par, g1.copy())
            g2 = _call(Gp.par2fun, np.asarray(p2, dtype=float).reshape(d))
            compare(ctx, "%s/idempotent/proj=%s" % (key, pr), case, "mapping back and forth once more changes the function",
                    g1, g2, max(tol, 1e-11) if not m.maps else max(1e-9, m.rt_tol(tol, m.node(g0))))
        except Exception as ex:     # noqa: BLE001
            ctx.mismatch("raises/%s/idempotent/proj=%s" % (key, pr), case, "second round trip raised: %r" % (ex,))
        # every column of the matrix of stacked functions on its own (single-vector fun2par)
        exp_cols = fb_expected(pr)
        for w, (f, e) in enumerate(zip(fb_cols, exp_cols)):
            ctx.case(("f2p_col", key, pr, w), facet="fun2par")
            cov("fun2par/single-columns-of-the-batch", pr)
            sig = "%s/fun2par/in=fb%d/proj=%s" % (key, w, pr)
            try:
                compare(ctx, sig, case, "fun2par(f) is not the documented inverse / projection (column %d of the stacked functions)" % w,
                        e, _call(Gp.fun2par, f.copy()), fb_tol)
            except Exception as ex:     # noqa: BLE001
                ctx.mismatch("raises/" + sig, case, "fun2par raised: %r" % (ex,))
    # --- batches of 1, 2 and 3 columns: column-wise action.  The specification supplies par2fun of every column (bcols),
    #     the stacked functions (fb) with fun2par of each column (fb2p) and the shapes (bshape); a result for ONE column
    #     may come with or without its batch axis (observation).  fun2par on batches: for every projection option.
    okind = ("mapped/" if m.maps else "") + c["kind"] + "/" + c["cls"]
    spec_cols = conv_value(m, case["bcols"], False, False, not m.two)
    batches = {}
    asserted = not m.maps and (c["kind"] in ("kl", "step") or (c["kind"] == "ident" and c["cls"] != "Discrete") or
                               (c["kind"] == "image" and c["cls"] == "Continuous2D"))
    for W in WIDTHS:
        bs = case["bshape"][W - 1]
        P = np.array([[i + 1 + 10 * w for w in range(W)] for i in range(d)], dtype=float)
        EF = np.stack([m.p2f(P[:, w]) for w in range(W)], axis=-1)
        if steps_status in (None, "exact"):
            if not close(spec_cols[..., :W], EF, max(tol, TOL)) or tuple(bs["fun"]) != EF.shape or tuple(bs["par"]) != P.shape:
                from cuqiverif.core import MachineryError
                raise MachineryError("the specification's batch columns / shapes disagree with its own index maps for %s" % key)
            EF = spec_cols[..., :W].copy()
        batches[W] = (P, EF)
        ctx.case(("batch_p2f", key, W), facet="batch")
        cov("par2fun/batch/W=%d" % W)
        sig = "%s/par2fun_batch/W=%d" % (key, W)
        try:
            FB = _call(G.par2fun, P.copy())
            FB = _batch_axis(ctx, "par2fun", okind, W, EF, FB, bs["map_fun"])
            ok = compare(ctx, sig, case, "par2fun of a matrix of columns is not column-wise par2fun", EF, FB, tol)
        except Exception as ex:     # noqa: BLE001
            ctx.mismatch("raises/" + sig, case, "par2fun raised on a (par_dim, %d) matrix: %r" % (W, ex))
            ok = False
        FBW = np.stack(fb_cols[:W], axis=-1)            # W stacked functions outside the range of par2fun
        for pr in (projs if m.has_inv else []):
            Gp = geoms[pr]
            psfx = "/proj=%s" % pr if pr else ""
            EPW = np.stack(fb_expected(pr)[:W], axis=-1)
            for name, cname, arg, want, what, t in (
                    ("fun2par_batch", "round_trip/batch", EF, P, "fun2par of stacked functions par2fun(P) is not the matrix P (column-wise fun2par)", max(tol, 1e-11)),
                    ("fun2par_fbatch", "fun2par/batch", FBW, EPW, "fun2par of a matrix of stacked functions is not fun2par of each column "
                     "(the documented inverse / projection, column by column)", fb_tol)):
                sig = "%s/%s/W=%d%s" % (key, name, W, psfx)
                try:
                    PB = _call(Gp.fun2par, arg.copy())
                    if asserted:
                        ctx.case((name, key, W, pr), facet="batch")
                        cov("%s/W=%d" % (cname, W), pr)
                        PB = _batch_axis(ctx, "fun2par", okind, W, want, PB, bs["map_par"])
                        compare(ctx, sig, case, what, want, PB, t)
                    else:
                        cov("%s(observed)/W=%d" % (cname, W), pr)
                        PB = _batch_axis(ctx, None, okind, W, want, PB, None)
                        same = np.shape(PB) == want.shape and close(PB, want, 1e-10)
                        _obs_batch(ctx, name + "_columnwise", okind, W, bool(same))
                except Exception as ex:     # noqa: BLE001
                    if asserted:
                        ctx.mismatch("raises/" + sig, case, "fun2par raised on stacked functions: %r" % (ex,))
                    else:
                        _obs_batch(ctx, name + "_columnwise", okind, W, type(ex).__name__)
        # the vector-form maps are documented for one function only: their action on stacks is recorded
        if m.has_vec:
            EV = np.stack([m.f2v(EF[..., w]) for w in range(W)], axis=-1)
            for name, fn, arg, want in (("vec2fun", G.vec2fun, EV, EF), ("fun2vec", G.fun2vec, EF, EV)):
                try:
                    R = _batch_axis(ctx, None, okind, W, want, _call(fn, arg.copy()), None)
                    same = np.shape(R) == want.shape and close(R, want, 1e-10)
                    _obs_batch(ctx, name + "_batch_columnwise", okind, W, bool(same))
                except Exception as ex:     # noqa: BLE001
                    _obs_batch(ctx, name + "_batch_columnwise", okind, W, type(ex).__name__)
    funsets = None
    if m.has_inv:
        funsets = {W: (np.stack(fb_cols[:W], axis=-1), np.stack(fb_expected(cproj if c["kind"] == "step" else None)[:W], axis=-1), fb_tol)
                   for W in WIDTHS}
    check_sample_sets(ctx, case, G, m, tol, batches, funsets, cov)
    if m.maps:
        check_mapped_objects(ctx, case, G, m, tol)


def check_sample_sets(ctx, case, G, m, tol, batches, funsets=None, cov=None):
    """Sample sets of Ns = 1, 2 and 3 parameter samples on EVERY configuration, through all three forms: the function
    values of a set of Ns samples are the per-sample par2fun stacked along the last axis, with Ns samples (also for
    Ns = 1); vector form and parameters likewise; round trips are lossless.  Shapes, Ns and the vector flag are those the
    specification emitted for the width (bshape), the content its columns (bcols).
    funsets[W] = (stacked functions outside the range of par2fun, the specification's fun2par of each, tolerance): a set
    of Ns FUNCTION samples; .parameters is the documented inverse / projection of every sample, .parameters.funvals its
    par2fun."""
    from cuqi.samples import Samples
    c = case["c"]
    key = ckey(c)
    for W in WIDTHS:
        bs = case["bshape"][W - 1]
        P, EF = batches[W]
        rt = max(m.rt_tol(max(tol, 1e-11), m.p2f_inner(P[:, w])) for w in range(W))
        S0 = Samples(P.copy(), geometry=G)
        objs = {"": S0}
        steps = [("funvals", "", "funvals", EF, bs["fun"], (False, bs["fun_is_vec"]), tol)]
        if m.has_inv:
            steps += [("funvals-parameters", "funvals", "parameters", P, bs["par"], (True, True), rt)]
        if m.has_vec:
            EV = np.stack([m.f2v(EF[..., w]) for w in range(W)], axis=-1)
            steps += [("funvals-vector", "funvals", "vector", EV, bs["vec"], (False, True), tol),
                      ("funvals-vector-funvals", "funvals-vector", "funvals", EF, bs["fun"], (False, bs["fun_is_vec"]), tol)]
            if m.has_inv:
                steps += [("funvals-vector-parameters", "funvals-vector", "parameters", P, bs["par"], (True, True), rt)]
        if cov:
            cov("samples/par-origin/Ns=%d" % W)
        if funsets:
            FW, EPW, ft = funsets[W]
            EFP = np.stack([m.p2f(EPW[:, w]) for w in range(W)], axis=-1)
            objs["fun"] = Samples(FW.copy(), geometry=G, is_par=False, is_vec=bs["fun_is_vec"])
            steps += [("fun/parameters", "fun", "parameters", EPW, bs["par"], (True, True), ft),
                      ("fun/parameters-funvals", "fun/parameters", "funvals", EFP, bs["fun"], (False, bs["fun_is_vec"]), max(tol, ft))]
            if cov:
                cov("samples/fun-origin/Ns=%d" % W)
        for name, src, op, exp, shape, flags, t in steps:
            if src not in objs:
                continue                     # the conversion this one starts from already disagreed
            ctx.case(("sample_set", key, W, name), facet="sample_sets")
            sig = "%s/samples/Ns=%d/%s" % (key, W, name)
            try:
                obj = _call(lambda: getattr(objs[src], op))
                got = obj.samples
                ns, got_shape = obj.Ns, tuple(np.shape(got))
                got_flags = (bool(obj.is_par), bool(obj.is_vec))
            except Exception as ex:     # noqa: BLE001
                ctx.mismatch("raises/" + sig, case, "conversion of a set of %d sample(s) raised: %r" % (W, ex))
                continue
            if got_shape != tuple(shape) or ns != bs["ns"]:
                ctx.mismatch("samples_shape/" + sig, case, "a set of Ns = %d sample(s) converted by .%s does not hold Ns values of the "
                             "per-sample shape stacked along the last axis" % (W, name.replace("-", ".")),
                             {"shape": list(shape), "Ns": bs["ns"]}, {"shape": list(got_shape), "Ns": ns})
                continue
            if got_flags != flags:
                ctx.mismatch("samples_flags/" + sig, case, "representation flags (is_par, is_vec) of the converted sample set",
                             list(flags), list(got_flags))
                continue
            if compare(ctx, sig, case, "converted sample set is not the per-sample map of the specification stacked along the last axis",
                       exp, got, t):
                objs[name] = obj
        if not np.array_equal(np.asarray(S0.samples, dtype=float), P):
            ctx.mismatch("conv_source/%s/samples/Ns=%d" % (key, W), case, "conversions altered the sample set they were called on", P, S0.samples)
        if funsets and not np.array_equal(np.asarray(objs["fun"].samples, dtype=float), funsets[W][0]):
            ctx.mismatch("conv_source/%s/samples/Ns=%d/fun" % (key, W), case, "conversions altered the sample set they were called on",
                         funsets[W][0], objs["fun"].samples)


def check_mapped_objects(ctx, case, G, m, tol):
    """Round trips of a mapped geometry through the geometry-carrying objects (consequences of Lossless, per-sample maps):
    CUQIarray.funvals.parameters, Samples.funvals.parameters, Samples.funvals.vector.funvals, Samples.funvals.vector.parameters"""
    from cuqi.samples import Samples
    from cuqi.array import CUQIarray
    c = case["c"]
    key = ckey(c)
    d = m.par_dim
    P3 = np.array([[(i + 1) * (1 if w == 0 else -1) + 3 * w for w in range(3)] for i in range(d)], dtype=float)
    ctx.case(("mapped_objects", key), facet="mapped_objects")
    # three samples, and ONE sample (the column with negative entries) as a sample set of its own
    for P, tag in ((P3, ""), (P3[:, 1:2], "/Ns=1")):
        EF = np.stack([m.p2f(P[:, w]) for w in range(P.shape[1])], axis=-1)
        rt = max(m.rt_tol(max(tol, 1e-11), m.p2f_inner(P[:, w])) for w in range(P.shape[1]))
        k1 = P.shape[1] - 2                 # the column the CUQIarray facets use (1 of three)
        steps = [("samples/funvals", lambda P=P: Samples(P.copy(), geometry=G).funvals.samples, EF, tol),
                 ("samples/funvals-parameters", lambda P=P: Samples(P.copy(), geometry=G).funvals.parameters.samples, P, rt)]
        if not m.has_inv:       # MappedGeometry without imap: the forward conversions only
            steps, tag = steps[:1], tag or "/Ns=3"
        if not tag:
            steps = [("array/funvals", lambda: np.asarray(CUQIarray(P[:, k1].copy(), geometry=G).funvals), EF[..., k1], tol),
                     ("array/funvals-parameters", lambda: np.asarray(CUQIarray(P[:, k1].copy(), geometry=G).funvals.parameters), P[:, k1], rt),
                     ("array/fun/parameters", lambda: np.asarray(CUQIarray(EF[..., k1].copy(), is_par=False, geometry=G).parameters), P[:, k1], rt)] + steps
        if m.has_vec:
            EV = np.stack([m.f2v(EF[..., w]) for w in range(P.shape[1])], axis=-1)
            steps += [("samples/funvals-vector", lambda P=P: Samples(P.copy(), geometry=G).funvals.vector.samples, EV, tol),
                      ("samples/funvals-vector-funvals", lambda P=P: Samples(P.copy(), geometry=G).funvals.vector.funvals.samples, EF, tol)]
            if m.has_inv:
                steps += [("samples/funvals-vector-parameters", lambda P=P: Samples(P.copy(), geometry=G).funvals.vector.parameters.samples, P, rt)]
        for name, fn, exp, t in steps:
            sig = "%s/%s%s" % (key, name, tag)
            try:
                got = _call(fn)
            except Exception as ex:     # noqa: BLE001
                ctx.mismatch("raises/" + sig, case, "conversion on a mapped geometry raised: %r" % (ex,))
                continue
            compare(ctx, sig, case, "conversion of a geometry-carrying object on a mapped geometry is not the per-sample "
                    "map of the specification (par2fun = map . inner.par2fun, fun2par = inner.fun2par . imap)", exp, got, t)


# ---------------------------------------------------------------------------------------------------------------
# conversion automaton
def conv_value(m, case_val, par, vec, fun1d):
    """emitted content (list over columns) -> array with the columns on the last axis, in real coordinates"""
    c = m.c
    cols = []
    for v in case_val:
        nd = 1 if (par or vec or fun1d) else 2
        tagged = isinstance(v, dict)            # "the maps applied entry-wise to the node values of arg" (function values only)
        a = dec(v["arg"] if tagged else v, nd)
        if c["kind"] == "kl" and not par:
            a = m.B @ a
        if tagged:
            a = apply_maps(v["maps"], a)
        cols.append(a)
    return np.stack(cols, axis=-1)


def replay_conv_group(ctx, mcase, group):
    """group: all emitted behaviours of one (configuration, rep, origin, number of samples); replayed along the trie of
    trails.  A sample set holds Ns = 1, 2 or 3 samples; after every action the shape of the array and Ns are those of the
    specification (per-sample shape, then Ns - also for one sample)."""
    from cuqi.samples import Samples
    from cuqi.array import CUQIarray
    c = group[0]["c"]
    key = ckey(c)
    rep, origin, ns = group[0]["rep"], group[0]["origin"], group[0]["ns"]
    rkey = "%s/Ns=%d" % (rep, ns) if rep == "samples" else rep
    m = Model(dict(mcase, c=c))
    fun1d = not m.two
    by_trail = {tuple(g["trail"]): g for g in group}
    root = by_trail[()]
    G = make_geometry(c)
    _Cov(ctx, c)("conversion_behaviours/%s/origin=%s" % (rkey, origin))
    tol = max(m.tol(), 1e-11) if c["kind"] == "kl" else TOL
    init = conv_value(m, root["val"], root["par"], root["vec"], fun1d)
    if rep == "samples":
        obj0 = Samples(init.copy(), geometry=G, is_par=root["par"], is_vec=root["vec"])
    else:
        obj0 = CUQIarray(init[..., 0].copy(), is_par=root["par"], geometry=G)

    def check(obj, g):
        trail = "-".join(g["trail"]) or "init"
        sig = "%s/%s/origin=%s/trail=%s" % (key, rkey, origin, trail)
        case = {"kind": "conv", "c": c, "rep": rep, "origin": origin, "ns": ns, "trail": g["trail"]}
        ctx.case(("conv", key, rkey, origin, trail), facet="conv_" + rep)
        ok = True
        if bool(obj.is_par) != g["par"] or (rep == "samples" and bool(obj.is_vec) != g["vec"]):
            ctx.mismatch("conv_flags/" + sig, case, "representation flags after the conversions differ from the automaton",
                         [g["par"], g["vec"]], [obj.is_par, getattr(obj, "is_vec", None)])
            ok = False
        if not (obj.geometry is G or obj.geometry == G):
            ctx.mismatch("conv_geometry/" + sig, case, "conversion changed the geometry", repr(G), repr(obj.geometry))
            ok = False
        exp = conv_value(m, g["val"], g["par"], g["vec"], fun1d)
        got = obj.samples if rep == "samples" else np.asarray(obj)
        if rep == "array":
            exp = exp[..., 0]
        if exp.shape != tuple(g["shape"]) or (rep == "samples" and exp.shape[-1] != g["ns"]):
            from cuqiverif.core import MachineryError
            raise MachineryError("conv case %s: emitted shape %r does not fit the emitted content" % (sig, g["shape"]))
        if rep == "samples" and (tuple(np.shape(got)) != tuple(g["shape"]) or obj.Ns != g["ns"]):
            ctx.mismatch("conv_shape/" + sig, case, "the array of the sample set is not the per-sample shape followed by the number "
                         "of samples / Ns differs", {"shape": list(g["shape"]), "Ns": g["ns"]},
                         {"shape": list(np.shape(got)), "Ns": obj.Ns})
            return False
        ok &= compare(ctx, "conv/" + sig, case, "content after the conversions is not the specification's (lossless, per-sample maps)",
                      exp, got, tol)
        return ok

    def walk(obj, trail):
        g = by_trail[trail]
        if not check(obj, g):
            return
        for op in ("funvals", "vector", "parameters"):
            t2 = trail + (op,)
            if t2 not in by_trail:
                continue
            try:
                nxt = _call(lambda: getattr(obj, op))
            except Exception as ex:     # noqa: BLE001
                sig = "%s/%s/origin=%s/trail=%s" % (key, rkey, origin, "-".join(t2))
                unit = (1 in m.fun_shape or m.par_dim == 1) and "broadcast" in str(ex)
                ctx.mismatch(("shape_unitdim/conv_raises/" if unit else "conv_raises/") + sig, {"kind": "conv", "c": c, "rep": rep, "origin": origin, "ns": ns, "trail": list(t2)},
                             "conversion raised: %r" % (ex,))
                continue
            walk(nxt, t2)

    before = init.copy()
    walk(obj0, ())
    now = obj0.samples if rep == "samples" else np.asarray(obj0)
    if not np.array_equal(np.asarray(now, dtype=float), before if rep == "samples" else before[..., 0]):
        ctx.mismatch("conv_source/%s/%s/origin=%s" % (key, rkey, origin), {"kind": "conv", "c": c, "rep": rep, "origin": origin, "ns": ns, "trail": []},
                     "conversions altered the object they were called on", before, now)
    return len(group)


# ---------------------------------------------------------------------------------------------------------------
# one object, a sequence of uses and public reassignments (mode "seq")
def _set_desc(prev, cur):
    parts = []
    for f in ("n", "r", "cc", "x0", "len"):
        if prev[f] != cur[f]:
            v = cur[f]
            parts.append("%s=%s" % (f, ("%d_%d" % tuple(v)) if isinstance(v, list) else v))
    return ".".join(parts) or "same"


def seq_trail_key(c0, trail):
    out, prev = [], c0
    for a in trail:
        if a["op"] == "use":
            out.append("use_" + a["what"])
        else:
            out.append("set_%s.%s" % (a["what"], _set_desc(prev, a["c"])))
            prev = a["c"]
    return "-".join(out)


def _seq_model(maps, cur):
    """the specification's values for the CURRENT configuration = the maps case of its inner geometry (+ the maps)"""
    from cuqiverif.core import MachineryError
    ik = ckey(dict(cur, maps=[], proj=""))
    if ik not in maps:
        raise MachineryError("seq behaviour passes through %s for which the spec emitted no maps case" % ik)
    return Model(dict(maps[ik], c=cur)), maps[ik]


def apply_set(G, cur):
    """the public setter of the (innermost) geometry; returns the name of the attribute"""
    from cuqiverif.core import MachineryError
    g = innermost(G)
    k = cur["kind"]
    attr = "variables" if cur["cls"] == "Discrete" else "grid"
    prop = getattr(type(g), attr, None)
    if not isinstance(prop, property) or prop.fset is None:
        raise AttributeError("%s.%s has no public setter" % (type(g).__name__, attr))
    with warnings.catch_warnings(), contextlib.redirect_stdout(io.StringIO()):
        warnings.simplefilter("ignore")
        if k == "ident":
            setattr(g, attr, cur["n"])
        elif k == "image" and cur["cls"] == "Continuous2D":
            g.grid = (cur["r"], cur["cc"])
        elif k == "kl":
            g.grid = np.linspace(0, 1, cur["n"])
        elif k == "step":
            g.grid = step_grid(cur)
        else:
            raise MachineryError("no public setter modelled for %r" % (cur,))
    return attr


class _SeqReplay:
    def __init__(self, ctx, maps, sc):
        self.ctx, self.maps = ctx, maps
        self.c0, self.trail = sc["c0"], sc["trail"]
        self.key0 = ckey(self.c0)
        self.tkey = seq_trail_key(self.c0, self.trail)
        self.case = {"kind": "seq", "c0": self.c0, "trail": self.trail}
        self.hist = [self.c0]                # configurations the object went through
        self.G = None
        self._stale = {}

    # ----- reporting -------------------------------------------------------------------------------------------
    def sig(self, at, what):
        return "seq/%s/trail=%s/at=%s/%s" % (self.key0, self.tkey, at, what)

    def stale_state(self, cur):
        """Diagnosis of a failing object (called only after a disagreement): is it answering from something remembered
        for an EARLIER configuration of this behaviour?  'step': the partition of the construction-time grid;
        'wrapper': a MappedGeometry's function shape / vector shape inferred before the inner geometry was changed."""
        k = len(self.hist)
        if k in self._stale:
            return self._stale[k]
        out = None
        G = self.G
        m, _ = _seq_model(self.maps, cur)
        try:
            if cur["kind"] == "step" and cur["n"] != self.c0["n"]:
                m0, _ = _seq_model(self.maps, self.c0)
                n0, n1, s = self.c0["n"], cur["n"], cur["s"]
                ramp = np.arange(1, s + 1, dtype=float)
                try:
                    got = np.asarray(_call(G.par2fun, ramp.copy()), dtype=float)
                    if n1 > n0:
                        stale = apply_maps(m.maps, np.concatenate([ramp[m0.stepof], np.zeros(n1 - n0)]))
                        if got.shape == stale.shape and close(got, stale, TOL) and not close(got, m.p2f(ramp), TOL):
                            out = "step"
                except IndexError:
                    if n1 < n0:
                        out = "step"
            if out is None and m.maps:
                past = [tuple(_seq_model(self.maps, h)[0].fun_shape) for h in self.hist[:-1]]
                fs = tuple(_call(lambda: G.fun_shape))
                if fs != tuple(m.fun_shape) and fs in past:
                    out = "wrapper"
        except Exception:       # noqa: BLE001
            out = None
        self._stale[k] = out
        return out

    def report(self, cls, at, what, text, expected=None, observed=None, cur=None):
        st = self.stale_state(cur) if cur is not None else None
        if st == "step":
            self.ctx.mismatch("seq_stale_step_partition/" + self.sig(at, what), self.case,
                              "after the grid of a StepExpansion was reassigned the maps still use the partition of the "
                              "construction-time grid (%s)" % text, expected, observed)
        elif st == "wrapper":
            self.ctx.mismatch("seq_stale_wrapper_shape/" + self.sig(at, what), self.case,
                              "a MappedGeometry keeps the function shape it inferred before the grid of the geometry it "
                              "wraps was reassigned (%s)" % text, expected, observed)
        else:
            self.ctx.mismatch(cls + "/" + self.sig(at, what), self.case, text, expected, observed)

    def cmp(self, at, what, text, expected, observed, tol, cur):
        expected = np.asarray(expected, dtype=float)
        try:
            obs = np.asarray(observed, dtype=float)
        except Exception:       # noqa: BLE001
            obs = None
        if obs is not None and obs.shape == expected.shape and close(obs, expected, tol):
            return True
        if obs is None or self.stale_state(cur):
            self.report("value", at, what, text, expected, repr(observed)[:200] if obs is None else obs, cur)
            return False
        return compare(self.ctx, self.sig(at, what), self.case, text, expected, obs, tol)

    # ----- the public calls --------------------------------------------------------------------------------------
    def use(self, at, what, cur):
        ctx, G = self.ctx, self.G
        m, mcase = _seq_model(self.maps, cur)
        d = m.par_dim
        tol = m.tol()
        ctx.case(("seq", self.key0, self.tkey, at, what), facet="seq_" + what)
        done = self.tkey.split("-")
        after = "after %s" % ("-".join(done if at == "end" else done[:at]) or "construction")
        ramp = np.arange(1, d + 1, dtype=float)
        rt = max(m.rt_tol(max(tol, 1e-11), m.p2f_inner(ramp)), m.rt_tol(max(tol, 1e-11), m.p2f_inner(3 - ramp)))
        if what == "shape":
            exp = {"par_shape": (d,), "fun_shape": tuple(m.fun_shape), "par_dim": d, "fun_dim": int(np.prod(m.fun_shape))}
            if m.has_vec:
                exp["funvec_shape"] = tuple(mcase["funvec_shape"])
                exp["funvec_dim"] = mcase["funvec_shape"][0]
            rep = {}
            for name in exp:
                try:
                    v = _call(lambda: getattr(G, name))
                    rep[name] = tuple(v) if isinstance(v, (tuple, list)) else v
                except Exception as ex:     # noqa: BLE001
                    rep[name] = "raised " + type(ex).__name__
            try:
                nv = len(_call(lambda: G.variables))
                o = ctx.observations.setdefault("seq_len_variables_equals_par_dim", {"true": 0, "false": 0})
                o["true" if nv == d else "false"] += 1
            except Exception:       # noqa: BLE001
                pass
            diff = sorted(k for k in exp if rep[k] != exp[k])
            if not diff:
                return
            text = "shapes / dimensions reported %s differ from those of a fresh geometry with the current settings" % after
            vec_only = set(diff) <= {"funvec_shape", "funvec_dim"}
            past_vec = [tuple(_seq_model(self.maps, h)[1]["funvec_shape"]) for h in self.hist[:-1]]
            if vec_only and not m.maps and rep.get("funvec_shape") in past_vec:
                ctx.mismatch("seq_stale_funvec_shape/" + self.sig(at, "reported_shape"), self.case,
                             "funvec_shape / funvec_dim keep the value inferred before the reassignment (%s)" % text, exp, rep)
            elif vec_only and m.maps and rep.get("funvec_shape") in past_vec:
                ctx.mismatch("seq_stale_wrapper_shape/" + self.sig(at, "reported_shape"), self.case,
                             "a MappedGeometry keeps the vector-form shape it inferred before the grid of the geometry it wraps "
                             "was reassigned (%s)" % text, exp, rep)
            else:
                self.report("reported_shape", at, "reported_shape", text, exp, rep, cur)
            return
        if what == "p2f":
            for name, p in (("e0", np.eye(d)[0]), ("ramp", ramp)):
                try:
                    f = _call(G.par2fun, p.copy())
                except Exception as ex:     # noqa: BLE001
                    self.report("raises", at, "par2fun/in=" + name, "par2fun raised %s: %r" % (after, ex), cur=cur)
                    return
                self.cmp(at, "par2fun/in=" + name, "par2fun(p) %s is not that of a fresh geometry with the current settings" % after,
                         m.p2f(p), f, tol, cur)
            return
        if what == "f2p":
            nd = 2 if m.two else 1
            pr = cur["proj"] or "mean"
            f0 = apply_maps(m.maps, m.node(dec(mcase["g0"], nd)))
            ep = dec(mcase["f2p_" + pr] if cur["kind"] == "step" else mcase["f2p"], 1)
            for name, f, e, t in (("fun2par_par2fun/in=ramp", m.p2f(ramp), ramp, rt), ("fun2par/proj=%s" % (pr if cur["kind"] == "step" else None), f0, ep, m.rt_tol(tol, m.node(dec(mcase["g0"], nd))))):
                try:
                    q = _call(G.fun2par, np.asarray(f, dtype=float).copy())
                except Exception as ex:     # noqa: BLE001
                    self.report("raises", at, name, "fun2par raised %s: %r" % (after, ex), cur=cur)
                    return
                self.cmp(at, name, "fun2par(f) %s is not that of a fresh geometry with the current settings" % after, e, q, t, cur)
            return
        if what == "conv":
            from cuqi.samples import Samples
            from cuqi.array import CUQIarray
            # a sample set of 1, 2 or 3 samples: the width follows the position in the behaviour (all three at the end)
            P3 = np.stack([ramp, 3 - ramp, 2 * ramp - 5], axis=-1)
            steps = []
            for W in (WIDTHS if at == "end" else (WIDTHS[at % 3],)):
                P = P3[:, :W]
                EF = np.stack([m.p2f(P[:, w]) for w in range(W)], axis=-1)
                rtw = max([rt] + [m.rt_tol(max(tol, 1e-11), m.p2f_inner(P[:, w])) for w in range(2, W)])
                nm = "samples/" if W == 2 else "samples/Ns=%d/" % W
                steps += [(nm + "funvals", lambda P=P: Samples(P.copy(), geometry=G).funvals.samples, EF, tol),
                          (nm + "funvals-parameters", lambda P=P: Samples(P.copy(), geometry=G).funvals.parameters.samples, P, rtw)]
            steps.append(("array/funvals-parameters", lambda: np.asarray(CUQIarray(P3[:, 1].copy(), geometry=G).funvals.parameters), P3[:, 1], rt))
            for name, fn, e, t in steps:
                try:
                    got = _call(fn)
                except Exception as ex:     # noqa: BLE001
                    self.report("raises", at, name, "conversion raised %s: %r" % (after, ex), cur=cur)
                    continue
                self.cmp(at, name, "conversion %s is not the per-sample map of a fresh geometry with the current settings" % after,
                         e, got, t, cur)
            return
        from cuqiverif.core import MachineryError
        raise MachineryError("unknown use %r emitted by the spec" % (what,))

    def run(self):
        ctx = self.ctx
        try:
            self.G = make_geometry(self.c0)
        except Exception as ex:     # noqa: BLE001
            from cuqiverif.core import MachineryError
            if isinstance(ex, MachineryError):
                raise
            ctx.mismatch("construct/" + self.key0, self.case, "an admissible configuration cannot be constructed: %r" % (ex,))
            return 0
        cur = self.c0
        nset = 0
        for i, a in enumerate(self.trail):
            if a["op"] == "set":
                try:
                    apply_set(self.G, a["c"])
                except Exception as ex:     # noqa: BLE001
                    from cuqiverif.core import MachineryError
                    if isinstance(ex, MachineryError):
                        raise
                    # a refused assignment is acceptable; the behaviour ends here
                    o = ctx.observations.setdefault("seq_set_refused", {})
                    o[a["c"]["kind"] + "/" + a["c"]["cls"]] = type(ex).__name__
                    return nset
                cur = a["c"]
                self.hist.append(cur)
                nset += 1
                ctx.case(("seq", self.key0, self.tkey, i, "set"), facet="seq_set")
            else:
                self.use(i, a["what"], cur)
        for w in ("shape", "p2f", "f2p", "conv"):           # finally every public call once more
            self.use("end", w, cur)
        return nset


# ---------------------------------------------------------------------------------------------------------------
def run_deviations(ctx):
    """Each named deviation must violate its invariant on the specification (design-level refutation + vacuity test of the
    invariant).  The TLC runs are independent: a few at a time."""
    from cuqiverif.core import MachineryError
    from cuqiverif import tlc as _t
    import concurrent.futures as cf

    import os, time

    def one(dv):
        dev, inv = dv
        # an explicit work directory per run: the default name (pid + milliseconds) is not unique across threads
        wd = os.path.join(_t.WORK, "Geometry-dev_%s-%d-%d" % (dev, os.getpid(), int(time.time() * 1000) % 10**7))
        return dev, inv, _t.run_tlc("Geometry", cfg="Geometry.dev_%s.cfg" % dev, workdir=wd, workers=4, timeout=600, expect_violation=True)

    with cf.ThreadPoolExecutor(max_workers=4) as ex:
        results = list(ex.map(one, DEVIATIONS))
    for dev, inv, res in results:
        ctx.states += res.distinct
        ctx.transitions += res.generated
        ctx.tlc_runs.append({"spec": "Geometry", "cfg": "Geometry.dev_%s.cfg" % dev, "distinct": res.distinct, "generated": res.generated,
                             "depth": res.depth, "wall_s": round(res.wall_s, 2), "cases": len(res.cases), "violated": res.violated,
                             "coverage": None})
        if res.ok or res.violated != inv:
            raise MachineryError("deviation %s must violate %s on the specification (vacuity test), got %r" % (dev, inv, res.violated))
        ctx.observations.setdefault("deviations_violating", {})[dev] = inv
        _t.cleanup(res)


def _maps_like(c):
    """key of the maps case that belongs to a conv configuration (conv step configurations carry a projection)"""
    return ckey(dict(c, proj=""))


_CASES = {}


def _cases(ctx, tier):
    """TLC run of one tier, cached within the process (a replay file holds several cases)."""
    from cuqiverif import tlc as _t
    from cuqiverif.core import MachineryError
    if tier not in _CASES:
        res = ctx.tlc("Geometry", cfg="Geometry.%s.cfg" % tier, workers=16, timeout=2400, heap="8g")
        ctx.model_must_hold(res, "Geometry")
        maps = {ckey(k["c"]): k for k in res.cases if k["kind"] == "maps"}
        convs = {}
        for k in res.cases:
            if k["kind"] == "conv":
                convs.setdefault((ckey(k["c"]), k["rep"], k["origin"], k["ns"]), []).append(k)
        seqs = {(ckey(k["c0"]), seq_trail_key(k["c0"], k["trail"])): k for k in res.cases if k["kind"] == "seq"}
        _t.cleanup(res)
        if not maps or not convs or not seqs:
            raise MachineryError("Geometry emitted no maps / conv / seq cases")
        _CASES[tier] = (maps, convs, seqs)
    return _CASES[tier]


def _vacuity(maps, seqs, convs):
    """what the strengthened facets need from the specification's enumeration"""
    from cuqiverif.core import MachineryError
    # batch widths: every maps case carries columns and shapes for 1, 2 and 3 columns; every image class has 1 x n and
    # n x 1 grids; sample sets of 1, 2 and 3 samples go through the conversion automaton for every kind / class
    if any(len(k.get("bcols", ())) != len(WIDTHS) or [b["ns"] for b in k.get("bshape", ())] != list(WIDTHS) for k in maps.values()):
        raise MachineryError("vacuous: a maps case without batch columns / shapes for the widths %r" % (WIDTHS,))
    thin = {(k["c"]["cls"], k["c"]["r"] == 1) for k in maps.values()
            if k["c"]["kind"] == "image" and not k["c"]["maps"] and min(k["c"]["r"], k["c"]["cc"]) == 1 < max(k["c"]["r"], k["c"]["cc"])}
    classes = ("Image2D_C", "Image2D_F", "Visual_C", "Visual_F", "Default2D", "Continuous2D")
    miss = [(cls, row) for cls in classes for row in (True, False) if (cls, row) not in thin]
    if miss:
        raise MachineryError("vacuous: no 1 x n / n x 1 image emitted for %r" % (miss,))
    sets = set()
    for (key, rep, origin, ns), grp in convs.items():
        if rep == "samples" and any(len(g["trail"]) >= 2 for g in grp):
            c = grp[0]["c"]
            sets.add((("mapped/" if c["maps"] else "") + c["kind"], c["cls"], ns, origin))
            if c["kind"] == "image" and not c["maps"] and min(c["r"], c["cc"]) == 1 < max(c["r"], c["cc"]):
                sets.add(("thin", c["cls"], ns, origin))
    need = [(kind, cls, ns, origin) for ns in WIDTHS for origin in ("par", "fun")
            for kind, cls in [("ident", "Continuous1D"), ("ident", "Default1D"), ("ident", "Discrete"), ("kl", "KLExpansion"),
                              ("step", "StepExpansion"), ("mapped/ident", "Continuous1D"), ("mapped/image", "Image2D_F"),
                              ("mapped/image", "Image2D_C"), ("mapped/image", "Continuous2D"), ("mapped/kl", "KLExpansion"),
                              ("mapped/step", "StepExpansion")] + [(k, cls) for cls in classes for k in ("image", "thin")]]
    miss = [x for x in need if x not in sets]
    if miss:
        raise MachineryError("vacuous: no sample-set conversion behaviour emitted for %r" % (miss[:5],))
    have = set()
    for k in maps.values():
        c = k["c"]
        if c["maps"]:
            sub = c["cls"] if c["kind"] in ("ident", "image") else ("all" if c["m"] == 0 else "truncated") if c["kind"] == "kl" else "step"
            have.add((c["kind"], sub, "+".join(c["maps"])))
    need = [(kind, sub, mp) for mp in ("affine", "cube", "exp", "affine+cube", "cube+affine")
            for kind, sub in (("ident", "Continuous1D"), ("ident", "Discrete"), ("image", "Image2D_C"), ("image", "Image2D_F"),
                              ("image", "Continuous2D"), ("kl", "all"), ("kl", "truncated"), ("step", "step"))]
    miss = [x for x in need if x not in have]
    if miss:
        raise MachineryError("vacuous: the spec emitted no mapped configuration for %r" % (miss[:5],))
    kinds = set()
    for k in seqs.values():
        ops = [a["op"] for a in k["trail"]]
        if "set" in ops and ops.index("set") > 0 and ops[-1] == "use":
            kinds.add((k["c0"]["kind"], bool(k["c0"]["maps"])))
    needs = [("ident", False), ("image", False), ("kl", False), ("step", False), ("ident", True), ("kl", True), ("step", True)]
    miss = [x for x in needs if x not in kinds]
    if miss:
        raise MachineryError("vacuous: no Use . Set . Use behaviour emitted for %r" % (miss,))
    # stacked functions: for every projection option of the step expansion there is a configuration in which the largest
    # and the smallest value of two steps lie in different columns of the matrix (pairwise different columns everywhere)
    spread = {}
    for k in maps.values():
        c = k["c"]
        if len({repr(col) for col in k.get("fb", ())}) != len(WIDTHS):
            raise MachineryError("vacuous: the stacked functions of %s are not pairwise different" % ckey(c))
        if c["kind"] == "step" and not c["maps"]:
            spread[c["proj"]] = spread.get(c["proj"], 0) + int(_extrema_spread(k))
    miss = [o for o, cnt in spread.items() if cnt == 0]
    if miss or "" not in spread or len(spread) < 4:
        raise MachineryError("vacuous: no step configuration whose extrema lie in different columns for projection option(s) %r" % (miss,))


def run(ctx, only=None, only_seq=None):
    from cuqiverif.core import MachineryError
    if only is None and only_seq is None:
        maps, convs, seqs = _cases(ctx, ctx.tier)
        _vacuity(maps, seqs, convs)
        run_deviations(ctx)
    else:
        maps, convs, seqs = _cases(ctx, "quick")
        if (only is not None and only not in maps) or (only_seq is not None and only_seq not in seqs):
            maps, convs, seqs = _cases(ctx, "thorough")
    kinds = {}
    for key in sorted(maps):
        if only_seq is not None or (only is not None and key != only):
            continue
        check_maps(ctx, maps[key])
        kk = ("mapped/" if maps[key]["c"]["maps"] else "") + maps[key]["c"]["kind"]
        kinds[kk] = kinds.get(kk, 0) + 1
    nbeh = 0
    for (key, rep, origin, ns) in sorted(convs):
        grp = convs[(key, rep, origin, ns)]
        mk = _maps_like(grp[0]["c"])
        if only_seq is not None or (only is not None and mk != only and key != only):
            continue
        if mk not in maps:
            raise MachineryError("no maps case for the conversion configuration %s" % key)
        nbeh += replay_conv_group(ctx, maps[mk], grp)
    nseq = nsets = 0
    for sk in sorted(seqs):
        if only is not None or (only_seq is not None and sk != only_seq):
            continue
        nsets += _SeqReplay(ctx, maps, seqs[sk]).run()
        nseq += 1
    if only is None and only_seq is None:
        ctx.observe("seq_behaviours", {"replayed": nseq, "reassignments_applied": nsets})
        _vacuity_options(ctx)
        # maps that change the SHAPE of the function values (specs/GeometryShapeMap.tla)
        from cuqiverif import c13_shapemap
        c13_shapemap.run_part(ctx)
    ctx.observe("configurations_by_kind", kinds)
    ks = sorted(maps)
    for pick in [k for k in ks if k.startswith("image/Image2D_F/r=2/c=3")][:1] + [k for k in ks if k.startswith("step/") and "n=6/s=5" in k][:1] \
            + [k for k in ks if k.startswith("mapped/inner=step/") and k.endswith("map=cube")][:1]:
        mc = maps[pick]
        ctx.sample({"maps": {k: mc[k] for k in ("c", "par_shape", "fun_shape", "funvec_shape", "index", "stepof", "boundary", "g0", "f0", "p2f",
                                                "f2p", "f2p_mean", "bshape")}})
    for pick in [k for k in ks if k.startswith("step/") and k.endswith("n=5/s=2/proj=MiN")][:1]:
        mc = maps[pick]
        ctx.sample({"maps (constructor option)": {k: mc[k] for k in ("c", "stepof", "fb", "fb2p", "f2p")}})
    if only is None and only_seq is None:
        try:        # documented twice: docstring 1.0, signature 12.0 - not asserted
            import cuqi
            ctx.observe("KLExpansion_default_normalizer", float(cuqi.geometry.KLExpansion(np.linspace(0, 1, 4)).normalizer))
        except Exception as ex:     # noqa: BLE001
            ctx.observe("KLExpansion_default_normalizer", repr(ex))
    for w in (2, 1):
        g = [x for x in convs.get(("image/Image2D_F/r=2/c=3", "samples", "par", w), []) if x["trail"] == ["funvals", "vector"][:w]]
        if g:
            ctx.sample({"conv": g[0]})
    sq = [seqs[k] for k in sorted(seqs) if k[0].startswith("kl/") and "set_grid" in k[1] and k[1].startswith("use_")][:1]
    if sq:
        ctx.sample({"seq": sq[0]})
    ctx.rule = ("one case per geometry configuration (maps; mapped geometries: every inner kind x map stack) x input (basis vectors, "
                "two ramps, a function outside the range, batches of width 1, 2 and 3, sample sets of 1, 2 and 3 samples through "
                "funvals / vector / parameters, CUQIarray / Samples round trips), one per conversion behaviour (configuration, "
                "Samples of 1, 2, 3 samples / CUQIarray, origin, trail) and one per action of every use / "
                "reassign behaviour on one object, all emitted by TLC from Geometry.tla")
    ctx.exhaustive = True
    ctx.traces = nbeh + nseq + (len(maps) if only is None and only_seq is None else 0)
    ctx.assumptions += ["sizes bounded by the cfg; step grids np.linspace(float(x0), float(x0 + L), n) with correctly rounded end points",
                        "KLExpansion compared with the sine basis of its docstring evaluated with numpy (1e-10)",
                        "a node on an interior step boundary may belong to either neighbouring step (observation) if the steps partition the grid",
                        "maps of mapped geometries are numpy float functions (2v+1, v**3 / cbrt, exp / log) applied to the specification's "
                        "pre-image; their exact rational values (affine, cube) are cross-checked against the specification",
                        "only attributes with a public setter are reassigned (grid, Discrete.variables); constructor-only attributes "
                        "(order, visual_only, num_modes, n_steps, decay_rate, normalizer, map, imap) are not",
                        "constructor options: letter case of fun2par_projection is ignored (tests/test_geometry.py uses 'MiN'); "
                        "KL decay rates are multiples of 1/2 (2.5 = the documented default, argument omitted), normalizers "
                        "integers; the default normalizer is not asserted (docstring 1.0, signature 12.0: observation)"]


def replay(ctx, case):
    if case.get("kind") == "model":
        return run(ctx)
    if case.get("kind") == "shapemap":
        from cuqiverif import c13_shapemap
        return c13_shapemap.run_part(ctx, only=c13_shapemap.skey(case["c"]))
    if case.get("kind") == "seq":
        return run(ctx, only_seq=(ckey(case["c0"]), seq_trail_key(case["c0"], case["trail"])))
    c = case["c"]
    return run(ctx, only=ckey(c) if case.get("kind") == "maps" else _maps_like(c))
