"""C05 - direct samples follow the distribution's own density and the given random stream.

Spec: specs/Sampling.tla (EXTENDS DiffOps).  No statistics anywhere.

Facet 1 (affine law).  TLC enumerates the Gaussian lattice (four input forms x scalar / vector / diagonal / sparse
  diagonal / dense / sparse x upper- / lower-triangular / full square roots, dims across the dense/sparse switch) and
  every GMRF configuration, checks the law L L^T P = I (P (L L^T) P = P on the range) on the specification's own
  designs and emits mean, data, precision.  The replayer hands sample() a stub generator whose normal draws are 0 and
  the basis vectors e_i, reads off mean and L from the REAL outputs and checks the law against the precision of the
  object's OWN log-density (TLC's precision, cross-checked with the quadratic form of logpdf by polarisation).
Facet 1c (structure x storage format x threshold side).  For every input form the specification supplies a matrix of each
  structure (diagonal, lower / upper triangular, tridiagonal non-triangular, full) with its exact precision; `format` (ndarray,
  csr, csc, dia, coo, bsr, lil) and the side of cuqi.config.MIN_DIM_SPARSE are dimensions of the emitted case that the expected
  values do not depend on (FsLaw; deviation dia_as_diagonal refuted).  The replayer only chooses the container; a refusal of
  the library is an observation, a wrong mean / covariance a mismatch; every cell must be replayed or observed as refused.
Facet 2 (wiring).  For the univariate families TLC emits the base request (generator, arguments, size) and the exact
  expected result for scripted base values; stub generators / recording scipy.stats .rvs compare.
Facet 4 (Reassign).  One object; TLC explores Evaluate / Assign(unit) in the cyclic orders of the units of every start
  configuration of facets 1 and 2 and emits the expected case after every assignment; the replayer assigns through the
  public attributes and repeats the observation of facet 1 / 2 on the SAME object (cold, warm, after each assignment).
Facet 5 (Siblings).  ONE conditional object (callable mean / matrix / precision / scalar parameters) is conditioned to the two
  configurations of a Reassign pair, both copies stay alive; TLC enumerates the interleavings of Condition(A), Condition(B),
  Sample(.), use of the original (SibOwnDraw; deviation shared_derived refuted); every draw is judged against the case of the
  sampled copy's OWN configuration (signatures siblings/<observer signature>/order=ABA/walk=.../at=<k><copy>/cond=<callables>).
Facet 6 (FirstObservable).  After `obj.<parameter> = value` the first observable used may be sample, logpdf or gradient, in any
  order: TLC enumerates the orders (FoUsesCurrent; deviation sync_in_density_only refuted), the replay drives them on the objects of
  the Reassign cases; every sample is judged by the facet-1 / facet-2 observer against the case of the assignments made so far and
  nothing is evaluated that the behaviour does not contain (signatures <observer signature>/firstobs=<walk>/at=<k>/assigned=<names>).
Facet 7 (Counts).  The sample count N across the block sizes B an implementation may work with internally: TLC explores the block
  loop CountBlock / CountFinish for representative x N in {1, 2, 3, 999, 1000, 1001, 2047, 2500} x B in {1000, 1024} (ColumnsIndependent:
  the column map of the result is the identity; deviation last_block_skipped refuted) and emits representative, N, column map and the
  rule of the scripted noise; the replay makes ONE sample(N) call with noise column j = w_j e_((j-1) mod M) (weights pairwise distinct,
  some zero) per object / N / generator given or none and checks column j = mean + w_j L[:, (j-1) mod M] against the object's OWN mean
  and L (read off with N = 3 as in facet 1); univariate families by the wiring table (signatures counts/<observer signature>).
Facet 3 (streams).  TLC explores the stream state machine and emits behaviours; each is executed on real
  distributions with real RandomState / Generator objects: global state digests before/after, equal generator
  states => equal draws, return types, conditional distributions refuse.
"""
META = {
    "claimed": True,
    "engine": "Sampling.tla",
    "text": ("TLC checks on the specification that every Gaussian input form (cov/prec/sqrtcov/sqrtprec x scalar, vector, "
             "diagonal, sparse, dense; upper/lower/full square roots) yields one precision and an affine sampler with "
             "L L^T P = I, that the D^T-push/pseudo-inverse design is a correct GMRF sampler for every boundary condition "
             "and order (rational arithmetic) and that the DFT design is correct exactly for circulant precisions with "
             "eigenvalues in frequency order (named deviations give counterexamples), the wiring tables of the "
             "univariate families, and the stream state machine (rng given => global stream untouched, draws a "
             "function of the given generator's state, return shapes, conditional => error) on all behaviours up to "
             "the bounded length; every emitted configuration / behaviour is replayed on the real distributions with "
             "stub and real generators, the affine read-off and the wiring tables both with a generator given and with "
             "none (numpy's module-level functions scripted). Facet 4 (Reassign: Evaluate / Assign(unit) on ONE object, invariant "
             "ReSampFresh, deviation stale_after_assign refuted): every parameter of one univariate family object, mean and "
             "matrix-valued input (other scaling, other triangle) of one Gaussian / Lognormal, mean and precision of one GMRF are "
             "replaced through the public attributes, cold / warm / sampling after each assignment; base request, result and "
             "affine law must be those of a freshly built object with the current parameters. scipy-based families are observed "
             "at the rvs method of the scipy distribution class (module function, frozen and kept frozen objects alike). "
             "Facet 1c: every Gaussian input form x structure of the matrix handed in (diagonal, lower, upper, tridiagonal non-triangular, "
             "full; exact matrices and precisions from the spec, FsLaw) x storage format (ndarray, csr, csc, dia, coo, bsr, lil) x side of "
             "cuqi.config.MIN_DIM_SPARSE is read off affinely (deviation dia_as_diagonal refuted; refusals observed, every cell "
             "replayed or observed). Facet 5 (Siblings: Condition(A), Condition(B), Sample, Original on ONE conditional object, "
             "invariant SibOwnDraw, deviation shared_derived refuted): conditional Gaussian / Lognormal / GMRF / univariate families "
             "conditioned to both configurations of every Reassign pair, both copies alive, sampled A, B, A (and every other emitted "
             "interleaving, rotating) around a use of the unconditioned original; each draw must be that of its own configuration. "
             "Facet 6 (FirstObservable: Assign / Observe(sample | logpdf | gradient) on ONE object, invariant FoUsesCurrent, deviation "
             "sync_in_density_only refuted): after a public setter ANY observable may be used first - every emitted order of assignments "
             "and observables is driven on the objects of the Reassign cases (univariate families, Gaussian, Lognormal, GMRF) and every "
             "sample is read off affinely / by the wiring table against the case of the assignments made so far WITHOUT evaluating a "
             "density unless the behaviour contains it. "
             "Facet 7 (Counts: block loop CountBlock / CountFinish over representative x sample count N x internal block size B, invariant "
             "ColumnsIndependent = every column j of the result is the image of its OWN noise column j, deviation last_block_skipped "
             "refuted): sample(N) for N in {1, 2, 3, 999, 1000, 1001, 2047, 2500} (thorough: also 499-501, 1024, 1025, 2048, 3001) on one "
             "Gaussian per input form x shape x triangle x storage format, Lognormal, one GMRF per boundary condition x order in 1-D and "
             "2-D, one object per univariate family (thorough: every configuration of facets 1 and 2), generator given and none: ONE call "
             "with scripted noise column j = w_j e_((j-1) mod M) (weights pairwise distinct, some zero; rule emitted by the spec) must give "
             "column j = mean + w_j L[:, (j-1) mod M] for the object's OWN mean and L (read off with N = 3), univariate families entry "
             "(i, j) = transformed base value (j, i) of one base request of size (N, dim)."),
    "note": ("No statistics: the law of numpy/scipy base generators is trusted; ModifiedHalfNormal acceptance envelopes "
             "are not modelled (parameter wiring and stream behaviour only). Bounded sizes (Gaussian dim <= 3 with "
             "MIN_DIM_SPARSE lowered to 2, plus diagonal forms at the real threshold 75/76; structure x format lattice in dim 4 (and 3) "
             "with MIN_DIM_SPARSE = dim / dim - 1; GMRF n <= 6/8 in 1-D, "
             "n <= 3/4 in 2-D; sample counts up to 2500 / 3001 on small dimensions). Support of numpy Generator objects and of 2-D periodic sampling is not documented and "
             "only observed."),
    "technique": ("TLA+ spec (Sampling, extending DiffOps) model-checked with TLC; emitted cases and behaviours replayed "
                  "into cuqi.distribution.*.sample with scripted stub generators and real generators"),
}

import contextlib, io, json, math, warnings
from fractions import Fraction
import numpy as np

SEED_LOCAL = 20240517      # seed of the local generators of the stream facet
SEED_GLOBAL = 777


# ----------------------------------------------------------------------------------------------- helpers
def fr(x):
    """TLC value -> float: rational <<n, d>> (JSON [n, d]) or integer."""
    if isinstance(x, (list, tuple)):
        return float(Fraction(int(x[0]), int(x[1])))
    return float(x)


def fvec(v):
    return np.array([fr(x) for x in v], dtype=float)


def fmat(M, ncols=None):
    if len(M) == 0:
        return np.zeros((0, ncols or 0))
    return np.array([[fr(x) for x in row] for row in M], dtype=float)


@contextlib.contextmanager
def quiet():
    with warnings.catch_warnings():
        warnings.simplefilter("ignore")
        with contextlib.redirect_stdout(io.StringIO()):
            yield


@contextlib.contextmanager
def min_dim_sparse(value):
    import cuqi
    old = cuqi.config.MIN_DIM_SPARSE
    cuqi.config.MIN_DIM_SPARSE = value
    try:
        yield
    finally:
        cuqi.config.MIN_DIM_SPARSE = old


def machinery(msg):
    from cuqiverif.core import MachineryError
    raise MachineryError(msg)


def as_matrix(s, dim, N):
    """Real sample() output -> (dim, N) float array, or None when the number of entries is not dim * N."""
    a = np.asarray(s.samples if hasattr(s, "samples") and not isinstance(s, np.ndarray) else s, dtype=float)
    if a.size != dim * N:
        return None
    if a.ndim == 2 and a.shape == (dim, N):
        return a
    if a.ndim <= 1 and (N == 1 or dim == 1):
        return a.reshape(dim, N)
    return None


def check_return(ctx, sig, case, dist, s, N):
    """One draw -> array carrying the distribution's geometry; N draws -> sample collection with N columns."""
    import cuqi
    dim = dist.dim
    ok, why = True, ""
    if N == 1:
        if not isinstance(s, cuqi.array.CUQIarray):
            ok, why = False, "one draw is not returned as a CUQIarray (%s)" % type(s).__name__
        elif np.size(s) != dim:
            ok, why = False, "one draw has %d entries, the distribution has dimension %d" % (np.size(s), dim)
        elif s.geometry != dist.geometry:
            ok, why = False, "the array does not carry the distribution's geometry"
    else:
        if not isinstance(s, cuqi.samples.Samples):
            ok, why = False, "%d draws are not returned as Samples (%s)" % (N, type(s).__name__)
        elif s.Ns != N or np.size(s.samples) != dim * N or (np.ndim(s.samples) == 2 and s.samples.shape != (dim, N)):
            ok, why = False, "sample collection has shape %r, expected one column per draw (%d, %d)" % (np.shape(s.samples), dim, N)
        elif s.geometry != dist.geometry:
            ok, why = False, "the sample collection does not carry the distribution's geometry"
    if not ok:
        ctx.mismatch(sig, case, why, expected={"N": N, "dim": dim}, observed={"type": type(s).__name__, "shape": list(np.shape(s))})
    return ok


# ------------------------------------------------------------------------------ own density: precision by polarisation
def own_precision(logdens, mean, dim, pairs=None):
    """Matrix of the quadratic form of -2 log density around `mean` (polarisation identity)."""
    l0 = logdens(mean)

    def q(x):
        return -2.0 * (logdens(mean + x) - l0)
    I = np.eye(dim)
    qe = np.array([q(I[i]) for i in range(dim)])
    P = np.diag(qe)
    it = pairs if pairs is not None else [(i, j) for i in range(dim) for j in range(i + 1, dim)]
    for i, j in it:
        P[i, j] = P[j, i] = 0.5 * (q(I[i] + I[j]) - qe[i] - qe[j])
    return P


def gaussian_logdens(dist):
    """log-density of a cuqi Gaussian as a float function; un-normalised when the normalised one is not available."""
    def f(x):
        try:
            v = dist.logpdf(x)
        except NotImplementedError:
            if not hasattr(dist, "_logupdf"):
                raise
            v = dist._logupdf(x)
        return float(np.ravel(v)[0])
    return f


# ----------------------------------------------------------------------------------------- affine read-off
class ReadOff:
    """Reads mean and L off real sample(N, rng=stub) calls.  Requests of the stub must be standard-normal arrays of
    shape (m_r, N) (the implementation-shaped statement of the spec); anything else is a machinery failure."""

    def __init__(self, dist, N, transform=None, use_global=False):
        self.dist, self.N, self.transform, self.use_global = dist, N, transform, use_global
        self.requests = None

    def call(self, blocks):
        """blocks: None (all zero) or list of (m_r, N) arrays, one per request."""
        from cuqiverif.script_rng import StubRNG, ScriptError, Stream, scripted
        state = {"k": 0}

        def item(shape):
            k = state["k"]
            state["k"] += 1
            if blocks is None:
                return np.zeros(shape)
            if k >= len(blocks) or tuple(blocks[k].shape) != tuple(shape):
                raise ScriptError("request %d of shape %r does not repeat the zero call's requests" % (k, shape))
            return blocks[k]
        if self.use_global:
            # no generator given: the module-level numpy.random functions are scripted by the same rules
            with scripted(stream=Stream(default={"normal": item}, name="global-script")) as st:
                with quiet():
                    s = self.dist.sample(self.N)
            log = list(st.log)
        else:
            rng = StubRNG(default={"normal": item})
            with quiet():
                s = self.dist.sample(self.N, rng=rng)
            log = [e for e in rng.log]
        for fn, kind, shape, args in log:
            if kind != "normal" or (args and (np.any(np.asarray(args.get("loc", 0)) != 0) or np.any(np.asarray(args.get("scale", 1)) != 1))):
                machinery("Gaussian-type sampler requested a %s draw (%s %r): not a standard-normal array" % (kind, fn, args))
            if len(shape) != 2 or shape[1] != self.N:
                machinery("Gaussian-type sampler requested a normal array of shape %r for N=%d (expected (m, N))" % (shape, self.N))
        return s, [tuple(e[2]) for e in log]

    def matrix(self, s):
        a = as_matrix(s, self.dist.dim, self.N)
        if a is None:
            return None
        return self.transform(a) if self.transform else a


def read_affine(ctx, sigtail, case, dist, N, transform=None, tol=1e-9, use_global=False, refusal=None):
    """Returns (mean_obs (dim,), L (dim, m_total)) or None after having reported a mismatch.
    tol: accuracy of the linear solves behind the sampler (relative to the magnitude of the output).
    use_global: sample(N) without a generator, numpy's module-level functions scripted (the default code path).
    refusal: callable(exception) - the FIRST call (all normal draws zero) raising inside the library is a refusal of the
    input (an observation of the caller), not a mismatch; a later call raising stays a mismatch (value-dependent failure)."""
    from cuqiverif.script_rng import global_state_digest
    from cuqiverif.script_rng import ScriptError
    from cuqiverif.core import MachineryError
    ro = ReadOff(dist, N, transform, use_global)
    _call = ro.call

    def guarded(blocks):
        try:
            return _call(blocks)
        except (NotImplementedError, ScriptError, MachineryError):
            raise                       # documented refusal (handled by the caller) / machinery
        except Exception as e:          # the sampler itself fails on a documented configuration
            if refusal is not None and blocks is None:
                refusal(e)
                return None
            ctx.mismatch("sample_raises/" + sigtail, case, "sample(%d%s) raises: %r" % (N, "" if use_global else ", rng=generator", e))
            return None
    ro.call = guarded
    g0 = global_state_digest()
    r0 = ro.call(None)
    if r0 is None:
        return None
    s0, reqs = r0
    if not use_global and not reqs and global_state_digest() != g0:
        # the generator that was passed in was never asked, and the global stream moved instead
        ctx.mismatch("rng_ignored/" + sigtail, case, "sample(N, rng=generator) did not draw from the given generator and "
                     "consumed numpy's global random state instead", "requests to the given generator", "none; global state changed")
        return None
    if not check_return(ctx, "return_shape/" + sigtail, case, dist, s0, N):
        return None
    S0 = ro.matrix(s0)
    if not reqs:
        machinery("sampler made no normal request (%s)" % sigtail)
    w = np.array([1.0, 0.0, -2.0, 0.5, 3.0])[:N] if N > 1 else np.array([1.0])
    cols = []
    for r, (m, _) in enumerate(reqs):
        for i in range(m):
            blocks = [np.zeros(sh) for sh in reqs]
            blocks[r][i, :] = w
            r1 = ro.call(blocks)
            if r1 is None:
                return None
            s, reqs2 = r1
            if reqs2 != reqs:
                machinery("number/shape of normal requests depends on the values drawn (%s)" % sigtail)
            S = ro.matrix(s)
            if S is None:
                ctx.mismatch("return_shape/" + sigtail, case, "sample output has not dim x N entries", None, np.shape(s))
                return None
            col = S[:, 0] - S0[:, 0]
            # column-wise law: column c = mean + w_c * L e_i
            exp = S0 + np.outer(col, w)
            if not np.allclose(S, exp, rtol=tol, atol=tol * max(1.0, np.abs(exp).max())):
                ctx.mismatch("columns/" + sigtail, case, "draws of one call are not mean + L z_c column by column "
                             "(request %d, basis vector %d, column weights %r)" % (r, i, w.tolist()), exp, S)
                return None
            cols.append(col)
    L = np.array(cols).T
    # affinity: a generic input
    blocks = []
    k = 0
    z_all = []
    for (m, _) in reqs:
        Z = np.array([[((3 * (k + i) + 5 * c) % 7 - 3) / 4.0 for c in range(N)] for i in range(m)])
        k += m
        blocks.append(Z)
        z_all.append(Z)
    r2 = ro.call(blocks)
    if r2 is None:
        return None
    s = r2[0]
    S = ro.matrix(s)
    exp = S0 + L @ np.vstack(z_all)
    if S is None or not np.allclose(S, exp, rtol=tol, atol=tol * max(1.0, np.abs(exp).max())):
        ctx.mismatch("affine_map/" + sigtail, case, "sample(e) is not an affine function mean + L e of the normal draws", exp, S)
        return None
    if not np.allclose(S0, S0[:, [0]] @ np.ones((1, N)), rtol=tol, atol=tol):
        ctx.mismatch("columns/" + sigtail, case, "columns differ although all normal draws are zero", S0[:, 0], S0)
        return None
    return S0[:, 0], L


def check_law(ctx, sigtail, case, mean_spec, P, full_rank, got, tol):
    """got = (mean_obs, L).  Mean equal to the spec's; P (L L^T) P = P; L L^T P = I when P is non-singular."""
    mean_obs, L = got
    ok = True
    if not np.allclose(mean_obs, mean_spec, rtol=1e-12, atol=1e-12):
        ctx.mismatch("mean/" + sigtail, case, "sample with all normal draws zero is not the mean", mean_spec, mean_obs)
        ok = False
    C = L @ L.T
    scale = max(1.0, np.abs(P).max())
    if full_rank:
        R = C @ P - np.eye(len(P))
        bad = np.abs(R).max() > tol * max(1.0, np.abs(C).max() * scale)
    else:
        R = P @ C @ P - P
        bad = np.abs(R).max() > tol * scale * max(1.0, np.abs(C).max() * scale)
    if bad:
        ctx.mismatch("affine/" + sigtail, case,
                     "covariance L L^T of the draws is not the (pseudo-)inverse of the precision of the object's own density: "
                     + ("|L L^T P - I|" if full_rank else "|P L L^T P - P|") + " = %.3g" % np.abs(R).max(),
                     expected={"P": P}, observed={"L": L, "LLt": C})
        ok = False
    return ok


# --------------------------------------------------------------------------------------------- facet 1a
def gauss_sig(c, N=None, fmt=None):
    if c.get("kind") == "gfs":      # facet 1c: structure x storage format x side of the sparse threshold
        s = "gfs/wrap=%s/form=%s/structure=%s/format=%s/side=%s/dim=%d" % (
            c["wrap"], c["form"], c["structure"], c["format"], c["side"], c["dim"])
    else:
        s = "gauss/wrap=%s/form=%s/shape=%s/tri=%s/dim=%d/scaled=%d/mform=%s" % (
            c["wrap"], c["form"], c["shape"], c["tri"], c["dim"], int(bool(c["scaled"])), c["mform"])
        if fmt:
            s += "/fmt=" + fmt
    if N is not None:
        s += "/N=%d" % N
    return s


def gauss_inputs(c):
    """[(format name, mean argument, matrix argument, extra kwargs)] - the concrete ways of passing the case's data."""
    import scipy.sparse as sp
    dim = c["dim"]
    mean = fvec(c["mean"])
    mean_arg = float(mean[0]) if c["mform"] == "scalar" else mean
    kw = {}
    shape = c["shape"]
    if shape == "scalar":
        data = [("float", fr(c["data"][0]))]
        if c["mform"] == "scalar" and dim > 1:
            kw["geometry"] = dim
    elif shape == "vector":
        data = [("ndarray", fvec(c["data"]))]
    elif shape == "diag":
        data = [("ndarray", np.diag(fvec(c["data"])))]
    elif shape == "spdiag":
        v = fvec(c["data"])
        data = [("dia", sp.diags(v)), ("csr", sp.diags(v, format="csr"))]
    elif shape == "dense":
        data = [("ndarray", fmat(c["data"]))]
    elif shape == "sparse":
        M = fmat(c["data"])
        data = [("csr", sp.csr_matrix(M)), ("csc", sp.csc_matrix(M))]
    else:
        machinery("unknown shape %r" % shape)
    return [(f, mean_arg, d, kw) for f, d in data]


def build_gauss(c, mean_arg, data, kw):
    import cuqi
    if c["wrap"] == "lognormal":
        return cuqi.distribution.Lognormal(mean_arg, data, **kw)
    return cuqi.distribution.Gaussian(mean=mean_arg, **{c["form"]: data}, **kw)


def run_gauss(ctx, c, Ns=(1, 3)):
    dim = c["dim"]
    if c["wrap"] == "lognormal" and c["mform"] == "scalar" and c["shape"] == "scalar" and dim > 1:
        return  # the dimension of a Lognormal cannot be given separately from mean / cov
    P = fmat(c["prec"])
    mean = fvec(c["mean"])
    with min_dim_sparse(2):
        for fmt, mean_arg, data, kw in gauss_inputs(c):
            sig0 = gauss_sig(c, fmt=fmt)
            try:
                with quiet():
                    dist = build_gauss(c, mean_arg, data, kw)
            except NotImplementedError as e:
                ctx.observations.setdefault("gaussian_input_not_supported", {})[sig0] = str(e)[:120]
                continue
            except Exception as e:
                ctx.mismatch("construct/" + sig0, c, "documented input form cannot be constructed: %r" % (e,))
                continue
            ctx.case(("gauss", sig0), facet="affine_gaussian")
            observe_gauss(ctx, c, dist, fmt, Ns)


def gauss_density(ctx, c, dist, sig0, refusal=None):
    """precision of the object's own density (polarisation), compared with the specification's; returns the precision the
    sampler is judged against (None: the density evaluation was refused and `refusal` was told)"""
    dim = c["dim"]
    P = fmat(c["prec"])
    mean = fvec(c["mean"])
    if c["wrap"] == "lognormal":
        def logdens(y, d=dist):
            return float(np.ravel(d.logpdf(np.exp(y)))[0]) + float(np.sum(y))
    else:
        logdens = gaussian_logdens(dist)
    try:
        with quiet():
            P_own = own_precision(logdens, mean, dim)
    except Exception as e:
        if refusal is None:
            raise
        refusal(e)
        return None
    if not np.allclose(P_own, P, rtol=1e-7, atol=1e-9 * max(1.0, np.abs(P).max())):
        ctx.mismatch("density/" + sig0, c, "quadratic form of the object's own log-density is not the precision "
                     "the specification assigns to this input", P, P_own)
        return P_own       # judge the sampler against the object's own density
    return P


def observe_gauss(ctx, c, dist, fmt, Ns, tag="", globals_too=True, density=True, refusal=None):
    """affine read-off of one real Gaussian / Lognormal object against the case c (tag: history of the object, Reassign facet)
    density: evaluate the object's own density first (False: the sampling path alone, judged against the spec's precision);
    refusal: callable(where, exception) - the library refusing this input is an observation (facet 1c)"""
    dim = c["dim"]
    mean = fvec(c["mean"])
    sig0 = gauss_sig(c, fmt=fmt) + tag
    P_use = fmat(c["prec"])
    if density:
        P_use = gauss_density(ctx, c, dist, sig0, (lambda e: refusal("density", e)) if refusal else None)
        if P_use is None:
            P_use = fmat(c["prec"])
    for N in Ns:
        sig = gauss_sig(c, N, fmt) + tag
        tf = np.log if c["wrap"] == "lognormal" else None
        for use_global in ((False, True) if globals_too else (False,)):      # generator given / not given (the default code path)
            sg = sig + ("/rng=none" if use_global else "")
            try:
                got = read_affine(ctx, sg, c, dist, N, tf, use_global=use_global,
                                  refusal=(lambda e, sg=sg: refusal("sample N=" + sg.split("/N=")[1], e)) if refusal else None)
            except NotImplementedError as e:
                if refusal is None:
                    raise
                refusal("sample N=" + sg.split("/N=")[1], e)
                got = None
            if got is None:
                continue
            ok = check_law(ctx, sg, c, mean, P_use, True, got, 1e-9)
            if ok and c["exact"] and got[1].shape == (dim, dim):
                Ls = fmat(c["L"])
                if not np.allclose(got[1], Ls, rtol=1e-9, atol=1e-12):
                    ctx.mismatch("exact/" + sg, c, "draw is not mean + sqrtprec^-1 e (docstring of Gaussian._sample)", Ls, got[1])


def run_bigdiag(ctx, c, Ns=(1, 2)):
    """Diagonal forms at the real dense/sparse threshold (cuqi.config.MIN_DIM_SPARSE untouched)."""
    import cuqi
    dim = c["dim"]
    p = fvec(c["precdiag"])
    mean = np.array([((i * i) % 5) - 2.0 for i in range(dim)])
    data = fr(c["data"][0]) if c["shape"] == "scalar" else fvec(c["data"])
    sig0 = "bigdiag/form=%s/shape=%s/dim=%d" % (c["form"], c["shape"], dim)
    with quiet():
        dist = cuqi.distribution.Gaussian(mean=mean, **{c["form"]: data})
    ctx.case(("bigdiag", sig0), facet="affine_gaussian")
    ctx.observations.setdefault("storage_at_threshold", {})[sig0] = type(dist.sqrtprec).__name__
    rs = np.random.RandomState(dim)
    pairs = [tuple(sorted(rs.choice(dim, 2, replace=False))) for _ in range(24)] + [(0, 1), (dim - 2, dim - 1), (0, dim - 1)]
    with quiet():
        P_own = own_precision(gaussian_logdens(dist), mean, dim, pairs=pairs)
    P = np.diag(p)
    if not np.allclose(P_own, P, rtol=1e-7, atol=1e-9):
        ctx.mismatch("density/" + sig0, c, "quadratic form of the object's own log-density is not the specification's precision", p, np.diag(P_own))
        return
    for N in Ns:
        sig = sig0 + "/N=%d" % N
        for use_global in ((False, True) if N == 1 else (False,)):
            sg = sig + ("/rng=none" if use_global else "")
            got = read_affine(ctx, sg, c, dist, N, use_global=use_global)
            if got is None:
                continue
            if check_law(ctx, sg, c, mean, P, True, got, 1e-9) and got[1].shape == (dim, dim) and c["form"] == "sqrtprec":
                if not np.allclose(got[1], np.diag(fvec(c["ldiag"])), rtol=1e-9, atol=1e-12):
                    ctx.mismatch("exact/" + sg, c, "draw is not mean + sqrtprec^-1 e", fvec(c["ldiag"]), np.diag(got[1]))


# --------------------------------------------------------------------------------------------- facet 1c
FS_FORMS = ("cov", "prec", "sqrtcov", "sqrtprec")
FS_FORMATS = ("ndarray", "csr", "csc", "dia", "coo", "bsr", "lil")
FS_STRUCTS = ("diag", "lower", "upper", "banded", "full")
FS_SIDES = ("below", "above")


def fs_cells():
    """the (form, format, structure, threshold side) cells of the specification (a covariance / precision is symmetric:
    no triangular structure) - every one must be replayed or observed as refused (vacuity guard)"""
    return [(f, fm, st, sd) for f in FS_FORMS for fm in FS_FORMATS for st in FS_STRUCTS for sd in FS_SIDES
            if f.startswith("sqrt") or st in ("diag", "banded", "full")]


def fs_container(fmt, M):
    """the ONLY choice of the harness in facet 1c: the container of the specification's matrix"""
    import scipy.sparse as sp
    M = np.array(M, dtype=float)
    if fmt == "ndarray":
        return M
    maker = getattr(sp, fmt + "_matrix", None)
    if maker is None:
        machinery("scipy.sparse has no %s_matrix" % fmt)
    return maker(M)


def run_gfs(ctx, c, Ns=(1, 3), cells=None):
    """Structure x storage format x side of cuqi.config.MIN_DIM_SPARSE: the affine read-off of facet 1a on the matrix of the
    specification in the container `format`.  A refusal of the library (construction, density or sampling raises) is an
    observation; a wrong mean / covariance is a mismatch."""
    cells = {} if cells is None else cells
    key = (c["form"], c["format"], c["structure"], c["side"])
    sig0 = gauss_sig(c)
    ckey = "%s/dim=%d" % ("/".join(key), c["dim"]) + ("" if c["wrap"] == "gaussian" else "/wrap=" + c["wrap"])
    refused = []

    def refusal(where, e):
        refused.append(where)
        ctx.observations.setdefault("gfs_refused", {}).setdefault(ckey, "%s: %s" % (where, repr(e)[:140]))
    mean = fvec(c["mean"])
    X = fs_container(c["format"], fmat(c["data"]))
    with min_dim_sparse(int(c["thr"])):
        try:
            with quiet():
                dist = build_gauss(c, mean, X, {})
        except Exception as e:
            refusal("construct", e)
            if c["wrap"] == "gaussian":
                cells.setdefault(key, set()).add("refused")
            return
        ctx.case(("gfs", sig0), facet="affine_gaussian_format_structure")
        if c["wrap"] == "gaussian":
            st = ctx.observations.setdefault("gfs_storage_of_sqrtprec", {})
            k2 = "%s/%s/%s" % (c["form"], c["format"], c["side"])
            name = type(dist.sqrtprec).__name__
            if name not in st.setdefault(k2, name).split("|"):
                st[k2] += "|" + name
        observe_gauss(ctx, c, dist, None, Ns, refusal=refusal)
    if c["wrap"] == "gaussian":
        n_obs = 2 * len(Ns)
        cells.setdefault(key, set()).add("refused" if len([w for w in refused if w.startswith("sample")]) == n_obs else "replayed")


def check_fs_cells(ctx, cells):
    missing = [k for k in fs_cells() if not cells.get(k)]
    if missing:
        machinery("vacuous: %d (form, format, structure, threshold side) cells of facet 1c were neither replayed nor observed as "
                  "refused, e.g. %r" % (len(missing), missing[:3]))
    ctx.observations["gfs_cells"] = {"replayed": sum(1 for k in fs_cells() if "replayed" in cells[k]),
                                     "refused": sorted("/".join(k) for k in fs_cells() if "replayed" not in cells[k])}


# --------------------------------------------------------------------------------------------- facet 1b
def gmrf_key(c):
    return "gmrf/pd=%d/n=%d/bc=%s/order=%d/delta=%d" % (c["pd"], c["n"], c["bc"], c["order"], c["delta"])


def run_gmrf(ctx, variants, Ns=(1, 3)):
    """variants: TLC cases of one (pd, n, bc, order, delta), one per wrap multiplicity of the periodic operator."""
    import cuqi
    c = variants[0]
    dim, n, delta = c["dim"], c["n"], float(c["delta"])
    case = {"kind": "gmrf_group", "variants": variants}
    key = gmrf_key(c)
    geom = cuqi.geometry.Continuous1D(n) if c["pd"] == 1 else cuqi.geometry.Image2D((n, n))
    mean = np.array(c["mean"], dtype=float)
    try:
        with quiet():
            dist = cuqi.distribution.GMRF(mean, delta, bc_type=c["bc"], order=c["order"], geometry=geom)
    except Exception as e:
        ctx.mismatch("construct/" + key, case, "GMRF cannot be constructed for a documented configuration: %r" % (e,))
        return
    ctx.case(("gmrf", key), facet="affine_gmrf")
    with quiet():
        P_own = own_precision(lambda x: float(np.ravel(dist.logpdf(x))[0]), mean, dim)
    chosen = None
    for v in variants:
        P = delta * fmat(v["P0"])
        if np.allclose(P_own, P, rtol=1e-9, atol=1e-9 * max(1.0, np.abs(P).max())):
            chosen = v
            break
    if chosen is None:
        ctx.mismatch("density/" + key, case, "quadratic form of the field's own log-density is not delta D^T D for the "
                     "difference operator of the specification (any wrap multiplicity)", [v["P0"] for v in variants], P_own)
        P, rank = P_own, int(np.linalg.matrix_rank(P_own, tol=1e-9))
    else:
        P, rank = delta * fmat(chosen["P0"]), chosen["rank"]
        if c["bc"] == "periodic":
            ctx.observations.setdefault("periodic_wrap_multiplicity_of_own_density", {})[key] = chosen["wm"]
    tol = 1e-9 if c["bc"] == "zero" else 1e-6     # periodic / neumann: documented jitter sqrt(eps) in the factorisation
    for N in Ns:
        sig = key + "/N=%d" % N
        for use_global in (False, True):          # generator given / not given (the default code path)
            sg = sig + ("/rng=none" if use_global else "")
            try:
                got = read_affine(ctx, sg, case, dist, N, tol=tol, use_global=use_global)
            except NotImplementedError as e:
                ctx.observations.setdefault("gmrf_sampling_not_implemented", {})[key] = str(e)[:100]
                return
            if got is None:
                continue
            check_law(ctx, sg, case, mean, P, rank == dim, got, tol)


# ----------------------------------------------------------------------------------------------- facet 2
def wiring_sig(c):
    return "%s/dim=%d/pform=%s/N=%d/lat=%d" % (c["family"], c["dim"], c["pform"], c["N"], c["lat"])


def build_family(c):
    import cuqi
    dim = c["dim"]
    args = {}
    for p in c["params"]:
        v = fvec(p["val"])
        args[p["name"]] = float(v[0]) if p["passed"] == "scalar" else v
    if all(p["passed"] == "scalar" for p in c["params"]) and dim > 1:
        args["geometry"] = dim
    return getattr(cuqi.distribution, c["family"])(**args)


def _bcast(v, shape):
    return np.broadcast_to(np.asarray(v, dtype=float), shape)


def _tokens_for(shape, Z, N, dim):
    """Base values for a request of `shape`: rows = draws (the spec's layout) or, alternatively, rows = components."""
    if tuple(shape) == (N, dim):
        return Z, "draws_by_components"
    if tuple(shape) == (dim, N):
        return Z.T.copy(), "components_by_draws"
    return None, None


def run_wiring(ctx, c, use_global=False, dist=None, tag=""):
    """Wiring facet of one case; an exception raised inside the library while constructing / sampling a documented
    configuration is reported as a mismatch (scripted-generator and harness failures stay machinery errors).
    dist: an existing object that must now sample like a freshly built object of configuration c (Reassign facet);
    tag: suffix of the signatures naming the history of that object."""
    import traceback
    from cuqiverif.script_rng import ScriptError
    from cuqiverif.core import MachineryError
    try:
        return _run_wiring(ctx, c, use_global, dist, tag)
    except (ScriptError, MachineryError):
        raise
    except Exception as e:
        frames = traceback.extract_tb(e.__traceback__)
        if not any("/cuqi/" in f.filename and "cuqiverif" not in f.filename for f in frames):
            raise
        ctx.mismatch("wiring_raises/" + wiring_sig(c) + tag + ("/rng=none" if use_global else ""), c,
                     "constructing / sampling a documented configuration raises: %r" % (e,))


@contextlib.contextmanager
def scipy_rvs_recorder(target, on_call):
    """Every draw scipy makes for the family of `target` (scipy.stats.<name>) passes through the `rvs` method of its class -
    scipy.stats.<name>.rvs(...), a frozen scipy.stats.<name>(...).rvs(...) (also one kept between calls), any instance of the
    class.  The method is replaced on the class that defines it (in this process, restored afterwards); draws of other
    families pass through."""
    cls = type(target)
    owner = next((k for k in cls.__mro__ if "rvs" in k.__dict__), None)
    if owner is None:
        machinery("scipy.stats distribution class %s has no rvs method" % cls.__name__)
    orig = owner.__dict__["rvs"]

    def rvs(self_, *a, **k):
        if not isinstance(self_, cls):
            return orig(self_, *a, **k)
        return on_call(*a, **k)
    owner.rvs = rvs
    try:
        yield
    finally:
        owner.rvs = orig


def _run_wiring(ctx, c, use_global=False, dist=None, tag=""):
    """use_global: sample(N) without a generator - the module-level numpy.random functions are scripted (numpy families),
    scipy's .rvs / the rejection sampler are recorded as with a generator (their random_state / rng is then not judged)."""
    import scipy.stats as sps
    from cuqiverif.script_rng import StubRNG, ScriptError, Stream, scripted
    N, dim, fam, gen = c["N"], c["dim"], c["family"], c["gen"]
    sig = wiring_sig(c) + tag + ("/rng=none" if use_global else "")
    ctx.case(("wiring", sig), facet="wiring_reassign" if tag else "wiring")
    if dist is None:
        with quiet():
            dist = build_family(c)
    Z = fmat(c["Z"])
    expected = fmat(c["result"])
    spec_args = {a["name"]: fvec(a["val"]) for a in c["args"]}
    rec = {"calls": []}

    def compare_args(got_args, shape, layout):
        for name, val in spec_args.items():
            if name not in got_args:
                ctx.mismatch("wiring_args/" + sig, c, "base request lacks argument %r" % name, sorted(spec_args), sorted(got_args))
                return False
            full = val[None, :] if layout == "draws_by_components" else val[:, None]
            try:
                g = _bcast(got_args[name], shape)
            except ValueError:
                ctx.mismatch("wiring_args/" + sig, c, "argument %r does not broadcast to the requested size" % name, val, got_args[name])
                return False
            if not np.allclose(g, _bcast(full, shape), rtol=1e-12, atol=0):
                ctx.mismatch("wiring_args/" + sig, c, "base generator %s is called with %s different from the specification" % (gen, name),
                             expected=val, observed=np.asarray(got_args[name]))
                return False
        return True

    if gen in ("normal", "uniform", "gamma", "laplace"):
        state = {}

        def item(shape):
            t, layout = _tokens_for(shape, Z, N, dim)
            if t is None:
                raise ScriptError("size %r requested, expected (%d, %d)" % (shape, N, dim))
            state["layout"], state["shape"] = layout, tuple(shape)
            return t
        kind = {"normal": "normal", "uniform": "uniform", "gamma": "gamma", "laplace": "laplace"}[gen]
        rng = Stream(queues={kind: [item]}, name="global-script") if use_global else StubRNG(queues={kind: [item]})
        g0 = _digest()
        try:
            with quiet():
                if use_global:
                    with scripted(stream=rng):
                        s = dist.sample(N)
                else:
                    s = dist.sample(N, rng=rng)
        except ScriptError as e:
            ctx.mismatch("wiring_request/" + sig, c, "base draws requested differ from the specification (%s(..., size=(N, dim)) once): %s" % (gen, e),
                         expected={"gen": gen, "size": [N, dim]}, observed=[(l[0], list(l[2])) for l in rng.log])
            return
        if not use_global and _digest() != g0:
            ctx.mismatch("wiring_global/" + sig, c, "global numpy random state consumed although rng was given")
        if len(rng.log) != 1 or rng.log[0][0] != gen:
            ctx.mismatch("wiring_request/" + sig, c, "base draws requested differ from the specification", {"gen": gen, "size": [N, dim]},
                         [(l[0], list(l[2])) for l in rng.log])
            return
        if not compare_args(rng.log[0][3] or {}, state["shape"], state["layout"]):
            return
    elif gen.startswith("scipy."):
        name = gen.split(".")[1]
        target = getattr(sps, name, None)
        if target is None or not hasattr(target, "rvs"):
            machinery("scipy.stats.%s.rvs not available" % name)
        sentinel = np.random.RandomState(5)
        st0 = _rs_digest(sentinel)

        def rvs(*a, **k):
            shapes = [x.strip() for x in (target.shapes or "").split(",") if x.strip()]
            got = dict(k)
            for nm, v in zip(shapes + ["loc", "scale", "size", "random_state"], a):
                got[nm] = v
            got.setdefault("loc", 0.0)
            got.setdefault("scale", 1.0)
            rec["calls"].append(got)
            size = got.get("size")
            shape = (size,) if isinstance(size, (int, np.integer)) else tuple(size) if size is not None else ()
            t, layout = _tokens_for(shape, Z, N, dim)
            if t is None:
                raise ScriptError("size %r requested, expected (%d, %d)" % (shape, N, dim))
            got["_layout"], got["_shape"] = layout, shape
            return t
        g0 = _digest()
        try:
            with scipy_rvs_recorder(target, rvs), quiet():
                s = dist.sample(N) if use_global else dist.sample(N, rng=sentinel)
        except ScriptError as e:
            ctx.mismatch("wiring_request/" + sig, c, "base draws requested differ from the specification: %s" % e,
                         {"gen": gen, "size": [N, dim]}, [{k: v for k, v in x.items() if k != "random_state"} for x in rec["calls"]])
            return
        if not use_global and _digest() != g0:
            ctx.mismatch("wiring_global/" + sig, c, "global numpy random state consumed although rng was given")
        if not rec["calls"]:
            # no draw passed through scipy.stats.<name>: the family draws in another way.  Judge by behaviour: with a seeded
            # generator the draws must be those of scipy's generator for the specification's arguments, bit for bit; a
            # different (possibly valid) algorithm cannot be read off without statistics: machinery failure, not a violation
            if use_global:
                return
            shapes = [x.strip() for x in (target.shapes or "").split(",") if x.strip()]
            pos = [spec_args[nm] for nm in shapes]
            ref = target.rvs(*pos, loc=spec_args.get("loc", 0.0), scale=spec_args.get("scale", 1.0), size=(N, dim),
                             random_state=np.random.RandomState(12345)).T
            with quiet():
                got_s = as_matrix(dist.sample(N, rng=np.random.RandomState(12345)), dim, N)
            if got_s is not None and np.array_equal(got_s, ref):
                ctx.observations.setdefault("scipy_family_judged_by_seeded_draws", {})[fam] = True
                return
            # ... but draws that are, bit for bit, scipy's draws for the SAME family with the shape arguments in another order are
            # a wrong request (not another algorithm)
            import itertools as _it
            for perm in _it.permutations(range(len(pos))):
                if list(perm) == list(range(len(pos))) or got_s is None:
                    continue
                alt = target.rvs(*[pos[i] for i in perm], loc=spec_args.get("loc", 0.0), scale=spec_args.get("scale", 1.0), size=(N, dim),
                                 random_state=np.random.RandomState(12345)).T
                if np.array_equal(got_s, alt):
                    ctx.mismatch("wiring_args/" + sig + "/permuted", c, "seeded draws are those of scipy.stats.%s for the shape arguments %s in the "
                                 "order %s" % (name, shapes, [shapes[i] for i in perm]), [shapes[i] for i in range(len(pos))], [shapes[i] for i in perm])
                    return
            machinery("%s.sample made no call of scipy.stats.%s (rvs of the class) and its seeded draws are not scipy's: "
                      "the base request cannot be observed" % (fam, name))
        if len(rec["calls"]) != 1:
            ctx.mismatch("wiring_request/" + sig, c, "number of base requests differs from the specification (one "
                         "scipy.stats.%s draw of size (N, dim))" % name, 1, len(rec["calls"]))
            return
        got = rec["calls"][0]
        if not use_global and (got.get("random_state") is not sentinel or _rs_digest(sentinel) != st0):
            ctx.mismatch("wiring_rng/" + sig, c, "the generator given as rng is not the one handed to the base generator",
                         "random_state is the rng argument", repr(got.get("random_state")))
        if not compare_args(got, got["_shape"], got["_layout"]):
            return
    elif gen == "mhn":
        if not hasattr(dist, "_MHN_sample"):
            machinery("ModifiedHalfNormal._MHN_sample disappeared")
        sentinel = np.random.RandomState(5)
        toks = list(Z[:, 0])

        def mhn(alpha, beta, gamma, m=None, rng=None):
            rec["calls"].append({"alpha": alpha, "beta": beta, "gamma": gamma, "rng": rng})
            return toks[len(rec["calls"]) - 1]
        # parameters of the object's own (un-normalised) density  (a-1) log x - b x^2 + c x, fitted at three points
        xs = np.array([1.0, 2.0, 3.0])
        A = np.stack([np.log(xs), -xs ** 2, xs], axis=1)
        y = np.array([float(np.ravel(dist.logpdf(np.array([x])))[0]) for x in xs])
        am1, b_own, c_own = np.linalg.solve(A, y)
        own = {"alpha": am1 + 1.0, "beta": b_own, "gamma": c_own}
        ctor = {k: float(v[0]) for k, v in spec_args.items()}
        ctx.observations.setdefault("mhn_density_parameters_vs_constructor", {})[sig] = {"constructor": ctor, "own_density": {k: round(float(v), 9) for k, v in own.items()}}
        dist._MHN_sample = mhn
        g0 = _digest()
        try:
            with quiet():
                s = dist.sample(N) if use_global else dist.sample(N, rng=sentinel)
        finally:
            del dist._MHN_sample
        if not use_global and _digest() != g0:
            ctx.mismatch("wiring_global/" + sig, c, "global numpy random state consumed although rng was given")
        if len(rec["calls"]) != N:
            ctx.mismatch("wiring_request/" + sig, c, "number of modified-half-normal draws differs from N", N, len(rec["calls"]))
            return
        for call in rec["calls"]:
            for k in ("alpha", "beta", "gamma"):
                if abs(float(call[k]) - own[k]) > 1e-9 * max(1.0, abs(own[k])):
                    ctx.mismatch("wiring_args/" + sig, c, "rejection sampler is run with %s different from the parameter of the "
                                 "object's own density" % k, own, {q: call[q] for q in ("alpha", "beta", "gamma")})
                    return
            if not use_global and call["rng"] is not sentinel:
                ctx.mismatch("wiring_rng/" + sig, c, "the generator given as rng is not the one handed to the rejection sampler")
                return
    else:
        machinery("unknown base generator %r in the specification" % gen)
    # result: shape (dim, N) and entries
    if not check_return(ctx, "return_shape/wiring/" + sig, c, dist, s, N):
        return
    S = as_matrix(s, dim, N)
    if S is None or not np.allclose(S, expected, rtol=1e-12, atol=1e-14):
        ctx.mismatch("wiring_result/" + sig, c, "result is not the transformed base array of the specification "
                     "(component i of draw j = base value (j, i), transformed)", expected, None if S is None else S)


# ----------------------------------------------------------------------------------------------- facet 4 (Reassign)
RE_MODES = ("cold", "warm", "each")     # A* E (assign first, sample later) / E A* E / (E A)* E of Sampling.tla's Reassign facet


def _re_sequences(rc, seen, key):
    L = len(rc["trail"])
    order = tuple(rc["order"])
    out = []
    for mode in RE_MODES:
        for n in ((L,) if mode == "each" else range(2 if mode == "warm" else 1, L + 1)):
            k = (key, mode, order[:n])
            if k not in seen:
                seen.add(k)
                out.append((mode, n))
    return out


def _re_tag(mode, rc, n):
    return "/reassign=%s:%s" % (mode, "+".join("+".join(t["assign"]) for t in rc["trail"][:n]))


def _re_refused(ctx, what, e):
    ob = ctx.observations.setdefault("reassign_refused", {})
    ob[what] = ob.get(what, 0) + 1
    ctx.observations.setdefault("reassign_refused_example", "%s: %r" % (what, e))


def _re_warm(dist, x):
    from cuqiverif import families_common as fc
    fc.warm_up(dist, x)


def _re_step(rc, t):
    return dict(t["expect"], kind="reassign_step", rc=rc)      # a replay file re-executes the whole behaviour


def reassign_wiring(ctx, rc, seen):
    frm = rc["from"]
    nseq = 0
    for mode, n in _re_sequences(rc, seen, ("wiring", wiring_sig(frm))):
        with quiet():
            dist = build_family(frm)
        if mode != "cold":
            _re_warm(dist, np.full(frm["dim"], 0.5))
        for i, t in enumerate(rc["trail"][:n]):
            exp = _re_step(rc, t)
            name = t["assign"][0]
            p = [q for q in exp["params"] if q["name"] == name][0]
            v = fvec(p["val"])
            try:
                setattr(dist, name, float(v[0]) if p["passed"] == "scalar" else v)
            except Exception as e:
                _re_refused(ctx, "%s.%s" % (frm["family"], name), e)
                break
            if mode == "each" or i == n - 1:
                tag = _re_tag(mode, rc, i + 1)
                run_wiring(ctx, exp, dist=dist, tag=tag)
                run_wiring(ctx, exp, use_global=True, dist=dist, tag=tag)
        else:
            nseq += 1
    return nseq


def reassign_gauss(ctx, rc, seen):
    frm = rc["from"]
    dim = frm["dim"]
    if frm["wrap"] == "lognormal" and frm["mform"] == "scalar" and frm["shape"] == "scalar" and dim > 1:
        return 0
    nseq = 0
    with min_dim_sparse(2):
        for fmt, mean_arg, data, kw in gauss_inputs(frm):
            for mode, n in _re_sequences(rc, seen, ("gauss", gauss_sig(frm, fmt=fmt))):
                try:
                    with quiet():
                        dist = build_gauss(frm, mean_arg, data, kw)
                except Exception:
                    break                       # reported by facet 1
                if mode != "cold":
                    _re_warm(dist, fvec(frm["mean"]) + (1.0 if frm["wrap"] == "lognormal" else 0.0) + 0.25)
                for i, t in enumerate(rc["trail"][:n]):
                    exp = _re_step(rc, t)
                    name = t["assign"][0]
                    new = [g for g in gauss_inputs(exp) if g[0] == fmt][0]
                    try:
                        with quiet():
                            setattr(dist, name, new[1] if name == "mean" else new[2])
                    except Exception as e:
                        _re_refused(ctx, "%s.%s" % (frm["wrap"], name), e)
                        break
                    if mode == "each" or i == n - 1:
                        observe_gauss(ctx, exp, dist, fmt, (2,), tag=_re_tag(mode, rc, i + 1), globals_too=(mode == "each"))
                else:
                    nseq += 1
    return nseq


def reassign_gmrf(ctx, rc, seen, skip):
    import cuqi
    frm = rc["from"]
    dim, n = frm["dim"], frm["n"]
    key0 = gmrf_key(frm)
    if (key0, frm["wm"]) in skip:
        return 0
    geom = (lambda: cuqi.geometry.Continuous1D(n)) if frm["pd"] == 1 else (lambda: cuqi.geometry.Image2D((n, n)))

    def build():
        with quiet():
            return cuqi.distribution.GMRF(np.array(frm["mean"], dtype=float), float(frm["delta"]), bc_type=frm["bc"], order=frm["order"], geometry=geom())
    # the wrap-multiplicity variant of the periodic operator is the one of the field's own density (as in facet 1b)
    try:
        d0 = build()
        with quiet():
            P_own = own_precision(lambda x: float(np.ravel(d0.logpdf(x))[0]), np.array(frm["mean"], dtype=float), dim)
    except Exception:
        skip.add((key0, frm["wm"]))
        return 0
    P1 = float(frm["delta"]) * fmat(frm["P0"])
    if not np.allclose(P_own, P1, rtol=1e-9, atol=1e-9 * max(1.0, np.abs(P1).max())):
        skip.add((key0, frm["wm"]))
        return 0
    tol = 1e-9 if frm["bc"] == "zero" else 1e-6
    nseq = 0
    for mode, m in _re_sequences(rc, seen, ("gmrf", key0, frm["wm"])):
        dist = build()
        if mode != "cold":
            _re_warm(dist, np.array(frm["mean"], dtype=float) + 0.5)
        for i, t in enumerate(rc["trail"][:m]):
            exp = _re_step(rc, t)
            name = t["assign"][0]
            try:
                setattr(dist, name, np.array(exp["mean"], dtype=float) if name == "mean" else float(exp["delta"]))
            except Exception as e:
                _re_refused(ctx, "GMRF.%s" % name, e)
                break
            if mode == "each" or i == m - 1:
                tag = _re_tag(mode, rc, i + 1)
                key = gmrf_key(exp)
                mean = np.array(exp["mean"], dtype=float)
                P = float(exp["delta"]) * fmat(exp["P0"])
                ctx.case(("gmrf", key, tag), facet="affine_gmrf_reassign")
                with quiet():
                    P_now = own_precision(lambda x: float(np.ravel(dist.logpdf(x))[0]), mean, dim)
                if not np.allclose(P_now, P, rtol=1e-9, atol=1e-9 * max(1.0, np.abs(P).max())):
                    ctx.mismatch("density/" + key + tag, exp, "quadratic form of the field's own log-density is not delta D^T D "
                                 "of its current precision parameter", P, P_now)
                    P = P_now                   # judge the sampler against the object's own density
                for N in (2,):
                    for use_global in ((False, True) if mode == "each" else (False,)):
                        sg = key + "/N=%d" % N + tag + ("/rng=none" if use_global else "")
                        try:
                            got = read_affine(ctx, sg, exp, dist, N, tol=tol, use_global=use_global)
                        except NotImplementedError:
                            got = None
                        if got is not None:
                            check_law(ctx, sg, exp, mean, P, exp["rank"] == dim, got, tol)
        else:
            nseq += 1
    return nseq


def run_reassign(ctx, cases):
    seen, skip, n = set(), set(), 0
    per = {}
    for rc in sorted(cases, key=lambda c: json.dumps([c["sub"], c["from"], c["order"]], sort_keys=True)):
        sub = rc["sub"]
        k = reassign_wiring(ctx, rc, seen) if sub == "wiring" else reassign_gauss(ctx, rc, seen) if sub == "gauss" else reassign_gmrf(ctx, rc, seen, skip)
        per[sub] = per.get(sub, 0) + k
        n += k
    for sub in ("wiring", "gauss", "gmrf"):
        if not per.get(sub):
            machinery("vacuous: no Reassign behaviour of kind %s was replayed" % sub)
    ctx.observations["reassign_sequences_replayed"] = per
    return n


# ----------------------------------------------------------------------------------------------- facet 5 (Siblings)
class SigProxy:
    """Run context seen by the facet-1 / facet-2 observers while they work for the Siblings facet: mismatch signatures become
    siblings/<signature of the observer><suffix naming the walk>, cases are counted under the facet."""

    def __init__(self, ctx, suffix, facet, label):
        self._ctx, self._suffix, self._facet, self._label = ctx, suffix, facet, label

    def mismatch(self, signature, case, what, expected=None, observed=None, detail=None):
        return self._ctx.mismatch("siblings/" + signature + self._suffix, case, what, expected, observed, detail)

    def case(self, key, nontrivial=True, facet=None):
        return self._ctx.case(("siblings", self._label, self._suffix, key), nontrivial, self._facet)

    def __getattr__(self, name):
        return getattr(self._ctx, name)


def _lam(name):
    return eval("lambda c_%s: c_%s" % (name, name))


def walk_id(ops):
    return ".".join({"condition": "c", "sample": "s", "original": ""}[o["op"]] + o["who"] for o in ops)


SIB_CANONICAL = "cA.cB.sA.O.sB.sA"      # sample A, use the original, sample B, sample A again - both copies alive throughout


def _sib_observe(ctx, what, label, e=None):
    ob = ctx.observations.setdefault(what, {})
    ob[label] = ob.get(label, 0) + 1
    if e is not None:
        ctx.observations.setdefault(what + "_example", "%s: %s" % (label, repr(e)[:160]))


def sib_original(ctx, O, label, dim):
    """the unconditioned original is used while its conditioned copies are alive: sampling must be refused (observed if it is
    not: facet 3 judges that), its conditioning variables are listed, a density evaluation is attempted"""
    try:
        with quiet():
            O.sample(2, rng=np.random.RandomState(3))
        _sib_observe(ctx, "siblings_original_was_sampled", label)
    except Exception:
        _sib_observe(ctx, "siblings_original_refused_to_sample", label.split("/")[0])
    for f in (lambda: O.get_conditioning_variables(), lambda: O.logd(np.zeros(dim)), lambda: O.dim):
        try:
            with quiet():
                f()
        except Exception:
            pass


class SibWiring:
    sub = "wiring"

    def __init__(self, rc, n):
        self.rc, self.n = rc, n
        self.cfg = {"A": rc["from"], "B": rc["trail"][n - 1]["expect"]}
        self.names = [t["assign"][0] for t in rc["trail"][:n]]
        self.family = rc["from"]["family"]
        self.label = "%s/cond=%s" % (wiring_sig(rc["from"]), "+".join(sorted(self.names)))
        self.dim = rc["from"]["dim"]

    def formats(self):
        return [None]

    @staticmethod
    def _val(c, name):
        q = [x for x in c["params"] if x["name"] == name][0]
        v = fvec(q["val"])
        return float(v[0]) if q["passed"] == "scalar" else v

    def build(self, fmt):
        import cuqi
        frm = self.cfg["A"]
        args = {q["name"]: (_lam(q["name"]) if q["name"] in self.names else self._val(frm, q["name"])) for q in frm["params"]}
        return getattr(cuqi.distribution, self.family)(**args, geometry=self.dim)

    def condition(self, O, w, fmt):
        return O(**{"c_" + nm: self._val(self.cfg[w], nm) for nm in self.names})

    def case(self, w, walk, fmt):
        return dict(self.cfg[w], kind="siblings_step", sib={"sub": "wiring", "rc": self.rc, "n": self.n, "walk": walk, "fmt": fmt})

    def sample(self, p, obj, w, case, fmt, k):
        run_wiring(p, case, dist=obj)
        if k != 2:
            run_wiring(p, case, use_global=True, dist=obj)

    def final(self, p, obj, w, case, fmt):
        pass

    def probe(self, obj, w):
        pass


class SibGauss:
    sub = "gauss"

    def __init__(self, rc, n):
        self.rc, self.n = rc, n
        self.cfg = {"A": rc["from"], "B": rc["trail"][n - 1]["expect"]}
        self.names = [t["assign"][0] for t in rc["trail"][:n]]
        frm = rc["from"]
        self.dim = frm["dim"]
        self.attr = "cov" if frm["wrap"] == "lognormal" else frm["form"]
        self.family = "Lognormal" if frm["wrap"] == "lognormal" else "Gaussian"
        self.label = "%s/cond=%s" % (gauss_sig(frm), "+".join(sorted(self.names)))

    def formats(self):
        frm = self.cfg["A"]
        if frm["wrap"] == "lognormal" and frm["mform"] == "scalar" and frm["shape"] == "scalar" and self.dim > 1:
            return []
        return [g[0] for g in gauss_inputs(frm)]

    def _inp(self, w, fmt):
        return [g for g in gauss_inputs(self.cfg[w]) if g[0] == fmt][0]

    def build(self, fmt):
        import cuqi
        _, mean_arg, data, kw = self._inp("A", fmt)
        mean_p = _lam("mean") if "mean" in self.names else mean_arg
        mat_p = _lam(self.attr) if self.attr in self.names else data
        if self.family == "Lognormal":
            return cuqi.distribution.Lognormal(mean_p, mat_p, geometry=self.dim)
        return cuqi.distribution.Gaussian(mean=mean_p, **{self.attr: mat_p}, geometry=self.dim)

    def condition(self, O, w, fmt):
        _, mean_arg, data, kw = self._inp(w, fmt)
        vals = {}
        if "mean" in self.names:
            vals["c_mean"] = mean_arg
        if self.attr in self.names:
            vals["c_" + self.attr] = data
        return O(**vals)

    def case(self, w, walk, fmt):
        return dict(self.cfg[w], kind="siblings_step", sib={"sub": "gauss", "rc": self.rc, "n": self.n, "walk": walk, "fmt": fmt})

    def sample(self, p, obj, w, case, fmt, k):
        p.case(("gauss", gauss_sig(case, fmt=fmt)))
        observe_gauss(p, case, obj, fmt, (2,), globals_too=(k == 3), density=False)

    def final(self, p, obj, w, case, fmt):
        gauss_density(p, case, obj, gauss_sig(case, fmt=fmt))

    def probe(self, obj, w):
        m = fvec(self.cfg[w]["mean"])
        obj.logpdf(np.exp(m)) if self.family == "Lognormal" else gaussian_logdens(obj)(m)


class SibGmrf:
    sub = "gmrf"

    def __init__(self, rc, n):
        self.rc, self.n = rc, n
        self.cfg = {"A": rc["from"], "B": rc["trail"][n - 1]["expect"]}
        self.names = [t["assign"][0] for t in rc["trail"][:n]]
        frm = rc["from"]
        self.dim = frm["dim"]
        self.family = "GMRF"
        self.label = "%s/cond=%s" % (gmrf_key(frm), "+".join(sorted(self.names)))
        self.tol = 1e-9 if frm["bc"] == "zero" else 1e-6

    def formats(self):
        return [None]

    def _geom(self):
        import cuqi
        frm = self.cfg["A"]
        return cuqi.geometry.Continuous1D(frm["n"]) if frm["pd"] == 1 else cuqi.geometry.Image2D((frm["n"], frm["n"]))

    def build(self, fmt):
        import cuqi
        frm = self.cfg["A"]
        mean_p = _lam("mean") if "mean" in self.names else np.array(frm["mean"], dtype=float)
        prec_p = _lam("prec") if "prec" in self.names else float(frm["delta"])
        return cuqi.distribution.GMRF(mean_p, prec_p, bc_type=frm["bc"], order=frm["order"], geometry=self._geom())

    def condition(self, O, w, fmt):
        c = self.cfg[w]
        vals = {}
        if "mean" in self.names:
            vals["c_mean"] = np.array(c["mean"], dtype=float)
        if "prec" in self.names:
            vals["c_prec"] = float(c["delta"])
        return O(**vals)

    def case(self, w, walk, fmt):
        return dict(self.cfg[w], kind="siblings_step", sib={"sub": "gmrf", "rc": self.rc, "n": self.n, "walk": walk, "fmt": fmt})

    def sample(self, p, obj, w, case, fmt, k):
        key = gmrf_key(case)
        mean = np.array(case["mean"], dtype=float)
        P = float(case["delta"]) * fmat(case["P0"])
        p.case(("gmrf", key))
        for use_global in ((False, True) if k == 3 else (False,)):
            sg = key + "/N=2" + ("/rng=none" if use_global else "")
            try:
                got = read_affine(p, sg, case, obj, 2, tol=self.tol, use_global=use_global)
            except NotImplementedError:
                got = None
            if got is not None:
                check_law(p, sg, case, mean, P, case["rank"] == self.dim, got, self.tol)

    def probe(self, obj, w):
        obj.logpdf(np.array(self.cfg[w]["mean"], dtype=float))

    def final(self, p, obj, w, case, fmt):
        mean = np.array(case["mean"], dtype=float)
        P = float(case["delta"]) * fmat(case["P0"])
        with quiet():
            P_now = own_precision(lambda x: float(np.ravel(obj.logpdf(x))[0]), mean, self.dim)
        if not np.allclose(P_now, P, rtol=1e-9, atol=1e-9 * max(1.0, np.abs(P).max())):
            p.mismatch("density/" + gmrf_key(case), case, "quadratic form of the field's own log-density is not delta D^T D of the "
                       "precision it was conditioned on", P, P_now)


def sib_walk(ctx, ad, fmt, ops, probed=None):
    """One behaviour of facet 5 on real objects: ONE conditional object, conditioned copies A and B kept alive, samples in the
    order of the walk; every draw is judged against the specification's case of the sampled copy's OWN configuration.
    Returns True when the walk was carried out (False: the library refused the conditional construction - observed)."""
    wid = walk_id(ops)
    order = "".join(o["who"] for o in ops if o["op"] == "sample")
    label = ad.label + ("/fmt=%s" % fmt if fmt else "")
    try:
        with quiet():
            O = ad.build(fmt)
    except Exception as e:
        _sib_observe(ctx, "siblings_conditional_construction_refused", "%s/cond=%s" % (ad.family, "+".join(sorted(ad.names))), e)
        return False
    # is this conditional construction supported at all?  Each configuration ALONE (own original, no sibling alive): a refusal
    # here is an observation; once both work alone, every failure during the walk is a mismatch
    for w in (("A", "B") if probed is None or (ad.label, fmt) not in probed else ()):
        try:
            with quiet():
                X = ad.condition(ad.build(fmt), w, fmt)
                X.sample(2, rng=np.random.RandomState(1))
                ad.probe(X, w)
        except Exception as e:
            _sib_observe(ctx, "siblings_unsupported_when_alone", "%s/cond=%s" % (ad.family, "+".join(sorted(ad.names))), e)
            return False
    if probed is not None:
        probed.add((ad.label, fmt))
    live, k = {}, 0
    for o in ops:
        w = o["who"]
        if o["op"] == "condition":
            try:
                with quiet():
                    live[w] = ad.condition(O, w, fmt)
            except Exception as e:
                _sib_observe(ctx, "siblings_conditioning_refused", "%s/cond=%s" % (ad.family, "+".join(sorted(ad.names))), e)
                return False
        elif o["op"] == "original":
            sib_original(ctx, O, label, ad.dim)
        else:
            k += 1
            p = SigProxy(ctx, "/order=%s/walk=%s/at=%d%s/cond=%s" % (order, wid, k, w, "+".join(sorted(ad.names))), "siblings_" + ad.sub, label)
            ad.sample(p, live[w], w, ad.case(w, ops, fmt), fmt, k)
    for w in sorted(live):
        p = SigProxy(ctx, "/order=%s/walk=%s/at=end%s/cond=%s" % (order, wid, w, "+".join(sorted(ad.names))), "siblings_" + ad.sub, label)
        try:
            ad.final(p, live[w], w, ad.case(w, ops, fmt), fmt)
        except Exception as e:
            p.mismatch("density_raises/" + label, ad.case(w, ops, fmt), "the density of a conditioned copy, which can be evaluated when the "
                       "copy is alone, raises after the walk: %r" % (e,))
    return True


def _sib_adapter(sub, rc, n):
    return {"wiring": SibWiring, "gauss": SibGauss, "gmrf": SibGmrf}[sub](rc, n)


def run_siblings(ctx, recases, walks, extra, gauss_stride=1):
    """recases: the Reassign cases of TLC (pairs of configurations); walks: the behaviours of facet 5; extra: number of walks
    replayed per pair besides the canonical one (rotating through all emitted walks; Gaussian pairs: every gauss_stride-th
    (pair, storage format) only)."""
    by_id = {}
    for wk in walks:
        by_id[walk_id(wk["ops"])] = wk["ops"]
    ids = sorted(by_id)
    canon = [i for i in ids if i == SIB_CANONICAL or i.startswith(SIB_CANONICAL + ".")]     # (longer walks: the first continuation)
    if not canon:
        machinery("facet 5: TLC did not emit a walk beginning with %s" % SIB_CANONICAL)
    canon = canon[0]
    seen, skip = set(), set()
    done = {}
    fams = {}
    used = set()
    probed = set()
    rot = npair = 0
    with min_dim_sparse(2):
        for rc in sorted(recases, key=lambda c: json.dumps([c["sub"], c["from"], c["order"]], sort_keys=True)):
            sub = rc["sub"]
            if sub == "gmrf":
                st = _gmrf_variant_ok(rc["from"], skip)
                if not st:
                    continue
            for n in range(1, len(rc["trail"]) + 1):
                ad = _sib_adapter(sub, rc, n)
                pk = (sub, ad.label)
                if pk in seen:
                    continue
                seen.add(pk)
                for fmt in ad.formats():
                    chosen = [canon]
                    npair += 1
                    for _ in range(extra if (sub != "gauss" or npair % gauss_stride == 0) else 0):
                        chosen.append(ids[rot % len(ids)])
                        rot += 1
                    for wid in dict.fromkeys(chosen):
                        if sib_walk(ctx, ad, fmt, by_id[wid], probed):
                            done[sub] = done.get(sub, 0) + 1
                            fams.setdefault(ad.family, set()).add("replayed")
                            used.add(wid)
                        else:
                            fams.setdefault(ad.family, set()).add("refused")
    for sub in ("wiring", "gauss", "gmrf"):
        if not done.get(sub):
            machinery("vacuous: no Siblings behaviour of kind %s was replayed" % sub)
    need = {"Gaussian", "Lognormal", "GMRF"} | {rc["from"]["family"] for rc in recases if rc["sub"] == "wiring"}
    for f in sorted(need):
        if not fams.get(f):
            machinery("vacuous: family %s was neither replayed nor observed as refusing in the Siblings facet" % f)
    ctx.observations["siblings_walks_replayed"] = done
    ctx.observations["siblings_distinct_walks_used"] = "%d of %d emitted" % (len(used), len(ids))
    ctx.observations["siblings_canonical_walk"] = canon
    ctx.observations["siblings_families"] = {f: "+".join(sorted(v)) for f, v in sorted(fams.items())}
    return sum(done.values())


def _gmrf_variant_ok(frm, skip):
    """is this wrap-multiplicity variant of the periodic operator the one of the field's own density (as in facet 1b)?"""
    import cuqi
    key0 = gmrf_key(frm)
    if (key0, frm["wm"]) in skip:
        return False
    n, dim = frm["n"], frm["dim"]
    try:
        with quiet():
            geom = cuqi.geometry.Continuous1D(n) if frm["pd"] == 1 else cuqi.geometry.Image2D((n, n))
            d0 = cuqi.distribution.GMRF(np.array(frm["mean"], dtype=float), float(frm["delta"]), bc_type=frm["bc"], order=frm["order"], geometry=geom)
            P_own = own_precision(lambda x: float(np.ravel(d0.logpdf(x))[0]), np.array(frm["mean"], dtype=float), dim)
    except Exception:
        skip.add((key0, frm["wm"]))
        return False
    P1 = float(frm["delta"]) * fmat(frm["P0"])
    if not np.allclose(P_own, P1, rtol=1e-9, atol=1e-9 * max(1.0, np.abs(P1).max())):
        skip.add((key0, frm["wm"]))
        return False
    return True


# ----------------------------------------------------------------------------------------------- facet 6 (FirstObservable)
FO_LETTER = {"sample": "S", "logpdf": "L", "gradient": "G"}
FO_ALWAYS = ("A.S.A.S",)                                   # sample FIRST after every assignment
FO_ROTATE = ("L.A.S", "S.A.S", "G.A.S", "A.G.S", "A.A.S", "A.S.L.S")


def fo_id(ops):
    return ".".join("A" if o["op"] == "assign" else FO_LETTER[o["obs"]] for o in ops)


class FoWiring:
    sub = "wiring"

    def __init__(self, rc):
        self.rc, self.frm = rc, rc["from"]
        self.family = self.frm["family"]
        self.key = ("wiring", wiring_sig(self.frm))

    def formats(self):
        return [None]

    def build(self, fmt):
        return build_family(self.frm)

    def assign(self, dist, fmt, t, exp):
        name = t["assign"][0]
        p = [q for q in exp["params"] if q["name"] == name][0]
        v = fvec(p["val"])
        setattr(dist, name, float(v[0]) if p["passed"] == "scalar" else v)
        return name

    def point(self, exp):
        return np.full(self.frm["dim"], 0.5)

    def sample(self, ctx, dist, fmt, exp, tag, last):
        run_wiring(ctx, exp, dist=dist, tag=tag)
        if last:
            run_wiring(ctx, exp, use_global=True, dist=dist, tag=tag)


class FoGauss:
    sub = "gauss"

    def __init__(self, rc):
        self.rc, self.frm = rc, rc["from"]
        self.family = "Lognormal" if self.frm["wrap"] == "lognormal" else "Gaussian"
        self.key = ("gauss", gauss_sig(self.frm))

    def formats(self):
        frm = self.frm
        if frm["wrap"] == "lognormal" and frm["mform"] == "scalar" and frm["shape"] == "scalar" and frm["dim"] > 1:
            return []
        return [g[0] for g in gauss_inputs(frm)]

    def build(self, fmt):
        g = [g for g in gauss_inputs(self.frm) if g[0] == fmt][0]
        return build_gauss(self.frm, g[1], g[2], g[3])

    def assign(self, dist, fmt, t, exp):
        name = t["assign"][0]
        new = [g for g in gauss_inputs(exp) if g[0] == fmt][0]
        setattr(dist, name, new[1] if name == "mean" else new[2])
        return name

    def point(self, exp):
        m = fvec(exp["mean"])
        return np.exp(m + 0.25) if exp["wrap"] == "lognormal" else m + 0.25      # (inside the support: the inner density is reached)

    def sample(self, ctx, dist, fmt, exp, tag, last):
        # the sampling path alone, judged against the specification's precision: no density is evaluated here
        observe_gauss(ctx, exp, dist, fmt, (2,), tag=tag, globals_too=last, density=False)


class FoGmrf:
    sub = "gmrf"

    def __init__(self, rc):
        self.rc, self.frm = rc, rc["from"]
        self.family = "GMRF"
        self.key = ("gmrf", gmrf_key(self.frm), self.frm["wm"])

    def formats(self):
        return [None]

    def build(self, fmt):
        import cuqi
        frm = self.frm
        n = frm["n"]
        geom = cuqi.geometry.Continuous1D(n) if frm["pd"] == 1 else cuqi.geometry.Image2D((n, n))
        return cuqi.distribution.GMRF(np.array(frm["mean"], dtype=float), float(frm["delta"]), bc_type=frm["bc"], order=frm["order"], geometry=geom)

    def assign(self, dist, fmt, t, exp):
        name = t["assign"][0]
        setattr(dist, name, np.array(exp["mean"], dtype=float) if name == "mean" else float(exp["delta"]))
        return name

    def point(self, exp):
        return np.array(exp["mean"], dtype=float) + 0.5

    def sample(self, ctx, dist, fmt, exp, tag, last):
        key = gmrf_key(exp)
        mean = np.array(exp["mean"], dtype=float)
        P = float(exp["delta"]) * fmat(exp["P0"])
        tol = 1e-9 if exp["bc"] == "zero" else 1e-6
        ctx.case(("gmrf", key, tag), facet="affine_gmrf_firstobs")
        sg = key + "/N=2" + tag
        try:
            got = read_affine(ctx, sg, exp, dist, 2, tol=tol)
        except NotImplementedError:
            got = None
        if got is not None:
            check_law(ctx, sg, exp, mean, P, exp["rank"] == exp["dim"], got, tol)


def fo_walk(ctx, ad, fmt, ops):
    """one behaviour of facet 6 on ONE real object of the Reassign case ad.rc: k-th assign = trail[k]; every `sample` is judged by the
    observer of facet 1 / 2 against the case expected after the assignments made so far; logpdf / gradient are only CALLED (their
    values are judged elsewhere) - they are the observables that may come first."""
    rc = ad.rc
    if sum(1 for o in ops if o["op"] == "assign") > len(rc["trail"]):
        return False
    wid = fo_id(ops)
    try:
        with quiet():
            dist = ad.build(fmt)
    except Exception:
        return False                                # reported by facet 1 / 2
    done, names = 0, []
    nsamp = sum(1 for o in ops if o["op"] == "observe" and o["obs"] == "sample")
    ksamp = 0
    for k, o in enumerate(ops):
        exp = dict(rc["trail"][done - 1]["expect"] if done else rc["from"], kind="firstobs_step", fo={"rc": rc, "ops": ops, "fmt": fmt})
        if o["op"] == "assign":
            t = rc["trail"][done]
            try:
                with quiet():
                    names.append(ad.assign(dist, fmt, t, t["expect"]))
            except Exception as e:
                _re_refused(ctx, "%s.%s" % (ad.family, t["assign"][0]), e)
                return False
            done += 1
            continue
        if o["obs"] == "sample":
            ksamp += 1
            tag = "/firstobs=%s/at=%d/assigned=%s" % (wid, k + 1, "+".join(names) or "none")
            ad.sample(ctx, dist, fmt, exp, tag, ksamp == nsamp)
        else:
            x = ad.point(exp)
            with quiet(), np.errstate(all="ignore"):
                try:
                    dist.logpdf(x) if o["obs"] == "logpdf" else dist.gradient(x)
                except Exception:                   # not every family offers a gradient: a refusal is not judged here
                    pass
    return True


def run_firstobs(ctx, recases, walks, thorough):
    by_id = {fo_id(w["ops"]): w["ops"] for w in walks}
    for wid in FO_ALWAYS + FO_ROTATE:
        if wid not in by_id:
            machinery("facet 6: TLC did not emit the behaviour %s" % wid)
    ids = sorted(by_id)
    seen, skip, done, used, fams = set(), set(), {}, set(), {}
    rot = 0
    with min_dim_sparse(2):
        for rc in sorted(recases, key=lambda c: json.dumps([c["sub"], c["from"], c["order"]], sort_keys=True)):
            sub = rc["sub"]
            if sub == "gmrf" and not _gmrf_variant_ok(rc["from"], skip):
                continue
            ad = {"wiring": FoWiring, "gauss": FoGauss, "gmrf": FoGmrf}[sub](rc)
            fmts = ad.formats()
            if not fmts:
                continue
            for fmt in (fmts if thorough else [fmts[rot % len(fmts)]]):
                chosen = list(FO_ALWAYS) + [FO_ROTATE[rot % len(FO_ROTATE)], ids[rot % len(ids)]] + ([ids[(rot * 7 + 3) % len(ids)]] if thorough else [])
                rot += 1
                for wid in dict.fromkeys(chosen):
                    k = (ad.key, fmt, tuple(rc["order"]), wid)
                    if k in seen:
                        continue
                    seen.add(k)
                    if fo_walk(ctx, ad, fmt, by_id[wid]):
                        done[sub] = done.get(sub, 0) + 1
                        used.add(wid)
                        fams[ad.family] = fams.get(ad.family, 0) + 1
    for sub in ("wiring", "gauss", "gmrf"):
        if not done.get(sub):
            machinery("vacuous: no FirstObservable behaviour of kind %s was replayed" % sub)
    for f in ("Gaussian", "Lognormal", "GMRF"):
        if not fams.get(f):
            machinery("vacuous: no FirstObservable behaviour on a %s object" % f)
    ctx.observations["firstobs"] = {"walks_replayed": done, "per_family": fams, "distinct_walks_used": "%d of %d emitted" % (len(used), len(ids))}
    return sum(done.values())


# ----------------------------------------------------------------------------------------------- facet 7 (Counts)
COUNT_LARGE = 900       # "large" N for the vacuity guard: above every small-N facet, around / above the block sizes of the spec


def _count_small(x):
    """big arrays of a mismatch record -> shape and first columns (the evidence names the bad columns separately)"""
    if isinstance(x, dict):
        return {k: _count_small(v) for k, v in x.items()}
    if isinstance(x, np.ndarray) and x.size > 64:
        return {"shape": list(x.shape), "first_columns": x[..., :4] if x.ndim == 2 else x[:8]}
    return x


class CountProxy:
    """Run context seen by the facet-1 / facet-2 observers while they work for the Counts facet: signatures become
    counts/<signature of the observer>, the stored case is the compact emitted case, big arrays are summarised.
    silent: mismatches are only collected (the small-N read-off that establishes the object's own mean and L repeats what
    facet 1 judges and reports on the same configuration)."""

    def __init__(self, ctx, case, sub, silent=False):
        self._ctx, self._case, self._sub, self._silent = ctx, case, sub, silent
        self.failed = []

    def mismatch(self, signature, case, what, expected=None, observed=None, detail=None):
        if self._silent:
            self.failed.append(signature)
            return False
        return self._ctx.mismatch("counts/" + signature, self._case, what, _count_small(expected), _count_small(observed), detail)

    def case(self, key, nontrivial=True, facet=None):
        return self._ctx.case(("counts", key), nontrivial, "counts_" + self._sub)

    def __getattr__(self, name):
        return getattr(self._ctx, name)


def count_weights(cc):
    """weights w_j of the scripted noise columns j = 1..N by the rule the specification emits (CountWNum / CountWDen); the
    emitted probe values tie this vectorised copy of the rule to the specification's."""
    nz, N = cc["noise"], cc["N"]
    j = np.arange(1, N + 1)
    num = np.where(j % nz["zmod"] == nz["zres"], 0, np.where(j % 2 == 0, -1, 1) * (nz["den"] + j))
    for jj, nn in nz["probe"]:
        if not (1 <= jj <= N) or int(num[jj - 1]) != int(nn):
            machinery("facet 7: the replay's weight rule disagrees with the specification at column %r (%r)" % (jj, nn))
    nzw = num[num != 0]
    if len(set(nzw.tolist())) != len(nzw):
        machinery("facet 7: noise weights not pairwise distinct")
    return num / float(nz["den"])


def count_identity(cc):
    """the expected column map of the specification must be the identity on 1..N (the only map the replay knows to judge)"""
    N = cc["N"]
    src = np.zeros(N, dtype=int)
    for seg in cc["colmap"]:
        if seg["src"] == "own":
            src[seg["lo"] - 1:seg["hi"]] = np.arange(seg["lo"], seg["hi"] + 1)
    if not np.array_equal(src, np.arange(1, N + 1)):
        machinery("facet 7: the specification emitted a column map that is not the identity for N=%d: %r" % (N, cc["colmap"]))


def count_affine(ctx, ccs, dist, sig0, sub, label, transform, tol, done, prec=None):
    """Gaussian-type object x every emitted N x generator given / none.  The object's OWN mean and L are read off with N = 3
    (unit-vector draws, exactly the observation of facet 1, which judges them against the precision); then per N ONE call with
    all noise zero and ONE call with noise column j = w_j e_((j-1) mod M): column j of the result must be mean + w_j L[:, (j-1) mod M]."""
    from cuqiverif.script_rng import ScriptError
    from cuqiverif.core import MachineryError
    for use_global in (False, True):
        mode = "/rng=none" if use_global else ""
        silent = CountProxy(ctx, ccs[0], sub, silent=True)
        try:
            got = read_affine(silent, sig0 + "/N=3" + mode, ccs[0], dist, 3, transform, tol=tol, use_global=use_global)
        except NotImplementedError as e:
            ctx.observations.setdefault("counts_sampling_not_implemented", {})[sig0] = str(e)[:100]
            return
        if got is None:
            ctx.observations.setdefault("counts_skipped_small_N_readoff_failed", {})[sig0 + mode] = silent.failed[:2]
            continue
        mean_obs, L = got
        M = L.shape[1]
        for cc in sorted(ccs, key=lambda x: x["N"]):
            N = cc["N"]
            count_identity(cc)
            w = count_weights(cc)
            sg = sig0 + "/N=%d" % N + mode
            ctx.case(("counts", sg), facet="counts_" + sub)
            ro = ReadOff(dist, N, transform, use_global)

            def call(blocks):
                try:
                    return ro.call(blocks)
                except (NotImplementedError, ScriptError, MachineryError):
                    raise
                except Exception as e:
                    ctx.mismatch("counts/sample_raises/" + sg, cc, "sample(%d%s) raises: %r" % (N, "" if use_global else ", rng=generator", e))
                    return None
            r0 = call(None)
            if r0 is None:
                continue
            s0, reqs = r0
            if N >= COUNT_LARGE:
                done[label] = done.get(label, 0) + 1
            if not check_return(ctx, "counts/return_shape/" + sg, cc, dist, s0, N):
                continue
            if sum(m for m, _ in reqs) != M:
                machinery("facet 7: the sampler requests %r normal rows for N=%d and %d for N=3 (%s)" % ([m for m, _ in reqs], N, M, sg))
            S0 = ro.matrix(s0)
            idx = (np.arange(N) % M)
            Z = np.zeros((M, N))
            Z[idx, np.arange(N)] = w
            blocks, k = [], 0
            for m, _ in reqs:
                blocks.append(Z[k:k + m, :])
                k += m
            r1 = call(blocks)
            if r1 is None:
                continue
            S = ro.matrix(r1[0])
            if S is None or r1[1] != reqs:
                ctx.mismatch("counts/return_shape/" + sg, cc, "sample output has not dim x N entries / requests depend on the values", None, np.shape(r1[0]))
                continue
            exp0 = mean_obs[:, None] + np.zeros((1, N))
            exp = mean_obs[:, None] + L[:, idx] * w[None, :]
            for name, got_, want in (("all noise zero", S0, exp0), ("noise column j = w_j e_((j-1) mod M)", S, exp)):
                bad = _count_bad_columns(got_, want, tol)
                if not bad.size:
                    continue
                if got_ is S and _count_other_root(ctx, cc, dist, S, mean_obs, L, w, idx, transform, tol, use_global, prec):
                    # mean + L_N x noise with ANOTHER square root L_N of the same covariance L L^T: the same distribution
                    ctx.observations.setdefault("counts_other_square_root_at_this_N", {})[sg] = True
                    continue
                j0 = int(bad[0])
                ctx.mismatch("counts/columns/" + sg, cc,
                             "%d of %d columns of sample(%d) are not mean + L x (their own noise column) [%s]: columns (1-based) %s%s"
                             % (bad.size, N, N, name, (bad[:8] + 1).tolist(), " ... %d" % (bad[-1] + 1) if bad.size > 8 else ""),
                             expected={"column": j0 + 1, "weight": float(w[j0]), "noise_row": int(idx[j0]) + 1, "value": want[:, j0]},
                             observed={"column": j0 + 1, "value": got_[:, j0], "bad_columns": int(bad.size),
                                       "first_bad": int(bad[0]) + 1, "last_bad": int(bad[-1]) + 1})
                break


def _count_bad_columns(got, want, tol):
    with np.errstate(invalid="ignore"):
        lim = tol * max(1.0, np.abs(want).max()) + tol * np.abs(want)
        badm = ~(np.abs(got - want) <= lim)           # (NaN counts as bad)
    return np.where(badm.any(axis=0))[0]


def _count_other_root(ctx, cc, dist, S, mean_obs, L, w, idx, transform, tol, use_global, prec=None):
    """Soundness: an implementation may use another square root of the same covariance for another N (e.g. its N = 1 branch).
    True iff S = mean + L_N x noise column by column for ONE matrix L_N with L_N L_N^T = L L^T (prec: callable returning the
    precision P of the object's own density when that may be singular - then P L_N L_N^T P = P L L^T P, the covariances agree on
    the range of P).  L_N is taken from the first non-zero column of every noise row (at least one more column of that row must
    then agree); for N <= 5 from a read-off at N."""
    M, N = L.shape[1], len(w)
    if N <= 5:
        silent = CountProxy(ctx, cc, cc["sub"], silent=True)
        try:
            got = read_affine(silent, "other_root", cc, dist, N, transform, tol=tol, use_global=use_global)
        except NotImplementedError:
            return False
        if got is None:
            return False
        LN = got[1]
        if LN.shape != L.shape:
            return False
    else:
        LN = np.zeros_like(L)
        for k in range(M):
            cols = np.where((idx == k) & (w != 0))[0]
            if cols.size < 2:
                return False
            LN[:, k] = (S[:, cols[0]] - mean_obs) / w[cols[0]]
    if _count_bad_columns(S, mean_obs[:, None] + LN[:, idx] * w[None, :], tol).size:
        return False
    C, CN = L @ L.T, LN @ LN.T
    if prec is not None:
        with quiet():
            P = prec()
        C, CN = P @ C @ P, P @ CN @ P
    return bool(np.all(np.abs(CN - C) <= 10 * tol * max(1.0, np.abs(C).max())))


def count_wiring_full(cc):
    """compact wiring table of the specification (token rule, per-component affine post-map) -> the complete case of facet 2"""
    rep = cc["rep"]
    N, dim = rep["N"], rep["dim"]
    if N != cc["N"] or rep["rows"] != N or rep["cols"] != dim:
        machinery("facet 7: inconsistent wiring case emitted")
    j = np.arange(1, N + 1, dtype=float)[:, None]
    i = np.arange(1, dim + 1, dtype=float)[None, :]
    Z = (rep["tok"]["mul"] * j + i) / float(rep["tok"]["den"])            # (N, dim): draw j, component i
    a = np.array([fr(p[0]) for p in rep["post"]])
    b = np.array([fr(p[1]) for p in rep["post"]])
    return dict(rep, Z=Z.tolist(), result=(a[:, None] + b[:, None] * Z.T).tolist())


def count_rep_sig(cc):
    rep = cc["rep"]
    if cc["sub"] == "gauss":
        return gauss_sig(rep)
    if cc["sub"] == "gmrf":
        return gmrf_key(rep)
    return "%s/dim=%d/pform=%s/lat=%d" % (rep["family"], rep["dim"], rep["pform"], rep["lat"])


def run_counts(ctx, ccases, guard=True):
    """Facet 7: every emitted (representative, N): Gaussian-type objects by the affine column read-off against the object's own
    mean and L, univariate families by the wiring table; generator given and none."""
    import cuqi
    groups = {}
    for cc in ccases:
        groups.setdefault((cc["sub"], count_rep_sig(cc)), []).append(cc)
    done = {}
    for (sub, sig0) in sorted(groups):
        ccs = groups[(sub, sig0)]
        rep = ccs[0]["rep"]
        if sub == "gauss":
            if rep["wrap"] == "lognormal" and rep["mform"] == "scalar" and rep["shape"] == "scalar" and rep["dim"] > 1:
                continue
            label = "Lognormal" if rep["wrap"] == "lognormal" else "Gaussian/%s/%s" % (rep["form"], rep["shape"])
            with min_dim_sparse(2):
                for fmt, mean_arg, data, kw in gauss_inputs(rep):
                    try:
                        with quiet():
                            dist = build_gauss(rep, mean_arg, data, kw)
                    except Exception:
                        continue                # reported by facet 1
                    count_affine(ctx, ccs, dist, gauss_sig(rep, fmt=fmt), sub, label, np.log if rep["wrap"] == "lognormal" else None, 1e-9, done)
        elif sub == "gmrf":
            n = rep["n"]
            geom = cuqi.geometry.Continuous1D(n) if rep["pd"] == 1 else cuqi.geometry.Image2D((n, n))
            try:
                with quiet():
                    dist = cuqi.distribution.GMRF(np.array(rep["mean"], dtype=float), float(rep["delta"]), bc_type=rep["bc"], order=rep["order"], geometry=geom)
            except Exception:
                continue                        # reported by facet 1
            label = "GMRF/pd=%d/%s/order=%d" % (rep["pd"], rep["bc"], rep["order"])
            count_affine(ctx, ccs, dist, sig0, sub, label, None, 1e-9 if rep["bc"] == "zero" else 1e-6, done,
                         prec=lambda dist=dist, rep=rep: own_precision(lambda x: float(np.ravel(dist.logpdf(x))[0]), np.array(rep["mean"], dtype=float), rep["dim"]))
        else:
            for cc in sorted(ccs, key=lambda x: x["N"]):
                count_identity(cc)
                full = count_wiring_full(cc)
                p = CountProxy(ctx, cc, sub)
                run_wiring(p, full)
                run_wiring(p, full, use_global=True)
                if cc["N"] >= COUNT_LARGE:
                    done[rep["family"]] = done.get(rep["family"], 0) + 1
    if guard:
        need = ["Lognormal"] + ["Gaussian/%s/%s" % (f, sh) for f in FS_FORMS for sh in ("scalar", "vector", "diag", "spdiag", "dense", "sparse")] \
            + ["GMRF/pd=1/%s/order=%d" % (bc, o) for bc in ("zero", "periodic", "neumann") for o in (0, 1, 2)] \
            + ["GMRF/pd=2/%s/order=%d" % (bc, o) for bc in ("zero", "neumann") for o in (0, 1, 2)] \
            + sorted({cc["rep"]["family"] for cc in ccases if cc["sub"] == "wiring"})
        missing = [f for f in need if not done.get(f)]
        if missing or not any(cc["sub"] == "wiring" for cc in ccases):
            machinery("vacuous: facet 7 replayed no sample count >= %d for %r" % (COUNT_LARGE, missing))
    ctx.observations["counts"] = {"Ns": sorted({cc["N"] for cc in ccases}), "representatives": len(groups),
                                  "large_N_calls_per_family": dict(sorted(done.items()))}
    return len(groups)


# ----------------------------------------------------------------------------------------------- facet 3
def _digest():
    """Value identifying the state of numpy's global random stream (compared for equality before / after a call)."""
    s = np.random.get_state()
    return (hash(s[1].tobytes()), s[2], s[3], s[4])


def _rs_digest(rs):
    import hashlib
    s = rs.get_state()
    return hashlib.sha1(s[1].tobytes() + str(s[2:]).encode()).hexdigest()


def stream_families():
    """name -> callable returning (d1, d2, dc): two unconditional instances and one conditional instance."""
    import cuqi, scipy.sparse as sp
    D = cuqi.distribution
    g1 = cuqi.geometry.Continuous1D(4)
    g2 = cuqi.geometry.Image2D((2, 2))
    R = np.array([[1., 2, -1], [0, 1, 3], [0, 0, 1]])
    fams = {
        "Gaussian-dense": lambda: (D.Gaussian(np.array([1., -2, 3]), cov=np.linalg.inv(R.T @ R)),
                                   D.Gaussian(np.zeros(3), prec=R.T @ R), D.Gaussian(lambda z: z * np.ones(3), cov=np.eye(3))),
        "Gaussian-sparse": lambda: (D.Gaussian(np.array([1., -2, 3]), sqrtprec=sp.csr_matrix(R)),
                                    D.Gaussian(np.zeros(3), prec=sp.csr_matrix(R.T @ R)), D.Gaussian(np.zeros(3), sqrtprec=lambda s: s * sp.identity(3))),
        "Gaussian-iid": lambda: (D.Gaussian(np.zeros(2), 4.0), D.Gaussian(1.0, 0.25), D.Gaussian(np.zeros(2), cov=lambda v: v)),
        "GMRF-zero": lambda: (D.GMRF(np.arange(4.), 4.0, "zero", order=1, geometry=g1), D.GMRF(np.zeros(4), 1.0, "zero", order=2, geometry=g2),
                              D.GMRF(np.zeros(4), lambda d: d, "zero", geometry=g1)),
        "GMRF-neumann": lambda: (D.GMRF(np.arange(4.), 4.0, "neumann", order=1, geometry=g1), D.GMRF(np.zeros(4), 1.0, "neumann", order=1, geometry=g2),
                                 D.GMRF(np.zeros(4), lambda d: d, "neumann", geometry=g1)),
        "GMRF-periodic": lambda: (D.GMRF(np.arange(4.), 4.0, "periodic", order=1, geometry=g1), D.GMRF(np.zeros(4), 1.0, "periodic", order=2, geometry=g1),
                                  D.GMRF(np.zeros(4), lambda d: d, "periodic", geometry=g1)),
        "Normal": lambda: (D.Normal(np.array([1., -2]), np.array([0.5, 2.])), D.Normal(0.0, 3.0), D.Normal(lambda m: m, 1.0)),
        "Gamma": lambda: (D.Gamma(np.array([2., 0.5, 3]), np.array([4., 0.5, 1])), D.Gamma(1.0, 1e-2), D.Gamma(lambda s: s, 1.0)),
        "InverseGamma": lambda: (D.InverseGamma(np.array([3., 2.5]), np.array([0., -1]), np.array([0.5, 2])), D.InverseGamma(3.0, 1.0, 2.0),
                                 D.InverseGamma(lambda s: s, 0.0, 1.0)),
        "Beta": lambda: (D.Beta(np.array([2., 0.5]), np.array([3., 4])), D.Beta(2.0, 2.0), D.Beta(lambda a: a, 1.0)),
        "Laplace": lambda: (D.Laplace(np.array([1., -2]), np.array([0.5, 2])), D.Laplace(0.0, 1.0), D.Laplace(lambda l: l, 1.0)),
        "Lognormal": lambda: (D.Lognormal(np.array([1.5, 1.0]), np.array([[3., 0], [0, 1]])), D.Lognormal(np.zeros(2), 0.25),
                              D.Lognormal(lambda m: m * np.ones(2), 1.0)),
        "Uniform": lambda: (D.Uniform(np.array([-2., 0]), np.array([3., 0.25])), D.Uniform(0.0, 1.0), D.Uniform(lambda l: l, 10.0)),
        "Cauchy": lambda: (D.Cauchy(np.array([1., -2]), np.array([2., 0.5])), D.Cauchy(0.0, 1.0), D.Cauchy(lambda l: l, 1.0)),
        "ModifiedHalfNormal-a>1": lambda: (D.ModifiedHalfNormal(2.0, 3.0, -1.0), D.ModifiedHalfNormal(5.0, 1.0, 2.0), D.ModifiedHalfNormal(lambda a: a, 1.0, 1.0)),
        "ModifiedHalfNormal-a<1": lambda: (D.ModifiedHalfNormal(0.5, 1.0, 2.0), D.ModifiedHalfNormal(0.9, 2.0, -1.0), D.ModifiedHalfNormal(lambda a: a, 1.0, 1.0)),
    }
    return fams


_RNG_POOL = {}


def new_rng(name):
    """Generator object `name` in its freshly seeded state (r1, r2: two RandomState objects with the same seed;
    gen: numpy Generator).  Objects are pooled and put back to the seeded state (seeding is the expensive part)."""
    if name not in _RNG_POOL:
        if name in ("r1", "r2"):
            g = np.random.RandomState(SEED_LOCAL)
            _RNG_POOL[name] = (g, g.get_state())
        elif name == "gen":
            g = np.random.default_rng(SEED_LOCAL)
            _RNG_POOL[name] = (g, g.bit_generator.state)
        else:
            machinery("unknown generator %r in behaviour" % name)
    g, st = _RNG_POOL[name]
    if name == "gen":
        g.bit_generator.state = st
    else:
        g.set_state(st)
    return g


_GSTATE = []


def _global_seeded_state():
    if not _GSTATE:
        np.random.seed(SEED_GLOBAL)
        _GSTATE.append(np.random.get_state())
    return _GSTATE[0]


class FamilyRun:
    """Real objects of one family + memo of draws by generator state (shared by all behaviours of the run)."""

    def __init__(self, name, maker):
        self.name = name
        with quiet():
            d1, d2, dc = maker()
        self.objs = {"d1": d1, "d2": d2, "dc": dc}
        self.memo = {}
        self.generator_unsupported = False


def run_behaviour(ctx, fam, steps):
    """Executes one TLC behaviour on the real distributions of one family; compares after every action."""
    np.random.set_state(_global_seeded_state())
    rngs = {}
    case = {"kind": "behaviour", "family": fam.name, "steps": steps}
    g1 = _digest()
    tail = "family=%s" % fam.name
    for k, st in enumerate(steps):
        if st["act"] == "rewind":
            rngs[st["rng"]] = new_rng(st["rng"])
            continue
        r = st["rng"]
        if r != "none" and r not in rngs:
            rngs[r] = new_rng(r)
        dist = fam.objs[st["d"]]
        N = st["N"]
        g0 = g1
        try:
            with quiet():
                s = dist.sample(N) if r == "none" else dist.sample(N, rng=rngs[r])
            err = None
        except AttributeError as e:
            if r == "gen" and "Generator" in str(e):
                # numpy Generator objects lack the legacy method this family calls: support is not documented
                ctx.observations.setdefault("numpy_Generator_not_supported", {})[fam.name] = str(e)[:90]
                return False
            err = e
        except Exception as e:
            err = e
        g1 = _digest()
        if st["out"] == "error":
            if err is None:
                ctx.mismatch("stream_cond/%s" % tail, case, "step %d: a conditional distribution was sampled instead of refusing" % k,
                             "error", "returned %s" % type(s).__name__)
                return True
            if g1 != g0:      # not stated by the property: observed only
                ctx.observations.setdefault("refused_sample_consumed_global_state", {})[fam.name] = True
            continue
        if err is not None:
            ctx.mismatch("stream_error/%s/N=%d/rng=%s" % (tail, N, "none" if r == "none" else type(rngs[r]).__name__), case,
                         "step %d: sample raised %r" % (k, err))
            return True
        if not check_return(ctx, "stream_return/%s/N=%d" % (tail, N), case, dist, s, N):
            return True
        if r != "none" and g1 != g0:
            ctx.mismatch("stream_global/%s/rng=%s" % (tail, type(rngs[r]).__name__), case,
                         "step %d: global numpy random state changed although a generator was given" % k, "unchanged", "changed")
        if r == "none" and g1 == g0:
            ctx.observations.setdefault("global_state_not_consumed_without_rng", {})[fam.name] = True
        a = np.array(s.samples if N > 1 else s, dtype=float)
        key = json.dumps(st["given"])
        old = fam.memo.get(key)
        if old is None:
            fam.memo[key] = a
        elif r == "none":
            # draws from the global stream: the property only speaks about a GIVEN generator - observed, not asserted
            if old.shape != a.shape or not np.array_equal(old, a):
                ctx.observations.setdefault("global_stream_draws_not_reproducible", {})[fam.name] = True
        elif old.shape != a.shape or not np.array_equal(old, a):
            ctx.mismatch("stream_determinism/%s/rng=%s" % (tail, "none" if r == "none" else type(rngs[r]).__name__), case,
                         "step %d: same distribution, N and generator state gave different draws" % k, old, a)
    return True


def run_streams(ctx, behaviours, per_behaviour, label):
    """per_behaviour: number of families each behaviour is replayed on (rotating); 0 = all families."""
    makers = stream_families()
    names = sorted(makers)
    fams = [FamilyRun(n, makers[n]) for n in names]
    F = len(fams)
    n_run = 0
    for i, b in enumerate(behaviours):
        steps = b["steps"]
        idx = range(F) if not per_behaviour else [(i * per_behaviour + j) % F for j in range(per_behaviour)]
        for j in idx:
            fam = fams[j]
            uses_gen = any(s.get("rng") == "gen" for s in steps)
            if uses_gen and fam.generator_unsupported:
                continue
            ok = run_behaviour(ctx, fam, steps)
            if not ok:
                fam.generator_unsupported = True
                continue
            n_run += 1
            ctx.case(("behaviour", label, i, fam.name), facet="stream")
    ctx.traces += n_run
    ctx.observations["stream_families"] = names
    return n_run


# ------------------------------------------------------------------------------------------------- run
EXTRA = ("DiffOps.tla",)
NMAIN = 7         # deciding TLC runs (cases, stream, deep, reassign, siblings, firstobs, counts); the named deviations follow

DEVIATIONS = [("Sampling.dev.last_block_skipped.cfg", "ColumnsIndependent"), ("Sampling.dev.sync_in_density_only.cfg", "FoUsesCurrent"), ("Sampling.dev.shared_derived.cfg", "SibOwnDraw"), ("Sampling.dev.dia_as_diagonal.cfg", "FsLaw"),
              ("Sampling.dev.stale_after_assign.cfg", "ReSampFresh"), ("Sampling.dev.dft_on_noncirculant.cfg", "DftLaw"), ("Sampling.dev.dft_sorted_eigs.cfg", "DftLaw"),
              ("Sampling.dev.lower_as_upper.cfg", "GaussLaw"), ("Sampling.dev.ignores_rng.cfg", "GlobalUntouched"),
              ("Sampling.dev.ignores_rng_det.cfg", "Deterministic")]


def _group_gmrf(cases):
    groups = {}
    for c in cases:
        if c["kind"] == "gmrf":
            groups.setdefault(gmrf_key(c), []).append(c)
    return groups


def tlc_jobs(ctx, jobs):
    """Runs the TLC invocations `jobs` = [(cfg, workers, expect_violation, heap)] concurrently (JVM start-up dominates) and
    accounts them in the run context exactly like ctx.tlc does."""
    import os, time
    from concurrent.futures import ThreadPoolExecutor
    from cuqiverif import tlc as _tlc
    wds = []

    def one(job):
        cfg, workers, expect, heap = job
        wd = os.path.join(_tlc.WORK, "Sampling-%d-%d-%s" % (os.getpid(), int(time.time() * 1000) % 10 ** 7,
                                                           cfg.replace(".cfg", "").replace("Sampling.", "")))
        wds.append(wd)
        return _tlc.run_tlc("Sampling", cfg=cfg, workers=workers, timeout=1500, extra_modules=EXTRA, expect_violation=expect, workdir=wd, heap=heap)
    with ThreadPoolExecutor(max_workers=len(jobs)) as ex:
        futs = [ex.submit(one, j) for j in jobs]
        out = []
        err = None
        for (cfg, _, _, _), f in zip(jobs, futs):
            try:
                res = f.result()
            except Exception as e:          # let the other JVMs finish, then report the first failure
                err = err or e
                out.append(None)
                continue
            ctx.states += res.distinct
            ctx.transitions += res.generated
            ctx.tlc_runs.append({"spec": "Sampling", "cfg": cfg, "distinct": res.distinct, "generated": res.generated, "depth": res.depth,
                                 "wall_s": round(res.wall_s, 2), "cases": len(res.cases), "violated": res.violated, "coverage": None})
            out.append(res)
    if err is not None:
        for wd in wds:                  # nothing is handed back: leave no work directory behind
            _tlc.cleanup(wd)
        raise err
    return out


def run(ctx):
    from cuqiverif import tlc as _tlc
    thorough = ctx.tier == "thorough"
    # the second stream deviation (same constant, other invariant) is run in the thorough tier only
    devs = [d for d in DEVIATIONS if thorough or d[0] != "Sampling.dev.ignores_rng_det.cfg"]
    jobs = [("Sampling.cases.%s.cfg" % ctx.tier, 8, False, "2g"), ("Sampling.stream.%s.cfg" % ctx.tier, 4, False, "2g"),
            ("Sampling.deep.%s.cfg" % ctx.tier, 2, False, "1g"), ("Sampling.reassign.%s.cfg" % ctx.tier, 4, False, "2g"),
            ("Sampling.siblings.%s.cfg" % ctx.tier, 2, False, "1g"), ("Sampling.firstobs.%s.cfg" % ctx.tier, 2, False, "1g"),
            ("Sampling.counts.%s.cfg" % ctx.tier, 2, False, "1g")] \
        + [(cfg, 2, True, "1g") for cfg, _ in devs]
    results = tlc_jobs(ctx, jobs)
    try:
        _run_with_results(ctx, results, devs, thorough)
    finally:
        for r in results:               # also on the exception paths (machinery errors raised during the replay)
            _tlc.cleanup(r)


def _run_with_results(ctx, results, devs, thorough):
    from cuqiverif import tlc as _tlc
    res, res3, res4, res5, res6, res7, res8 = results[:NMAIN]
    # ---- model checking + case emission (facets 1, 2)
    ctx.model_must_hold(res, "Sampling/cases")
    cases = res.cases
    _tlc.cleanup(res)
    if not cases and res.ok:
        machinery("no cases emitted by Sampling (cases facet)")
    kinds = {}
    for c in cases:
        kinds.setdefault(c["kind"], []).append(c)
    for k in ("gauss", "gfs", "bigdiag", "gmrf", "wiring"):
        if res.ok and not kinds.get(k):
            machinery("vacuous: no %s case emitted" % k)
    # ---- named deviations: each must produce a counterexample to its invariant (non-vacuity, design-level explanation)
    for (cfg, inv), r in zip(devs, results[NMAIN:]):
        _tlc.cleanup(r)
        if r.violated != inv:
            machinery("deviation run %s did not violate %s (got %r): invariant is vacuous" % (cfg, inv, r.violated))
    ctx.observations["deviation_runs"] = {cfg: inv for cfg, inv in devs}
    # ---- replay facets 1, 2
    import time as _time
    _t = [_time.time()]
    wall = ctx.observations.setdefault("replay_wall_s", {})

    def lap(name):
        wall[name] = round(_time.time() - _t[0], 1)
        _t[0] = _time.time()
    Ns = (1, 3)
    for c in kinds.get("gauss", []):
        run_gauss(ctx, c, Ns)
    for c in kinds.get("bigdiag", []):
        run_bigdiag(ctx, c)
    lap("gauss+bigdiag")
    cells = {}
    for c in sorted(kinds.get("gfs", []), key=lambda c: gauss_sig(c)):
        run_gfs(ctx, c, Ns, cells)
    if res.ok:
        check_fs_cells(ctx, cells)
    lap("gfs")
    groups = _group_gmrf(cases)
    for k in sorted(groups):
        run_gmrf(ctx, groups[k], Ns)
    for c in kinds.get("wiring", []):
        run_wiring(ctx, c)
        run_wiring(ctx, c, use_global=True)       # no generator given: the default code path of every family
    ctx.traces += len(kinds.get("gauss", [])) + len(kinds.get("gfs", [])) + len(kinds.get("bigdiag", [])) + len(groups) + len(kinds.get("wiring", []))
    lap("gmrf+wiring")
    # ---- facet 4: one object, parameters assigned through the public attributes, sampled again
    ctx.model_must_hold(res5, "Sampling/reassign")
    recases = [c for c in res5.cases if c.get("kind") == "reassign"]
    _tlc.cleanup(res5)
    if res5.ok and not recases:
        machinery("no behaviours emitted by Sampling (Reassign facet)")
    ctx.traces += run_reassign(ctx, recases)
    lap("reassign")
    # ---- facet 5: two conditioned copies of one conditional object, alive together, sampled in turn (pairs of facet 4)
    ctx.model_must_hold(res6, "Sampling/siblings")
    walks = [c for c in res6.cases if c.get("kind") == "sibwalk"]
    _tlc.cleanup(res6)
    if res6.ok and not walks:
        machinery("no behaviours emitted by Sampling (Siblings facet)")
    if walks and recases:
        ctx.traces += run_siblings(ctx, recases, walks, extra=2 if thorough else 1, gauss_stride=1 if thorough else 2)
        ctx.sample({"siblings": {"walk": ctx.observations["siblings_canonical_walk"], "pairs": "from / trail[n].expect of the Reassign cases",
                                 "walks_emitted": len(walks)}})
    rcs = [c for c in recases if c["sub"] == "wiring" and c["from"]["family"] == "Cauchy" and c["from"]["dim"] == 2]
    if rcs:
        ctx.sample({"reassign": {"order": rcs[0]["order"], "from": rcs[0]["from"]["params"],
                                 "trail": [{"assign": t["assign"], "args": t["expect"]["args"]} for t in rcs[0]["trail"]]}})
    lap("siblings")
    # ---- facet 6: after a public setter any observable may be used first (behaviours of facet 6 x Reassign cases of facet 4)
    ctx.model_must_hold(res7, "Sampling/firstobs")
    fowalks = [c for c in res7.cases if c.get("kind") == "fowalk"]
    _tlc.cleanup(res7)
    if res7.ok and not fowalks:
        machinery("no behaviours emitted by Sampling (FirstObservable facet)")
    if fowalks and recases:
        ctx.traces += run_firstobs(ctx, recases, fowalks, thorough)
    lap("firstobs")
    # ---- facet 7: sample counts across internal block sizes (every column is the image of its own noise column)
    ctx.model_must_hold(res8, "Sampling/counts")
    ccases = [c for c in res8.cases if c.get("kind") == "count"]
    _tlc.cleanup(res8)
    if res8.ok and not ccases:
        machinery("no cases emitted by Sampling (Counts facet)")
    if ccases:
        ctx.traces += run_counts(ctx, ccases, guard=res8.ok)
        cs = [c for c in ccases if c["sub"] == "gmrf" and c["rep"]["bc"] == "zero" and c["rep"]["order"] == 1 and c["rep"]["pd"] == 1 and c["N"] > 1000]
        if cs:
            ctx.sample({"count": min(cs, key=lambda c: c["N"])})
    lap("counts")
    # ---- stream state machine
    ctx.model_must_hold(res3, "Sampling/stream")
    beh = res3.cases
    _tlc.cleanup(res3)
    ctx.model_must_hold(res4, "Sampling/deep")
    deep = res4.cases
    _tlc.cleanup(res4)
    if (res3.ok and not beh) or (res4.ok and not deep):
        machinery("no behaviours emitted by Sampling (stream facet)")
    # TLC's workers emit in a scheduling-dependent order: canonical order first, so that a run is a function of VERIF_SEED
    beh = sorted(beh, key=lambda b: json.dumps(b["steps"], sort_keys=True))
    deep = sorted(deep, key=lambda b: json.dumps(b["steps"], sort_keys=True))
    rs = np.random.RandomState(ctx.seed)
    order = rs.permutation(len(beh))           # VERIF_SEED only selects which family replays which behaviour
    beh = [beh[i] for i in order]
    run_streams(ctx, beh, 2, "stream")
    run_streams(ctx, deep, 0 if thorough else 4, "deep")
    lap("streams")
    # ---- evidence
    def pick(kind, pred=lambda c: True):
        for c in kinds.get(kind, []):
            if pred(c):
                return c
    ctx.sample({"case": pick("gauss", lambda c: c["form"] == "sqrtprec" and c["tri"] == "lower" and c["dim"] == 3 and not c["scaled"])})
    g = pick("gmrf", lambda c: c["bc"] == "neumann" and c["order"] == 1 and c["n"] == 4 and c["pd"] == 1)
    ctx.sample({"case": {k: g[k] for k in ("kind", "pd", "n", "bc", "order", "delta", "mean", "P0", "rank", "design")}} if g else None)
    ctx.sample({"case": pick("wiring", lambda c: c["family"] == "Gamma" and c["dim"] == 2 and c["N"] == 3 and c["pform"] == "vector")})
    if beh:
        ctx.sample({"behaviour": beh[0]["steps"]})
    if deep:
        ctx.sample({"behaviour": deep[len(deep) // 2]["steps"]})
    ctx.rule = ("cases = every configuration emitted by TLC from Sampling.tla (Gaussian form x shape x triangle x dim x scaling x mean "
                "form x storage format; Gaussian form x structure x storage format x threshold side; GMRF pd x n x bc x order x delta; "
                "family x dim x passing x N x lattice), every Reassign behaviour, every Reassign pair x {walk A-O-B-A + rotating walks} of "
                "the Siblings behaviours, every (representative, N) of the Counts facet and every behaviour of the stream state machine up to the bounded length replayed on rotating "
                "families; distinct non-trivial = distinct (configuration, storage format) resp. (pair, walk, step) resp. (behaviour, "
                "family) keys")
    ctx.exhaustive = True
    ctx.assumptions += ["law of numpy / scipy base generators (normal, gamma, laplace, uniform, beta, invgamma, cauchy) is trusted",
                        "ModifiedHalfNormal acceptance envelopes not modelled (wiring of parameters and stream behaviour only)",
                        "Gaussian-type samplers request standard-normal arrays of shape (m, N) (otherwise exit 2)",
                        "bounded sizes (cfg); cuqi.config.MIN_DIM_SPARSE lowered to 2 for dims 2-3, real threshold for diagonal forms",
                        "jitter sqrt(eps) of periodic/neumann GMRF factorisations tolerated (1e-6 relative)",
                        "facet 1c: a storage format / structure / threshold side the library refuses (exception at construction, density or "
                        "first sample) is observed, not judged; a covariance / precision is symmetric (no triangular structure)",
                        "facet 7: the column structure for large N is judged against the object's own mean and L read off with N = 3 (the law of "
                        "that L is judged by facet 1); a Gaussian-type sampler requests its normal draws as (m, N) arrays also for large N",
                        "facet 5: a conditional construction that does not work for ONE conditioned copy alone (Lognormal with a scalar mean and "
                        "callable covariance, ModifiedHalfNormal, 2-D periodic GMRF) is observed, not judged"]


def replay(ctx, case):
    kind = case.get("kind")
    if kind == "model":
        return run(ctx)
    if kind == "gauss":
        return run_gauss(ctx, case)
    if kind == "gfs":
        return run_gfs(ctx, case)
    if kind == "siblings_step":
        sb = case["sib"]
        with min_dim_sparse(2):
            return sib_walk(ctx, _sib_adapter(sb["sub"], sb["rc"], sb["n"]), sb["fmt"], sb["walk"])
    if kind == "firstobs_step":
        fo = case["fo"]
        with min_dim_sparse(2):
            return fo_walk(ctx, {"wiring": FoWiring, "gauss": FoGauss, "gmrf": FoGmrf}[fo["rc"]["sub"]](fo["rc"]), fo["fmt"], fo["ops"])
    if kind == "bigdiag":
        return run_bigdiag(ctx, case)
    if kind == "count":
        return run_counts(ctx, [case], guard=False)
    if kind == "gmrf_group":
        return run_gmrf(ctx, case["variants"])
    if kind == "gmrf":
        return run_gmrf(ctx, [case])
    if kind == "wiring":
        run_wiring(ctx, case)
        return run_wiring(ctx, case, use_global=True)
    if kind in ("reassign", "reassign_step"):
        rc = case if kind == "reassign" else case["rc"]
        run_reassign_one = {"wiring": reassign_wiring, "gauss": reassign_gauss}.get(rc["sub"])
        return run_reassign_one(ctx, rc, set()) if run_reassign_one else reassign_gmrf(ctx, rc, set(), set())
    if kind == "behaviour":
        makers = stream_families()
        fam = FamilyRun(case["family"], makers[case["family"]])
        run_behaviour(ctx, fam, case["steps"])
        return
    machinery("unknown case kind %r in replay file" % kind)
