"""C07 - a linear model's adjoint is the transpose of its forward map.

Spec: specs/ModelGeom.tla (parts "C07", "TP", "SEQ", "SEQ2"), specs/ModelGeomEdit.tla (part "SEQE": in-place edits of the matrix,
replayed by cuqiverif/c07_edit.py) and specs/ModelGeomFun.tla (parts "FUN": user functions returning views of their input, "LAY": data
layout of matrix / vectors; replayed by cuqiverif/c07_fun.py), specs/ModelGeomConstruct.tla (part "CON", cuqiverif/c07_construct.py) and specs/ModelGeomVec.tla
(parts "ARR": x / y as CUQIarrays carrying another geometry of the model's class, "VEC": function pairs defined for vectors only; cuqiverif/c07_vec.py).  TLC checks Adjoint / Columns / Transpose on the intended design for
every (model kind, domain geometry, range geometry) of the bounded instance, the named deviations must violate them, and
the exact expected numbers are replayed into real cuqi.model.LinearModel objects and the shipped linear test problems.
"""
META = {
    "claimed": True,
    "engine": "ModelGeom.tla",
    "text": ("TLC checks <Fwd x,y>=<x,Adj y> (all basis pairs + a lattice pair), Matrix e_i = Fwd e_i and T=(Adj,Fwd,Matrix^T) on the "
             "intended design for dense/sparse/function-pair models x 13 domain x 11 range geometries (identity-like, Image2D C/F, "
             "visual-only, Continuous2D, StepExpansion mean/min/max, mapped linear, KL-like expansion) with exact rationals, and the "
             "integer 1-D/2-D convolution matrices for 5 boundary conditions x odd/even (a)symmetric PSFs; 5 named deviations must "
             "violate. Every emitted case is replayed into the real LinearModel (forward, adjoint on all basis vectors, get_matrix, T) "
             "and into Deconvolution1D/2D (custom + every named PSF, size parity, BC, legacy form) and Abel1D (every field type). "
             "Part SEQ: a state machine over ONE model object (GetMatrix, T, T.get_matrix, T.T, assignment of domain_geometry / "
             "range_geometry) - every behaviour of length 3 (thorough: a seeded sample of length 4) is replayed into one real object; "
             "after every action forward / adjoint and the value the action returns must be the specification's numbers for the "
             "CURRENT geometries; T's own matrix must reproduce T's forward; 3 more deviations must violate. "
             "Part SEQ2: the same machine over TWO objects - the action Copy derives a second object from the model (model(distribution) "
             "and copy.copy(model)), every later action goes to either object in any order; after every action BOTH real objects must "
             "show the specification's values for THEIR OWN current geometries (deviation CopySharesAssembledMatrix must violate). "
             "Part SEQE (ModelGeomEdit.tla, EXTENDS ModelGeom): the action EditMatrixInPlace - the user updates the matrix of a matrix-backed "
             "model in place through the own reference (M *= 2, M[i,j] = v, M[:,0] += 1, np.multiply(M, 2, out=M), M.data *= 2, M.data[k] = v) "
             "or through what get_matrix() returned - interleaved with get_matrix / T (held transposed model) / geometry assignments on one "
             "object and on a model and an object derived from it (model(distribution), copy.copy, copy.deepcopy), for dense C / F ordered "
             "ndarrays and scipy CSR / CSC / COO.  No assumption whether a model aliases or copies the array (storage cells with contents, four "
             "free booleans): the invariants say that forward, adjoint, get_matrix() and the transposed model built now show THE SAME content "
             "of the matrix at the same time; deviations AdjointKeepsTransposedCopy, AssembledMatrixOutlivesEdit, DeepCopyKeepsCallablesOfOriginal "
             "must violate.  Replay: which content an object shows is read off its forward map (observation), every other read-out of "
             "every live object must then be the exact value of TLC's table for that same content, after every action.  "
             "Part FUN (ModelGeomFun.tla, EXTENDS ModelGeom): function-backed models whose user functions are selections / permutations "
             "(x, x[::-1], x[::2], x[1::2], x[2:], X.T) realised as FunKind fresh / view of the argument / the argument itself / np.asarray / "
             "fresh-but-keeps-references, over an abstract memory (buffers + handles, free booleans for 'the view really aliases'): the assembled "
             "matrix of the model and of its transposed model has the columns forward(e_j) computed with a unit vector that is current when the "
             "column is STORED (FunColumns) and every array handed to the user keeps its value whatever the model does afterwards "
             "(FunResultsStable); deviations ColumnsStackedAtTheEnd / ScratchInputBuffer must violate.  Replay: real LinearModel(function pair) "
             "per sequence of forward / adjoint / get_matrix / T.get_matrix, every returned and every earlier returned array and the user's inputs "
             "compared after every operation.  Part LAY: the matrix of a matrix-backed model as int / float32 / column-major / strided / read-only "
             "array (sparse: int / float32 data) and the vectors as int / float32 / strided / read-only, whole forward / adjoint / get_matrix / T "
             "comparison against the numbers of the same configuration.  "
             "CONSTRUCTION (part CON, ModelGeomConstruct.tla, EXTENDS ModelGeom): constructing a model is a step of its own - state (configuration, st, out), "
             "action Construct, invariant WellFormedAccepted: a dense / sparse matrix with FunDim(range) x FunDim(domain) entries on vector function values, or a "
             "function pair, is ACCEPTED whatever the parameter dimensions of the geometries are (par_dim # fun_dim in the domain and / or the range: "
             "StepExpansion with fewer steps than nodes, truncated KL expansion, CustomKL; also LinearModel(matrix) with inferred geometries and Abel1D with "
             "every field type, mapped or not); deviation ShapeCheckedAgainstParDim must violate.  Replay: every configuration is handed to the real "
             "constructor; a refusal of a well-formed one is the violation construct/<key>/construction_refused, the constructed model must have the "
             "parameter dimensions of its geometries and (where no `lin` case replays it in full) forward on the basis = H+ F G and get_matrix() = those "
             "columns.  Every constructor call of the other parts (lin, SEQ, SEQ2, SEQE, FUN, LAY, Abel1D) reports a refusal as a violation "
             "(<part>/construct/.../construction_refused), never as a machinery failure.  "
             "CONTAINER of x / y (part ARR, ModelGeomVec.tla, EXTENDS ModelGeom): x and y arrive as CUQIarrays of parameters that carry a geometry of the SAME "
             "class and par_shape as the model's but ANOTHER map (Image2D C <-> F, StepExpansion on another grid with the same n_steps / another projection, "
             "MappedGeometry with another map, an expansion with another decay - user class and real KLExpansion); the documented conversion uses the MODEL's "
             "geometry: invariants ArrForward (all basis vectors = columns of the matrix), ArrAdjoint (<A e_i, e_j> = <e_i, A* e_j> with both carried), "
             "ArrContainer; deviation SameClassCarrierTrusted must violate ArrAdjoint and ArrForward.  Replay before and after get_matrix().  "
             "VECTOR-ONLY function pairs (part VEC): forward / adjoint written with numpy calls without axis (np.roll(x,1), np.flip(x), np.cumsum(x), "
             "np.roll(x,-2)[:n-2] - on a matrix numpy flattens): get_matrix() / T.get_matrix() = H+ V G column by column (VecColumns), the supplied adjoint is the "
             "transpose (VecAdjoint); deviation MatrixFromForwardOfIdentity (one call forward(identity)) must violate VecColumns."),
    "note": ("Bounded sizes (function dimensions 4 and 6, images 2x2/2x3, test problems dim 4-8). KLExpansion is realised numerically "
             "(maps read off the original geometry object). Refusals (fun2par not implemented) are observations. Legacy "
             "Deconvolution1D has no documented operator: only the identities are checked. Complex-valued matrices are out of scope (the library "
             "documents real arrays; transpose vs conjugate transpose is undefined there). User functions that modify their argument or hand out one "
             "output buffer again and again are undefined and not modelled; python lists are not documented inputs."),
    "technique": "TLA+ spec (ModelGeom) model-checked with TLC; TLC-emitted cases replayed into cuqi.model.LinearModel / cuqi.testproblem",
}

import contextlib
import io
import itertools
import warnings

import numpy as np

DEVIATIONS = [("C07", "AdjointViaFun2par", "Adjoint"), ("C07", "MatrixIsStored", "Columns"),
              ("C07", "TransposeRewraps", "Transpose"), ("TP", "RowsInsteadOfColumns", "ConvColumns"),
              ("TP", "FlippedPSFAdjoint", "ConvAdjoint")]

BC1 = {"periodic": "periodic", "zero": "zero", "reflect": "Reflect", "mirror": "Mirror", "nearest": "Nearest"}
BC2 = {"periodic": "periodic", "zero": "zero", "reflect": "Neumann", "mirror": "Mirror", "nearest": "Nearest"}


def _refusal(prefix):
    """A constructor of the library refusing a configuration the specification calls well-formed (ModelGeomConstruct.tla, invariant
    WellFormedAccepted) is a VIOLATION <prefix>/<key>/construction_refused, never a machinery failure."""
    def deco(f):
        import functools

        @functools.wraps(f)
        def g(ctx, case, *a, **k):
            from cuqiverif.modelgeom_real import ConstructionRefused, report_refusal
            try:
                return f(ctx, case, *a, **k)
            except ConstructionRefused as r:
                report_refusal(ctx, case, prefix, r)
                return None
        return g
    return deco


def _quiet():
    cm = contextlib.ExitStack()
    cm.enter_context(contextlib.redirect_stdout(io.StringIO()))
    w = warnings.catch_warnings()
    cm.enter_context(w)
    warnings.simplefilter("ignore")
    return cm


def _dense(M):
    if hasattr(M, "toarray"):
        return np.asarray(M.toarray(), dtype=float)
    if hasattr(M, "todense"):
        return np.asarray(M.todense(), dtype=float)
    return np.asarray(M, dtype=float)


def _try(f):
    try:
        with warnings.catch_warnings():
            warnings.simplefilter("ignore")
            return np.asarray(f(), dtype=float), None
    except Exception as e:  # noqa: BLE001 - any refusal / crash of the real code is data for the comparison
        return None, e


# ----------------------------------------------------------------------------------------------------------------------
# generic linear models
# ----------------------------------------------------------------------------------------------------------------------
def check_linear(ctx, case, key, factory, exp):
    """Compare one real LinearModel (built afresh by `factory`) with the expectations `exp`.

    exp: x, y, fwd_x, adj_y, adj_y_coded, matrix (par->par), F (stored), coded_adj_matrix (or None),
         t_fwd_coded / t_adj_coded (None = the coded composition is ill-typed), matrix_backed
    """
    from cuqiverif.modelgeom_real import close
    x, y, M = exp["x"], exp["y"], exp["matrix"]
    pr, pd = M.shape
    m = factory()
    # ---- forward -------------------------------------------------------------------------------------------------
    ctx.case("forward/" + key + exp["ckey"], facet="forward")
    fx, err = _try(lambda: m.forward(x))
    if err is not None or not close(fx, exp["fwd_x"]):
        ctx.mismatch("forward/%s" % key, case, "forward(x) is not H+ F G x of the specification", exp["fwd_x"],
                     fx if err is None else repr(err))
        return
    mx, err = _try(lambda: m @ x)
    if err is not None or not close(mx, exp["fwd_x"]):
        ctx.mismatch("matmul/%s" % key, case, "model @ x differs from forward(x)", exp["fwd_x"], mx if err is None else repr(err))
    Fw = np.zeros((pr, pd))
    for i in range(pd):
        col, err = _try(lambda: m.forward(np.eye(pd)[i]))
        if err is not None:
            ctx.mismatch("forward/%s" % key, case, "forward(e_i) raised", None, repr(err))
            return
        Fw[:, i] = col
    if not close(Fw, M):
        ctx.mismatch("forward/%s" % key, case, "forward on the basis vectors is not the matrix H+ F G of the specification", M, Fw)
        return
    # ---- adjoint: <Fwd x, y> = <x, Adj y>, on y and on every basis vector -----------------------------------------
    ctx.case("adjoint/" + key + exp["ckey"], facet="adjoint")
    ay, err = _try(lambda: m.adjoint(y))
    adj_refused = err is not None
    Ad, adj_cls = None, None
    if adj_refused:
        ctx.observations.setdefault("adjoint_refused", {})[key] = repr(err)[:120]
    else:
        Ad = np.zeros((pd, pr))
        for j in range(pr):
            col, err = _try(lambda: m.adjoint(np.eye(pr)[j]))
            if err is not None:
                ctx.mismatch("adjoint/%s/raised" % key, case, "adjoint(e_j) raised although adjoint(y) did not", None, repr(err))
                Ad = None
                break
            Ad[:, j] = col
        if Ad is not None:
            ok = close(ay, exp["adj_y"]) and close(Ad, M.T) and abs(float(fx @ y) - float(x @ ay)) <= 1e-9 * max(1.0, abs(float(fx @ y)))
            if not ok:
                # the recorded finding is matched only by EXACTLY the values the named deviation AdjointViaFun2par predicts
                # (on y and on every basis vector); any other wrong adjoint is a violation
                coded = close(ay, exp["adj_y_coded"]) and close(Ad, exp["coded_adj_matrix"])
                adj_cls = "via_fun2par" if coded else "other"
                ctx.mismatch("adjoint/%s/%s" % (key, adj_cls), case,
                             "adjoint is not the transpose of forward: <Fwd x, y> != <x, Adj y>"
                             + (" (it is the composition fun2par . F* . par2fun)" if coded else ""),
                             {"adj_y": exp["adj_y"], "<Fwd x,y>": float(fx @ y)}, {"adj_y": ay, "<x,Adj y>": float(x @ ay)})
    # ---- matrix representation ---------------------------------------------------------------------------------
    ctx.case("get_matrix/" + key + exp["ckey"], facet="get_matrix")
    m2 = factory()
    G, err = _try(lambda: _dense(m2.get_matrix()))
    if err is not None or not close(G, M):
        stored = err is None and exp["matrix_backed"] and close(G, exp["F"])
        ctx.mismatch("get_matrix/%s/%s" % (key, "stored" if stored else "other"), case,
                     "get_matrix() does not reproduce forward column by column"
                     + (" (it is the stored matrix, geometries ignored)" if stored else ""), M, G if err is None else repr(err))
    f2, err = _try(lambda: m2.forward(x))
    if err is not None or not close(f2, exp["fwd_x"]):
        ctx.mismatch("forward_after_get_matrix/%s" % key, case, "forward(x) changed after get_matrix()", exp["fwd_x"],
                     f2 if err is None else repr(err))
    # ---- transposed model -----------------------------------------------------------------------------------------
    ctx.case("T/" + key + exp["ckey"], facet="T")
    # (function-backed models cache the assembled matrix: their T is also taken after get_matrix())
    for tag, mk_model in ((("", factory), ("_after_get_matrix", lambda: m2)) if not exp["matrix_backed"] else (("", factory),)):
        m3 = mk_model()
        T, err = None, None
        try:
            T = m3.T
        except Exception as e:  # noqa: BLE001
            err = e
        if T is None:
            ctx.mismatch("T%s/%s/raised" % (tag, key), case, ".T raised", None, repr(err))
            continue
        # T.adjoint = forward
        ta, err = _try(lambda: T.adjoint(x))
        if err is not None or not close(ta, exp["fwd_x"]):
            rew = (err is not None and exp["t_adj_coded"] is None) or (err is None and exp["t_adj_coded"] is not None
                                                                        and close(ta, exp["t_adj_coded"]))
            ctx.mismatch("T%s_adjoint/%s/%s" % (tag, key, "rewrapped" if rew else "other"), case,
                         "T.adjoint(x) is not forward(x)", exp["fwd_x"], ta if err is None else repr(err))
        # T.forward = adjoint (the adjoint the model itself exposes; compared with the specification above)
        if not adj_refused:
            tf, err = _try(lambda: T.forward(y))
            if err is not None or not close(tf, ay):
                rew = (err is not None and exp["t_fwd_coded"] is None) or (err is None and exp["t_fwd_coded"] is not None
                                                                            and close(tf, exp["t_fwd_coded"]))
                ctx.mismatch("T%s_forward/%s/%s" % (tag, key, "rewrapped" if rew else "other"), case,
                             "T.forward(y) is not adjoint(y)", ay, tf if err is None else repr(err))
        # T.get_matrix() = get_matrix()^T
        tm, err = _try(lambda: _dense(T.get_matrix()))
        if err is not None or not close(tm, M.T):
            if err is None and exp["matrix_backed"] and close(tm, exp["F"].T):
                cls = "stored"                   # the stored matrix transposed, geometries ignored
            elif err is None and adj_cls == "via_fun2par" and close(tm, exp["coded_adj_matrix"]):
                cls = "via_fun2par"              # exactly the matrix AdjointViaFun2par predicts: columns G+ F* H e_j
            elif not exp["matrix_backed"] and tag == "" and _t_forward_is_rewrapped(T, exp):
                cls = "rewrapped"                # assembled from a T.forward that applies par2fun twice
            else:
                cls = "other"
            ctx.mismatch("T%s_matrix/%s/%s" % (tag, key, cls), case, "T.get_matrix() is not get_matrix()^T", M.T,
                         tm if err is None else repr(err))
        # the transposed model is a linear model too: ITS matrix reproduces ITS forward map column by column
        if err is None and not adj_refused:
            Tf = _columns(T.forward, pr)
            if isinstance(Tf, Exception) or not close(tm, Tf):
                # a function-backed model hands its assembled matrix (transposed) to T: consistent with T.forward only
                # where the exposed adjoint is the transpose (spec: SeqTColumns under AdjointViaFun2par)
                inherited = (tag == "_after_get_matrix" and not exp["matrix_backed"] and close(tm, M.T)
                             and not isinstance(Tf, Exception) and close(Tf, exp["coded_adj_matrix"]))
                ctx.mismatch("T%s_columns/%s/%s" % (tag, key, "inherited" if inherited else "other"), case,
                             "T.get_matrix() does not reproduce T.forward column by column", Tf if not isinstance(Tf, Exception) else repr(Tf), tm)


def _columns(f, n):
    """[f(e_1) ... f(e_n)] as a matrix, or the exception."""
    cols = []
    for j in range(n):
        col, err = _try(lambda: f(np.eye(n)[j]))
        if err is not None:
            return err
        cols.append(col)
    try:
        return np.column_stack(cols)
    except Exception as e:  # noqa: BLE001 - ragged results
        return e


def _t_forward_is_rewrapped(T, exp):
    """T.get_matrix() of a function-backed model is assembled from T.forward: attribute its failure to the re-wrapping
    only when T.forward(y) shows exactly the coded (double par2fun) behaviour."""
    from cuqiverif.modelgeom_real import close
    tf, err = _try(lambda: T.forward(exp["y"]))
    if err is not None:
        return exp["t_fwd_coded"] is None
    return exp["t_fwd_coded"] is not None and close(tf, exp["t_fwd_coded"])


def _lin_expectations(case, dom, rng):
    from cuqiverif.modelgeom_real import rvec, rmat, ivec, imat
    F = imat(case["F"])
    x, y = ivec(case["x"]), ivec(case["y"])
    mb = case["mk"] in ("dense", "sparse")
    if dom.numeric or rng.numeric:
        # KLExpansion realisation: geometry maps read off the original geometry objects, composed numerically
        G, H, Hp = dom.G, rng.G, rng.Gp
        M = Hp @ F @ G
        Gp = dom.Gp
        if Gp is None:      # non-linear fun2par (min / max projection): evaluate the original geometry object
            codedM = np.column_stack([np.asarray(dom.obj.fun2par(F.T @ H @ e), dtype=float) for e in np.eye(H.shape[1])])
            return {"x": x, "y": y, "fwd_x": M @ x, "adj_y": M.T @ y, "adj_y_coded": np.asarray(dom.obj.fun2par(F.T @ H @ y)),
                    "matrix": M, "F": F, "coded_adj_matrix": codedM, "t_fwd_coded": None, "t_adj_coded": None, "matrix_backed": mb}
        return {"x": x, "y": y, "fwd_x": M @ x, "adj_y": M.T @ y, "adj_y_coded": Gp @ F.T @ H @ y, "matrix": M, "F": F,
                "coded_adj_matrix": Gp @ F.T @ H, "t_fwd_coded": None, "t_adj_coded": None, "matrix_backed": mb}
    # G+ F* H e_j for every j, exactly as the deviation AdjointViaFun2par of the specification computes it
    coded = np.column_stack([rvec(col) for col in case["adj_cols_coded"]])
    tf = rvec(case["t_fwd_coded"]) if len(case["t_fwd_coded"]) else None
    ta = rvec(case["t_adj_coded"]) if len(case["t_adj_coded"]) else None
    return {"x": x, "y": y, "fwd_x": rvec(case["fwd_x"]), "adj_y": rvec(case["adj_y"]), "adj_y_coded": rvec(case["adj_y_coded"]),
            "matrix": rmat(case["matrix"]), "F": F, "coded_adj_matrix": coded, "t_fwd_coded": tf, "t_adj_coded": ta,
            "matrix_backed": mb}


@_refusal("construct")
def check_lin_case(ctx, case):
    from cuqiverif.modelgeom_real import build_geometry, build_linear_model, rmat, gkey
    Gd, Gpd, Hr, Hpr = (rmat(case[k]) if len(case[k]) else None for k in ("Gd", "Gpd", "Hr", "Hpr"))
    variants = [(None, None)]
    if case["dg"]["kind"] == "linexp":
        variants.append(("kl", None))
    if case["rg"]["kind"] == "linexp":
        variants.append((None, "kl"))
    for vd, vr in variants:
        dom = build_geometry(case["dg"], Gd, Gpd, variant=vd)
        rng = build_geometry(case["rg"], Hr, Hpr, variant=vr)
        key = "mk=%s/dom=%s/rng=%s" % (case["mk"], gkey(dom.g), gkey(rng.g))
        exp = _lin_expectations(case, dom, rng)
        exp["ckey"] = "/f%d/n%d" % (case["fi"], case["dg"]["n"])      # (accounting only: operator variant, orientation)
        check_linear(ctx, case, key, lambda: build_linear_model(case["mk"], exp["F"], dom, rng), exp)


# ----------------------------------------------------------------------------------------------------------------------
# sequences of public operations on ONE model object (ModelGeom.tla, part SEQ)
# ----------------------------------------------------------------------------------------------------------------------
SEQ_DEVIATIONS = [("StaleMatrixCache", "SeqMatrixCurrent"), ("TransposeKeptWhileGeometriesCompareEqual", "SeqTransposeCurrent"),
                  ("AdjointViaFun2par", "SeqTColumns")]


def _gid(g):
    return "%s:%d:%d:%s:%s" % (g["kind"], g["n"], g["k"], g["proj"], ",".join(str(a) for a in g["asg"]))


def seq_key(beh):
    return "%s/f%d/%d.%d/" % (beh["mk"], beh["fi"], beh["d0"], beh["r0"]) + ".".join(
        st["a"] + (str(st["g"]) if st["g"] else "") for st in beh["steps"])


def seq_lin_needed(pool, beh, pred):
    """(domain index, range index) pairs whose LinEval numbers the replay of this behaviour may look at."""
    pairs = {(beh["d0"], beh["r0"])}
    for st in list(beh["steps"]) + list(pred or []):
        pairs.add((st["d"], st["r"]))
        for f in ("tp", "mp"):
            if st[f]:
                pairs.add(tuple(st[f]))
        for p in st.get("pairs", ()):       # SEQ2: the pair of every object after the action
            pairs.add(tuple(p))
    return sorted(pairs)


class _SeqWorld:
    """Real objects of one behaviour: fresh geometry objects (one per pool entry used), the model, expectations per pair."""

    def __init__(self, pool, lin, mk, fi, variant):
        self.pool, self.lin, self.mk, self.fi, self.variant = pool, lin, mk, fi, variant
        self.geoms, self.exps = {}, {}
        self.shape = {}

    def geom(self, side, i):
        if (side, i) not in self.geoms:
            from cuqiverif.modelgeom_real import build_geometry, rmat
            from cuqiverif.tlc import MachineryError
            g = self.pool[side][i - 1]
            # numeric par2fun / fun2par matrices of this geometry: emitted by TLC with every configuration that has it
            c = next((c for c in self.lin.values() if _gid(c["dg" if side == "D" else "rg"]) == _gid(g)), None)
            if c is None:
                raise MachineryError("no LinEval configuration emitted for the %s geometry %r of the sequences" % (side, g))
            G, Gp = (rmat(c[k]) if len(c[k]) else None for k in (("Gd", "Gpd") if side == "D" else ("Hr", "Hpr")))
            rg = build_geometry(g, G, Gp, variant=self.variant if g["kind"] == "linexp" else None)
            if isinstance(rg.obj, int):
                # the object an int is turned into by the constructor (public route: geometry of a throw-away model)
                import cuqi
                rg.obj = (cuqi.model.Model(lambda x: x, rg.obj, rg.obj)).domain_geometry
            self.geoms[(side, i)] = rg
        return self.geoms[(side, i)]

    def exp(self, d, r):
        if (d, r) not in self.exps:
            from cuqiverif.tlc import MachineryError
            dg, rg = self.pool["D"][d - 1], self.pool["R"][r - 1]
            c = self.lin.get((self.mk, _gid(dg), _gid(rg), self.fi))
            if c is None:
                raise MachineryError("no LinEval configuration emitted for %s / %s / %s" % (self.mk, _gid(dg), _gid(rg)))
            self.exps[(d, r)] = _lin_expectations(c, self.geom("D", d), self.geom("R", r))
        return self.exps[(d, r)]

    def model(self, d, r):
        import cuqi
        import scipy.sparse as sp
        dom, rng = self.geom("D", d), self.geom("R", r)
        F = self.exp(d, r)["F"]
        self.shape["dom"], self.shape["rng"] = dom.fun_shape, rng.fun_shape
        from cuqiverif.modelgeom_real import construct, mkey
        key = mkey(self.mk, dom, rng)
        if self.mk == "dense":
            M = F.copy()
            return construct(key, lambda: cuqi.model.LinearModel(M, range_geometry=rng.obj, domain_geometry=dom.obj))
        if self.mk == "sparse":
            M = sp.csc_matrix(F)
            return construct(key, lambda: cuqi.model.LinearModel(M, range_geometry=rng.obj, domain_geometry=dom.obj))
        shape = self.shape      # the user's function pair works on function values of whatever shape the geometries now have

        def fwd(X):
            return (F @ np.asarray(X).ravel()).reshape(shape["rng"])

        def adj(Y):
            return (F.T @ np.asarray(Y).ravel()).reshape(shape["dom"])

        return construct(key, lambda: cuqi.model.LinearModel(fwd, adj, range_geometry=rng.obj, domain_geometry=dom.obj))


class _SeqChecks:
    """The comparisons of one behaviour of the SEQ / SEQ2 state machines (one real object or an object and its copy)."""

    def __init__(self, ctx, case, W, mk, prefix="seq"):
        self.ctx, self.case, self.W, self.mk, self.prefix = ctx, case, W, mk, prefix
        self.done = "construction"      # the actions executed so far (reported with a mismatch)
        self.who = None                 # SEQ2: which object is looked at ("orig" / "copy")
        self.others = ()                # SEQ2: current pairs of the other object(s)

    def gk(self, d, r):
        from cuqiverif.modelgeom_real import gkey
        return "mk=%s/dom=%s/rng=%s" % (self.mk, gkey(self.W.geom("D", d).g), gkey(self.W.geom("R", r).g))

    def bad(self, obs, d, r, cls, what, expected, observed):
        sig = "%s/%s/%s%s/%s" % (self.prefix, obs, "obj=%s/" % self.who if self.who else "", self.gk(d, r), cls)
        self.ctx.mismatch(sig, self.case, ("%s: " % self.who if self.who else "") + what + " [after %s]" % self.done, expected, observed)

    def fwd_adj(self, obj, name, e, d, r, transposed=False):
        """forward / adjoint of `obj` on the lattice vector and on every basis vector against the pair's numbers.
        transposed: obj is a transposed model (its forward is the adjoint of the pair and vice versa)."""
        from cuqiverif.modelgeom_real import close
        bad = self.bad
        M = e["matrix"]
        pr, pd = M.shape
        f_name, a_name = ("adjoint", "forward") if transposed else ("forward", "adjoint")
        # the map that must be H+ F G
        fx, err = _try(lambda: getattr(obj, f_name)(e["x"]))
        Fw = _columns(getattr(obj, f_name), pd) if err is None else err
        if err is not None or isinstance(Fw, Exception) or not close(fx, e["fwd_x"]) or not close(Fw, M):
            bad(name + f_name, d, r, "raised" if (err is not None or isinstance(Fw, Exception)) else "other",
                "%s%s is not H+ F G of the specification for the current geometries" % (name, f_name), M,
                repr(err) if err is not None else (repr(Fw) if isinstance(Fw, Exception) else Fw))
        # the map that must be its transpose
        ay, err = _try(lambda: getattr(obj, a_name)(e["y"]))
        Ad = _columns(getattr(obj, a_name), pr) if err is None else err
        if err is not None or isinstance(Ad, Exception):
            bad(name + a_name, d, r, "raised", "%s%s raised" % (name, a_name), None, repr(err if err is not None else Ad))
            return None
        if not (close(ay, e["adj_y"]) and close(Ad, M.T)):
            coded = close(ay, e["adj_y_coded"]) and close(Ad, e["coded_adj_matrix"])
            bad(name + a_name, d, r, "via_fun2par" if coded else "other",
                "%s%s is not the transpose of H+ F G for the current geometries" % (name, a_name)
                + (" (it is the composition fun2par . F* . par2fun)" if coded else ""), M.T, Ad)
        return Ad

    def matrix_of(self, obj, name, e, d, r, mp, transposed=False, inh=False, Tf=None):
        from cuqiverif.modelgeom_real import close
        bad, W, mk = self.bad, self.W, self.mk
        M = e["matrix"].T if transposed else e["matrix"]
        call = {"get_": "", "T_": "T.", "TT_": "T.T."}[name]
        Gm, err = _try(lambda: _dense(obj.get_matrix()))
        if err is not None:
            bad(name + "matrix", d, r, "raised", "%sget_matrix() raised" % call, M, repr(err))
            return
        cls = None
        if not close(Gm, M):
            cls = "other"
            if mp and tuple(mp) != (d, r):
                # what the deviation StaleMatrixCache predicts: the matrix assembled for an earlier pair of geometries
                Ms = W.exp(*mp)["matrix"]
                if close(Gm, Ms.T if transposed else Ms):
                    cls = "stale_cache"
            if cls == "other" and transposed and close(Gm, e["coded_adj_matrix"]):
                cls = "via_fun2par"          # exactly the columns G+ F* H e_j that AdjointViaFun2par predicts for T.forward
            if cls == "other" and name == "TT_" and inh and mk == "func" and close(Gm, e["coded_adj_matrix"].T):
                # t.T of a function-backed t is handed the matrix t assembled from its own forward map (= the coded adjoint)
                cls = "inherited"
            if cls == "other":
                # what the deviation CopySharesAssembledMatrix predicts: the matrix of the pair the OTHER object has now
                for p in self.others:
                    Mo = W.exp(*p)["matrix"]
                    if tuple(p) != (d, r) and close(Gm, Mo.T if transposed else Mo):
                        cls = "of_other_object"
            bad(name + "matrix", d, r, cls, "%sget_matrix() is not the matrix of the specification for the current geometries"
                % call + {"stale_cache": " (it is the matrix assembled for the geometries the model had before)",
                          "via_fun2par": " (its columns are fun2par . F* . par2fun e_j)",
                          "inherited": " (it is the transposed matrix of T, whose forward is fun2par . F* . par2fun)",
                          "of_other_object": " (it is the matrix for the geometries of the OTHER object: the model and its copy "
                                             "share the assembled matrix)",
                          "other": ""}[cls], M, Gm)
        if transposed and Tf is not None and cls != "stale_cache" and not close(Gm, Tf):
            # the transposed model is a linear model: its matrix reproduces ITS forward column by column
            inherited = bool(inh) and mk == "func" and close(Gm, M) and close(Tf, e["coded_adj_matrix"])
            bad("T_columns", d, r, "inherited" if inherited else "other",
                "T.get_matrix() does not reproduce T.forward column by column"
                + (" (matrix handed over by the function-backed model, T.forward = fun2par . F* . par2fun)" if inherited else ""),
                Tf, Gm)


@_refusal("seq/construct")
def check_seq_case(ctx, case):
    """Replay one behaviour of the SEQ state machine into one real LinearModel; after EVERY action the object's forward /
    adjoint (and what the action itself returns) must be the specification's values for the CURRENT geometries.

    case: kind=seq, beh (mk, fi, d0, r0, steps, variant), pred (the steps as the `asbuilt` deviations predict them, or None),
          pool {D, R}, lin [LinEval configurations of the pairs involved]"""
    beh, pred = case["beh"], case.get("pred")
    mk = beh["mk"]
    lin = {(c["mk"], _gid(c["dg"]), _gid(c["rg"]), c["fi"]): c for c in case["lin"]}
    W = _SeqWorld(case["pool"], lin, mk, beh["fi"], beh.get("variant"))
    bkey = seq_key(beh) + ("/kl" if beh.get("variant") else "")
    ctx.case("seq/" + bkey, facet="seq")
    with warnings.catch_warnings():
        warnings.simplefilter("ignore")
        m = W.model(beh["d0"], beh["r0"])
    t = None
    K = _SeqChecks(ctx, case, W, mk)
    gk, bad, fwd_adj, matrix_of = K.gk, K.bad, K.fwd_adj, K.matrix_of

    d, r = beh["d0"], beh["r0"]
    for i, st in enumerate(beh["steps"]):
        a = st["a"]
        pst = pred[i] if pred else st
        done_next = (K.done + " . " if i else "") + a + (str(st["g"]) if st["g"] else "")
        with warnings.catch_warnings():
            warnings.simplefilter("ignore")
            if a in ("SD", "SR"):
                side = a[1]
                new = W.geom(side, st["g"])
                old = m.domain_geometry if side == "D" else m.range_geometry
                try:
                    libeq = bool(old == new.obj)
                except Exception:  # noqa: BLE001
                    libeq = None
                if libeq:
                    ctx.observations["seq_assignments_of_a_geometry_the_library_calls_equal_to_the_old_one"] = \
                        ctx.observations.get("seq_assignments_of_a_geometry_the_library_calls_equal_to_the_old_one", 0) + 1
                try:
                    if side == "D":
                        m.domain_geometry = new.obj
                    else:
                        m.range_geometry = new.obj
                except Exception as e:  # noqa: BLE001 - a refused assignment is acceptable: the behaviour ends here
                    ctx.observations.setdefault("seq_assignment_refused", {})[gk(d, r)] = repr(e)[:120]
                    return
                W.shape["dom" if side == "D" else "rng"] = new.fun_shape
                t = None
                d, r = st["d"], st["r"]
                K.done = done_next
                e = W.exp(d, r)
            else:
                e = W.exp(d, r)
                K.done = done_next
                if a == "G":
                    matrix_of(m, "get_", e, d, r, pst["mp"])
                elif a == "T":
                    try:
                        t = m.T
                    except Exception as ex:  # noqa: BLE001
                        bad("T", d, r, "raised", ".T raised", None, repr(ex))
                        return
                    fwd_adj(t, "T_", e, d, r, transposed=True)
                elif a == "TG":
                    Tf = _columns(t.forward, e["matrix"].shape[0])
                    matrix_of(t, "T_", e, d, r, pst["mp"], transposed=True, inh=pst["inh"],
                              Tf=None if isinstance(Tf, Exception) else Tf)
                elif a == "TT":
                    try:
                        tt = t.T
                    except Exception as ex:  # noqa: BLE001
                        bad("TT", d, r, "raised", ".T.T raised", None, repr(ex))
                        return
                    fwd_adj(tt, "TT_", e, d, r)
                    matrix_of(tt, "TT_", e, d, r, pst["mp"], inh=pst["inh"])
                else:
                    from cuqiverif.tlc import MachineryError
                    raise MachineryError("unknown action %r in a SEQ behaviour" % a)
            # after EVERY action: forward and adjoint of the model itself, for the geometries it has now
            fwd_adj(m, "", e, d, r)
            ctx.facets["seq_action_" + a] = ctx.facets.get("seq_action_" + a, 0) + 1


# ----------------------------------------------------------------------------------------------------------------------
# the same operations on TWO objects: a model and its shallow copy (ModelGeom.tla, part SEQ2)
# ----------------------------------------------------------------------------------------------------------------------
SEQ2_DEVIATIONS = [("CopySharesAssembledMatrix", "Seq2MatrixCurrent")]
WHO = {1: "orig", 2: "copy"}


def seq2_key(beh):
    return "%s/f%d/%d.%d/" % (beh["mk"], beh["fi"], beh["d0"], beh["r0"]) + ".".join(
        ("C" + beh["ck"]) if st["a"] == "C" else "%s%d%s" % (st["a"], st["o"], st["g"] if st["g"] else "") for st in beh["steps"])


@_refusal("seq2/construct")
def check_seq2_case(ctx, case):
    """Replay one behaviour of the SEQ2 state machine: ONE real LinearModel, at the action Copy a second object derived from it
    (model(distribution) / copy.copy(model)), every other action on the object the step names.  After EVERY action BOTH objects
    must show the specification's forward / adjoint for THEIR OWN current pair of geometries (field `pairs` of the step), and
    what the action returns must be the value for the pair of the object it was applied to.

    case: kind=seq2, beh (mk, fi, d0, r0, ck, steps, variant, copy_as = the realisation of Copy where the specification leaves it
          open), pool {D, R}, lin [LinEval configurations of the pairs involved]"""
    import copy as _copy
    import cuqi
    from cuqiverif.tlc import MachineryError
    beh = case["beh"]
    mk = beh["mk"]
    lin = {(c["mk"], _gid(c["dg"]), _gid(c["rg"]), c["fi"]): c for c in case["lin"]}
    W = _SeqWorld(case["pool"], lin, mk, beh["fi"], beh.get("variant"))
    copy_as = beh["ck"] if beh["ck"] != "any" else beh.get("copy_as", "call")
    ctx.case("seq2/" + seq2_key(beh) + "/" + copy_as + ("/kl" if beh.get("variant") else ""), facet="seq2")
    with warnings.catch_warnings():
        warnings.simplefilter("ignore")
        objs = {1: W.model(beh["d0"], beh["r0"])}
    held = {1: None, 2: None}                    # the transposed model the user holds of each object
    pairs = {1: (beh["d0"], beh["r0"])}          # the pair of geometries each object has now (from the specification)
    K = _SeqChecks(ctx, case, W, mk, prefix="seq2")

    def look_at(o):
        """The comparisons that follow concern object o: the user's function pair sees function values of ITS geometries."""
        K.who = WHO[o]
        K.others = tuple(p for q, p in sorted(pairs.items()) if q != o)
        W.shape["dom"], W.shape["rng"] = W.geom("D", pairs[o][0]).fun_shape, W.geom("R", pairs[o][1]).fun_shape
        return W.exp(*pairs[o])

    for i, st in enumerate(beh["steps"]):
        a, o = st["a"], st["o"]
        K.done = (K.done + " . " if i else "") + (("copy=" + copy_as) if a == "C" else "%s(%s)%s" % (a, WHO[o], st["g"] if st["g"] else ""))
        with warnings.catch_warnings():
            warnings.simplefilter("ignore")
            if a == "C":
                e = look_at(1)
                try:
                    if copy_as == "call":
                        # what a user writes to put the model into a distribution: Gaussian(model(x), ...) with x a named
                        # distribution of the model's parameter dimension (dimension: the specification's, for this pair)
                        x = cuqi.distribution.Gaussian(np.zeros(e["matrix"].shape[1]), 1.0, name="z")
                        objs[2] = objs[1](x)
                    elif copy_as == "copy":
                        objs[2] = _copy.copy(objs[1])
                    else:
                        raise MachineryError("unknown realisation %r of the action Copy" % copy_as)
                except MachineryError:
                    raise
                except Exception as ex:  # noqa: BLE001
                    K.who = "copy"
                    K.bad("copy_" + copy_as, pairs[1][0], pairs[1][1], "raised", "deriving a second object from the model raised",
                          None, repr(ex))
                    return
                if objs[2] is objs[1]:
                    raise MachineryError("the action Copy did not produce a second object")
            elif a in ("SD", "SR"):
                side = a[1]
                new = W.geom(side, st["g"])
                look_at(o)
                try:
                    if side == "D":
                        objs[o].domain_geometry = new.obj
                    else:
                        objs[o].range_geometry = new.obj
                except Exception as ex:  # noqa: BLE001 - a refused assignment is acceptable: the behaviour ends here
                    ctx.observations.setdefault("seq_assignment_refused", {})[K.gk(*pairs[o])] = repr(ex)[:120]
                    return
                held[o] = None
            elif a in ("G", "T", "TG", "TT"):
                d, r = pairs[o]
                e = look_at(o)
                if a in ("TG", "TT") and held[o] is None:
                    raise MachineryError("SEQ2 behaviour uses the transposed model of an object that holds none")
                if a == "G":
                    if len(pairs) == 2 and pairs[1] != pairs[2]:
                        ctx.facets["seq2_get_matrix_while_the_objects_have_different_geometries"] = \
                            ctx.facets.get("seq2_get_matrix_while_the_objects_have_different_geometries", 0) + 1
                    K.matrix_of(objs[o], "get_", e, d, r, st["mp"])
                elif a == "T":
                    try:
                        held[o] = objs[o].T
                    except Exception as ex:  # noqa: BLE001
                        K.bad("T", d, r, "raised", ".T raised", None, repr(ex))
                        return
                    K.fwd_adj(held[o], "T_", e, d, r, transposed=True)
                elif a == "TG":
                    Tf = _columns(held[o].forward, e["matrix"].shape[0])
                    K.matrix_of(held[o], "T_", e, d, r, st["mp"], transposed=True, inh=st["inh"],
                                Tf=None if isinstance(Tf, Exception) else Tf)
                else:
                    try:
                        tt = held[o].T
                    except Exception as ex:  # noqa: BLE001
                        K.bad("TT", d, r, "raised", ".T.T raised", None, repr(ex))
                        return
                    K.fwd_adj(tt, "TT_", e, d, r)
                    K.matrix_of(tt, "TT_", e, d, r, st["mp"], inh=st["inh"])
            else:
                raise MachineryError("unknown action %r in a SEQ2 behaviour" % a)
            # the pair every object has now: the specification's
            pairs = {q + 1: tuple(p) for q, p in enumerate(st["pairs"])}
            if set(pairs) != set(objs) or pairs[o] != (st["d"], st["r"]):
                raise MachineryError("SEQ2 step %r: the logged pairs do not fit the objects of the replay" % (st,))
            # after EVERY action: forward and adjoint of BOTH objects, each for the geometries IT has now
            for q in sorted(objs):
                e = look_at(q)
                K.fwd_adj(objs[q], "", e, pairs[q][0], pairs[q][1])
            ctx.facets["seq2_action_%s_%s" % (a, WHO[o])] = ctx.facets.get("seq2_action_%s_%s" % (a, WHO[o]), 0) + 1
    ctx.facets["seq2_copy_" + copy_as] = ctx.facets.get("seq2_copy_" + copy_as, 0) + 1


def run_seq(ctx, lin):
    """TLC part SEQ + replay.  `lin`: the LinEval configurations emitted by part C07 (numbers for every pair)."""
    import random
    import zlib
    from cuqiverif import tlc
    from cuqiverif.core import MachineryError
    tier = ctx.tier
    for dev, inv in SEQ_DEVIATIONS:
        res = ctx.tlc("ModelGeom", cfg="ModelGeom.SEQ.%s.deviation.cfg" % dev, workers=1, expect_violation=True, timeout=600)
        if res.violated != inv:
            raise MachineryError("deviation %s did not violate %s on the SEQ model (violated=%r)" % (dev, inv, res.violated))
        ctx.observations.setdefault("deviation_counterexamples", {})["SEQ/" + dev] = inv
        tlc.cleanup(res)
    res = ctx.tlc("ModelGeom", cfg="ModelGeom.SEQ.%s.cfg" % tier, workers=4, timeout=1500)
    ctx.model_must_hold(res, "ModelGeom.SEQ")
    inits = [c for c in res.cases if c.get("kind") == "seqinit"]
    behs = [c for c in res.cases if c.get("kind") == "seq"]
    tlc.cleanup(res)
    # what the deviations that describe the tree as built predict for the same behaviours (attribution of mismatches)
    res = ctx.tlc("ModelGeom", cfg="ModelGeom.SEQ.asbuilt.%s.cfg" % tier, workers=4, timeout=1500)
    ctx.model_must_hold(res, "ModelGeom.SEQ.asbuilt")
    pred = {seq_key(c): c["steps"] for c in res.cases if c.get("kind") == "seq"}
    tlc.cleanup(res)
    if not inits or not behs:
        raise MachineryError("no behaviours emitted by ModelGeom part SEQ (init=%d, seq=%d)" % (len(inits), len(behs)))
    pool = {"D": inits[0]["D"], "R": inits[0]["R"]}
    behs.sort(key=seq_key)
    total = len(behs)
    cap = 12000
    if total > cap:       # thorough tier, depth 4: a seeded sample; every behaviour of depth 3 is a prefix of ~10 of them
        rnd = random.Random(ctx.seed)
        behs = sorted(rnd.sample(behs, cap), key=seq_key)
    lin_by = {}
    for c in lin:
        lin_by.setdefault((c["mk"], c["fi"]), {})[(_gid(c["dg"]), _gid(c["rg"]))] = c
    for b in behs:
        k = seq_key(b)
        if k not in pred:
            raise MachineryError("behaviour %s missing from the as-built run of part SEQ" % k)
        uses_exp = any(pool["D"][dd - 1]["kind"] == "linexp" or pool["R"][rr - 1]["kind"] == "linexp"
                       for dd, rr in seq_lin_needed(pool, b, pred[k]))
        # the abstract expansion is realised as an exact user geometry or as the real KLExpansion, alternating
        b["variant"] = "kl" if uses_exp and (zlib.crc32(k.encode()) & 1) else None
        table = lin_by.get((b["mk"], b["fi"]), {})
        cases = []
        for dd, rr in seq_lin_needed(pool, b, pred[k]):
            c = table.get((_gid(pool["D"][dd - 1]), _gid(pool["R"][rr - 1])))
            if c is None:
                raise MachineryError("no LinEval configuration for pair (%d, %d) of behaviour %s" % (dd, rr, k))
            cases.append(c)
        check_seq_case(ctx, {"kind": "seq", "beh": b, "pred": pred[k], "pool": pool, "lin": cases})
    # vacuity guards: every action kind replayed; at least one assignment that a cache keyed on `==` would not notice
    for a in ("G", "T", "TG", "TT", "SD", "SR"):
        if not ctx.facets.get("seq_action_" + a):
            raise MachineryError("SEQ replay never executed action %s" % a)
    if not ctx.observations.get("seq_assignments_of_a_geometry_the_library_calls_equal_to_the_old_one") \
            and not ctx.observations.get("seq_assignment_refused"):
        # such assignments exist only while the library's == calls two DIFFERENT geometries of the pool equal (a default geometry == every
        # Continuous1D subclass on its grid, e.g. a StepExpansion: finding C12-F2).  Once that is repaired (proposed_fixes/C12-default-geometry-eq.diff)
        # no two pool geometries compare equal and the guard has nothing to ask for: recorded, not a machinery failure.
        import cuqi
        lax = bool(cuqi.model.Model(lambda x: x, 4, 4).domain_geometry == cuqi.geometry.StepExpansion(np.arange(4.), n_steps=2))
        if lax:
            raise MachineryError("SEQ replay has no assignment of a geometry that compares equal to the replaced one")
        ctx.observe("seq_no_two_pool_geometries_compare_equal", True)
    ctx.observe("seq_behaviours", {"emitted": total, "replayed": len(behs), "depth": inits[0]["depth"]})
    ctx.sample({"case": {"kind": "seq", "key": seq_key(behs[len(behs) // 2]), "steps": behs[len(behs) // 2]["steps"]}})
    return len(behs)


def run_seq2(ctx, lin):
    """TLC part SEQ2 (a model and its shallow copy) + replay.  `lin`: the LinEval configurations of part C07."""
    import random
    import zlib
    from cuqiverif import tlc
    from cuqiverif.core import MachineryError
    for dev, inv in SEQ2_DEVIATIONS:
        res = ctx.tlc("ModelGeom", cfg="ModelGeom.SEQ.%s.deviation.cfg" % dev, workers=1, expect_violation=True, timeout=600)
        if res.violated != inv:
            raise MachineryError("deviation %s did not violate %s on the SEQ2 model (violated=%r)" % (dev, inv, res.violated))
        ctx.observations.setdefault("deviation_counterexamples", {})["SEQ2/" + dev] = inv
        tlc.cleanup(res)
    res = ctx.tlc("ModelGeom", cfg="ModelGeom.SEQ.copy.%s.cfg" % ctx.tier, workers=4, timeout=1500)
    ctx.model_must_hold(res, "ModelGeom.SEQ2")
    inits = [c for c in res.cases if c.get("kind") == "seq2init"]
    behs = [c for c in res.cases if c.get("kind") == "seq2"]
    tlc.cleanup(res)
    if not inits or not behs:
        raise MachineryError("no behaviours emitted by ModelGeom part SEQ2 (init=%d, seq2=%d)" % (len(inits), len(behs)))
    pool = {"D": inits[0]["D"], "R": inits[0]["R"]}
    behs.sort(key=seq2_key)
    total = len(behs)
    cap = 12000
    if total > cap:       # thorough tier: a seeded sample
        rnd = random.Random(ctx.seed + 1)
        behs = sorted(rnd.sample(behs, cap), key=seq2_key)
    lin_by = {}
    for c in lin:
        lin_by.setdefault((c["mk"], c["fi"]), {})[(_gid(c["dg"]), _gid(c["rg"]))] = c
    for b in behs:
        k = seq2_key(b)
        need = seq_lin_needed(pool, b, None)
        uses_exp = any(pool["D"][dd - 1]["kind"] == "linexp" or pool["R"][rr - 1]["kind"] == "linexp" for dd, rr in need)
        b["variant"] = "kl" if uses_exp and (zlib.crc32(k.encode()) & 1) else None
        # where the specification leaves the realisation of Copy open: model(distribution) / copy.copy(model), alternating
        b["copy_as"] = b["ck"] if b["ck"] != "any" else ("call", "copy")[(zlib.crc32(k.encode()) >> 1) & 1]
        table = lin_by.get((b["mk"], b["fi"]), {})
        cases = []
        for dd, rr in need:
            c = table.get((_gid(pool["D"][dd - 1]), _gid(pool["R"][rr - 1])))
            if c is None:
                raise MachineryError("no LinEval configuration for pair (%d, %d) of behaviour %s" % (dd, rr, k))
            cases.append(c)
        check_seq2_case(ctx, {"kind": "seq2", "beh": b, "pool": pool, "lin": cases})
    # vacuity guards: both realisations of Copy; every action kind on the original AND on the copy; matrices asked for
    # while the two objects have different geometries
    acts = sorted({st["a"] for b in behs for st in b["steps"]} - {"C"})
    if not {"G", "T", "SD", "SR"} <= set(acts):
        raise MachineryError("SEQ2 behaviours lack an action kind: %r" % acts)
    for a, who in [(a, w) for a in acts for w in WHO.values()] + [("C", "copy")]:
        # (a library that refuses an action ends the behaviour with a mismatch: reported as such, not as a machinery failure)
        if not ctx.facets.get("seq2_action_%s_%s" % (a, who)) and not ctx.violations and not ctx.observations.get("seq_assignment_refused"):
            raise MachineryError("SEQ2 replay never executed action %s on the %s" % (a, who))
    for ck in ("call", "copy"):
        if not ctx.facets.get("seq2_copy_" + ck) and not ctx.violations:
            raise MachineryError("SEQ2 replay never completed a behaviour with the realisation %r of Copy" % ck)
    if not ctx.facets.get("seq2_get_matrix_while_the_objects_have_different_geometries") and not ctx.violations:
        raise MachineryError("SEQ2 replay never asked for a matrix while the object and its copy had different geometries")
    ctx.observe("seq2_behaviours", {"emitted": total, "replayed": len(behs), "pre": inits[0]["pre"], "post": inits[0]["post"]})
    mid = behs[len(behs) // 2]
    ctx.sample({"case": {"kind": "seq2", "key": seq2_key(mid), "copy": mid["ck"], "steps": mid["steps"]}})
    return len(behs)


# ----------------------------------------------------------------------------------------------------------------------
# shipped test problems
# ----------------------------------------------------------------------------------------------------------------------
def _model_matrices(model):
    """(forward matrix, adjoint matrix or exception) on the parameter basis vectors."""
    nd, nr = model.domain_dim, model.range_dim
    Fw = np.column_stack([np.asarray(model.forward(e), dtype=float) for e in np.eye(nd)])
    try:
        with warnings.catch_warnings():
            warnings.simplefilter("ignore")
            Ad = np.column_stack([np.asarray(model.adjoint(e), dtype=float) for e in np.eye(nr)])
    except Exception as e:  # noqa: BLE001
        Ad = e
    return Fw, Ad


def _identities(ctx, case, key, model, x, y, classify_adjoint=None):
    """Inner-product identity, columns identity and T on a problem's own model (oracle: its own forward map)."""
    from cuqiverif.modelgeom_real import close
    Fw, Ad = _model_matrices(model)
    ctx.case("tp_identity/" + key, facet="tp_identity")
    if isinstance(Ad, Exception):
        ctx.observations.setdefault("adjoint_refused", {})["tp/" + key] = repr(Ad)[:120]
    else:
        fx, ay = Fw @ x, Ad @ y
        scale = max(1.0, np.abs(Fw).max() * np.abs(x).max() * np.abs(y).max() * len(x))
        if not close(Ad, Fw.T, 1e-9) or abs(fx @ y - x @ ay) > 1e-9 * scale:
            cls = classify_adjoint(Ad) if classify_adjoint else "other"
            ctx.mismatch("tp/%s/adjoint/%s" % (key, cls), case, "<A x, y> != <x, A* y>: adjoint is not the transpose of forward",
                         {"<Ax,y>": float(fx @ y), "A^T": Fw.T}, {"<x,A*y>": float(x @ ay), "A*": Ad})
    G, err = _try(lambda: _dense(model.get_matrix()))
    if err is not None or not close(G, Fw, 1e-9):
        stored = err is None and _is_matrix_backed(model)
        ctx.mismatch("tp/%s/get_matrix/%s" % (key, "stored" if stored else "other"), case,
                     "get_matrix() does not reproduce forward column by column", Fw, G if err is None else repr(err))
    try:
        T = model.T
        ta = np.column_stack([np.asarray(T.adjoint(e), dtype=float) for e in np.eye(model.domain_dim)])
        if not close(ta, Fw, 1e-9):
            ctx.mismatch("tp/%s/T_adjoint/other" % key, case, "T.adjoint is not forward", Fw, ta)
        if not isinstance(Ad, Exception):
            with warnings.catch_warnings():
                warnings.simplefilter("ignore")
                tf = np.column_stack([np.asarray(T.forward(e), dtype=float) for e in np.eye(model.range_dim)])
            if not close(tf, Ad, 1e-9):
                ctx.mismatch("tp/%s/T_forward/other" % key, case, "T.forward is not adjoint", Ad, tf)
    except Exception as e:  # noqa: BLE001
        ctx.mismatch("tp/%s/T/raised" % key, case, "the transposed model raised", None, repr(e))
    return Fw, Ad


def _is_matrix_backed(model):
    # a matrix-backed LinearModel stores the user's matrix; public behaviour: get_matrix() returns that very object
    return getattr(model, "_matrix", None) is not None


def check_conv1(ctx, case):
    import cuqi
    from cuqiverif.modelgeom_real import close, imat, ivec
    n, P, bc = case["n"], np.array(case["psf"], dtype=float), case["bc"]
    A, x, y = imat(case["A"]), ivec(case["x"]), ivec(case["y"])
    key = "deconv1d/psf=%s/bc=%s" % ("x".join(str(int(v)) for v in P), bc)
    ctx.case("tp/" + key, facet="deconv1d")
    # a documented option combination on which the library itself raises is a finding of the property (exit 1), not a
    # machinery failure (exit 2): only the library calls are guarded
    try:
        with _quiet():
            tp = cuqi.testproblem.Deconvolution1D(dim=n, PSF=P, BC=BC1[bc], phantom=np.ones(n))
        model = tp.model
        fx = np.asarray(model.forward(x), dtype=float)
        G = _dense(model.get_matrix())
        cols = np.column_stack([np.asarray(model.forward(e), dtype=float) for e in np.eye(n)])
        ay = np.asarray(model.adjoint(y), dtype=float)
    except Exception as e:  # noqa: BLE001
        ctx.mismatch("tp/%s/raised" % key, case, "Deconvolution1D with a custom PSF and a documented boundary condition raised in "
                     "construction / forward / get_matrix / adjoint", None, repr(e))
        return
    if not close(fx, ivec(case["Ax"])):
        cls = "transposed" if close(fx, A.T @ x) else "other"
        ctx.mismatch("tp/%s/forward/%s" % (key, cls), case,
                     "forward(x) is not the documented convolution (scipy.ndimage.convolve1d of x with the PSF under the boundary condition)"
                     + ("; it is its transpose" if cls == "transposed" else ""), case["Ax"], fx)
    if not close(G, A):
        cls = "transposed" if close(G, A.T) else "other"
        ctx.mismatch("tp/%s/matrix/%s" % (key, cls), case, "matrix of the problem does not have the columns A e_i of the documented "
                     "convolution" + (" (they are its rows)" if cls == "transposed" else ""), A, G)
    if not close(G, cols):
        ctx.mismatch("tp/%s/get_matrix/other" % key, case, "get_matrix() does not reproduce forward column by column", cols, G)
    if abs(fx @ y - x @ ay) > 1e-9 * max(1.0, abs(fx @ y)):
        ctx.mismatch("tp/%s/adjoint/other" % key, case, "<A x, y> != <x, A* y>", float(fx @ y), float(x @ ay))
    # scipy's convolve1d is the documented definition: the specification must agree with it (machinery sanity)
    from scipy.ndimage import convolve1d
    from cuqiverif.tlc import MachineryError
    mode = {"periodic": "wrap", "zero": "constant", "reflect": "reflect", "mirror": "mirror", "nearest": "nearest"}[bc]
    if not close(convolve1d(x, P, mode=mode), ivec(case["Ax"])):
        raise MachineryError("Conv1V of the specification disagrees with scipy.ndimage.convolve1d for %s" % key)


def check_conv2(ctx, case):
    import cuqi
    from cuqiverif.modelgeom_real import close, imat, ivec
    n, P, bc = case["n"], np.array(case["psf"], dtype=float), case["bc"]
    A, x, y = imat(case["A"]), ivec(case["x"]), ivec(case["y"])
    sym = bool(np.array_equal(P, P[::-1, ::-1]))
    key = "deconv2d/psf=custom_%s_%s/bc=%s" % ("odd" if P.shape[0] % 2 else "even", "sym" if sym else "asym", bc)
    ctx.case("tp/" + key, facet="deconv2d")
    try:
        with _quiet():
            tp = cuqi.testproblem.Deconvolution2D(dim=n, PSF=P, BC=BC2[bc], phantom=np.ones((n, n)))
        model = tp.model
        fx = np.asarray(model.forward(x), dtype=float)
    except Exception as e:  # noqa: BLE001 - see check_conv1
        ctx.mismatch("tp/%s/raised" % key, case, "Deconvolution2D with a custom PSF and a documented boundary condition raised in "
                     "construction / forward", None, repr(e))
        return
    if not close(fx, ivec(case["Ax"]), 1e-9):
        ctx.mismatch("tp/%s/forward/other" % key, case, "forward(x) is not the padded convolution of the specification", case["Ax"], fx)
        return
    flip_y = ivec(case["flip_y"])

    def classify(Ad):
        return "flipped_psf" if (not case["flip_exact"]) and close(Ad @ y, flip_y, 1e-9) else "other"

    Fw, Ad = _identities(ctx, case, key, model, x, y, classify)
    if not close(Fw, A, 1e-9):
        ctx.mismatch("tp/%s/forward/other" % key, case, "forward on the basis is not the convolution matrix of the specification", A, Fw)


def named_problems(tier):
    """Configurations of the shipped problems that have no integer oracle: every named PSF x size parity x BC (+ legacy), Abel1D."""
    out = []
    params = (None, 1.0) if tier == "thorough" else (None,)
    dims1 = (8, 7) if tier == "thorough" else (8,)
    for dim, psf, size, par, bc in itertools.product(dims1, ("gauss", "moffat", "defocus"), (None, 3, 4), params, BC1):
        out.append({"kind": "tp_named", "problem": "deconv1d", "dim": dim, "psf": psf, "size": size, "param": par, "bc": bc})
    for psf, par in itertools.product(("gauss", "sinc", "vonmises", "prolate", "custom"), params):
        out.append({"kind": "tp_named", "problem": "deconv1d_legacy", "dim": 8, "psf": psf, "param": par})
    for psf, size, par, bc in itertools.product(("gauss", "moffat", "defocus"), (3, 4), (2.56, 1.0) if tier == "thorough" else (2.56,), BC2):
        out.append({"kind": "tp_named", "problem": "deconv2d", "dim": 5, "psf": psf, "size": size, "param": par, "bc": bc})
    for field, mapped in itertools.product((None, "KL", "Step", "CustomKL"), (False, True)):
        out.append({"kind": "tp_named", "problem": "abel1d", "dim": 8, "field": field, "mapped": mapped})
    return out


def check_named(ctx, cfg):
    import cuqi
    from cuqiverif.modelgeom_real import close
    from cuqiverif.tlc import MachineryError
    prob = cfg["problem"]
    rs = np.random.RandomState(12345)
    if prob == "deconv1d":
        dim = cfg["dim"]
        key = "deconv1d/psf=%s_%s%s/bc=%s/dim=%d" % (cfg["psf"], {None: "full", 3: "odd", 4: "even"}[cfg["size"]],
                                                    "" if cfg["param"] is None else "_p%g" % cfg["param"], cfg["bc"], dim)
        try:
            with _quiet():
                tp = cuqi.testproblem.Deconvolution1D(dim=dim, PSF=cfg["psf"], PSF_size=cfg["size"], PSF_param=cfg["param"],
                                                      BC=BC1[cfg["bc"]])
        except Exception as e:  # noqa: BLE001 - whether an option combination is accepted is C17's business
            ctx.observations.setdefault("construct_error", {})[key] = repr(e)[:120]
            return
        ctx.case("tp/" + key, facet="deconv1d_named")
        x = rs.randint(-3, 4, size=dim).astype(float)
        y = rs.randint(-3, 4, size=dim).astype(float)
        # the documented operator: scipy.ndimage.convolve1d with the PSF of the option (helper of the test-problem module)
        helper = getattr(cuqi.testproblem._testproblem, "_getConvolutionOperator", None)
        if helper is None:
            raise MachineryError("cuqi.testproblem._testproblem._getConvolutionOperator disappeared")
        Afun = helper(dim, cfg["psf"], cfg["param"], cfg["size"], BC1[cfg["bc"]])
        A = np.column_stack([Afun(e) for e in np.eye(dim)])
        fx = np.asarray(tp.model.forward(x), dtype=float)
        if not close(fx, Afun(x), 1e-9):
            cls = "transposed" if close(fx, A.T @ x, 1e-9) else "other"
            ctx.mismatch("tp/%s/forward/%s" % (key, cls), cfg, "forward(x) is not the documented convolution of x"
                         + ("; it is its transpose" if cls == "transposed" else ""), Afun(x), fx)
        G = _dense(tp.model.get_matrix())
        if not close(G, A, 1e-9):
            cls = "transposed" if close(G, A.T, 1e-9) else "other"
            ctx.mismatch("tp/%s/matrix/%s" % (key, cls), cfg, "matrix of the problem does not have the columns A e_i", A, G)
        _identities(ctx, cfg, key, tp.model, x, y)
    elif prob == "deconv1d_legacy":
        dim = cfg["dim"]
        psf = np.array([1., 2, 4, 0, 0, 3, 1, 0]) if cfg["psf"] == "custom" else cfg["psf"]
        key = "deconv1d_legacy/psf=%s%s" % (cfg["psf"], "" if cfg["param"] is None else "_p%g" % cfg["param"])
        try:
            with _quiet():
                tp = cuqi.testproblem.Deconvolution1D(dim=dim, PSF=psf, PSF_param=None if cfg["psf"] == "custom" else cfg["param"],
                                                      use_legacy=True)
        except Exception as e:  # noqa: BLE001
            ctx.observations.setdefault("construct_error", {})[key] = repr(e)[:120]
            return
        ctx.case("tp/" + key, facet="deconv1d_legacy")
        x = rs.randint(-3, 4, size=dim).astype(float)
        y = rs.randint(-3, 4, size=dim).astype(float)
        Fw, _ = _identities(ctx, cfg, key, tp.model, x, y)
        ctx.observations.setdefault("legacy_matrix_symmetric", {})[key] = bool(close(Fw, Fw.T))
    elif prob == "deconv2d":
        dim = cfg["dim"]
        key = "deconv2d/psf=%s_%s_p%g/bc=%s" % (cfg["psf"], "odd" if cfg["size"] % 2 else "even", cfg["param"], cfg["bc"])
        try:
            with _quiet():
                tp = cuqi.testproblem.Deconvolution2D(dim=dim, PSF=cfg["psf"], PSF_size=cfg["size"], PSF_param=cfg["param"],
                                                      BC=BC2[cfg["bc"]], phantom=np.ones((dim, dim)))
        except Exception as e:  # noqa: BLE001
            ctx.observations.setdefault("construct_error", {})[key] = repr(e)[:120]
            return
        ctx.case("tp/" + key, facet="deconv2d_named")
        x = rs.randint(-3, 4, size=dim * dim).astype(float)
        y = rs.randint(-3, 4, size=dim * dim).astype(float)
        P = tp.Miscellaneous["PSF"] if hasattr(tp, "Miscellaneous") else None
        model = tp.model

        def classify(Ad):
            # the code's construction: the same padded convolution with the flipped PSF
            if P is None:
                return "other"
            with _quiet():
                tpf = cuqi.testproblem.Deconvolution2D(dim=dim, PSF=np.asarray(P)[::-1, ::-1].copy(), BC=BC2[cfg["bc"]],
                                                       phantom=np.ones((dim, dim)))
            Ff = np.column_stack([np.asarray(tpf.model.forward(e), dtype=float) for e in np.eye(dim * dim)])
            return "flipped_psf" if close(Ad, Ff, 1e-9) else "other"

        _identities(ctx, cfg, key, model, x, y, classify)
    elif prob == "abel1d":
        dim = cfg["dim"]
        key = "abel1d/field=%s%s" % (cfg["field"], "_mapped" if cfg["mapped"] else "")
        kw = {}
        if cfg["field"] == "KL":
            kw["field_params"] = {"num_modes": 3}
        if cfg["field"] == "Step":
            kw["field_params"] = {"n_steps": 4}
        if cfg["field"] == "CustomKL":
            kw["field_params"] = {"trunc_term": 3}
        if cfg["mapped"]:
            kw["KL_map"] = lambda f: 2 * f
            kw["KL_imap"] = lambda f: f / 2
        ctx.case("tp/" + key, facet="abel1d")
        try:
            with _quiet():
                tp = cuqi.testproblem.Abel1D(dim=dim, field_type=cfg["field"], **kw)
        except Exception as e:  # noqa: BLE001
            # the shipped problem under its own field types: well-formed by the specification (ModelGeomConstruct.tla, mk = "abel")
            ctx.mismatch("tp/%s/construction_refused" % key, cfg, "the library refused to construct the shipped Abel1D problem with one of its own field "
                         "types (its matrix acts on the function values of the field; invariant WellFormedAccepted)", "accepted", repr(e))
            return
        model = tp.model
        x = rs.randint(-3, 4, size=model.domain_dim).astype(float)
        y = rs.randint(-3, 4, size=model.range_dim).astype(float)
        dg, rg = model.domain_geometry, model.range_geometry

        def classify(Ad):
            # coded composition from the original geometry objects and the problem's operator on function values
            try:
                with warnings.catch_warnings():
                    warnings.simplefilter("ignore")
                    nfun = len(np.asarray(dg.par2fun(np.zeros(model.domain_dim))))
                    Afun = np.column_stack([np.asarray(model.forward(e, is_par=False), dtype=float) for e in np.eye(nfun)])
                    C = np.column_stack([np.asarray(dg.fun2par(Afun.T @ np.asarray(rg.par2fun(e))), dtype=float)
                                         for e in np.eye(model.range_dim)])
                return "via_fun2par" if close(Ad, C, 1e-9) else "other"
            except Exception:  # noqa: BLE001
                return "other"

        _identities(ctx, cfg, key, model, x, y, classify)
    else:
        raise MachineryError("unknown named problem %r" % prob)


# ----------------------------------------------------------------------------------------------------------------------
def run(ctx):
    from cuqiverif import tlc
    from cuqiverif.core import MachineryError
    tier = ctx.tier
    # named deviations: each must violate exactly its invariant on the model (non-vacuity + design-level explanation)
    for part, dev, inv in DEVIATIONS:
        res = ctx.tlc("ModelGeom", cfg="ModelGeom.%s.%s.deviation.cfg" % (part, dev), workers=1, expect_violation=True, timeout=600)
        if res.violated != inv:
            raise MachineryError("deviation %s did not violate %s on the model (violated=%r)" % (dev, inv, res.violated))
        ctx.observations.setdefault("deviation_counterexamples", {})[dev] = inv
        tlc.cleanup(res)
    res = ctx.tlc("ModelGeom", cfg="ModelGeom.C07.%s.cfg" % tier, workers=4, timeout=1500)
    ctx.model_must_hold(res, "ModelGeom.C07")
    lin = [c for c in res.cases if c.get("kind") == "lin"]
    tlc.cleanup(res)
    res = ctx.tlc("ModelGeom", cfg="ModelGeom.TP.%s.cfg" % tier, workers=4, timeout=1500)
    ctx.model_must_hold(res, "ModelGeom.TP")
    conv = [c for c in res.cases if c.get("kind") in ("conv1", "conv2")]
    tlc.cleanup(res)
    # TLC's workers emit in arbitrary order: replay in a fixed order
    lin.sort(key=lambda c: (c["mk"], c["dg"]["n"], c["dg"]["kind"], c["dg"]["k"], c["dg"]["proj"], c["rg"]["kind"], c["rg"]["k"],
                            c["rg"]["proj"], c["fi"]))
    conv.sort(key=lambda c: (c["kind"], c["psf_id"], c["bc"]))
    if not lin or not conv:
        raise MachineryError("no cases emitted by ModelGeom (lin=%d, conv=%d)" % (len(lin), len(conv)))
    # where the coded composition fun2par.F*.par2fun cannot be the transpose (listed by TLC on the model)
    from cuqiverif.modelgeom_real import gkey
    nt = sorted({"dom=%s/rng=%s" % (gkey(c["dg"]), gkey(c["rg"])) for c in lin if not c["coded_is_transpose"]})
    ctx.observe("geometry_pairs_where_fun2par_composition_is_not_the_transpose", len(nt))
    ctx.observe("geometry_kinds_breaking_the_transpose",
                sorted({gkey(c["dg"]) for c in lin if not c["coded_is_transpose"] and gkey(c["rg"]) == "cont1d"}
                       | {gkey(c["rg"]) for c in lin if not c["coded_is_transpose"] and gkey(c["dg"]) == "cont1d"}))
    # (the TLC runs of part SEQE go on in the background while the parts before it are replayed)
    from cuqiverif.c07_edit import run_edit, start_tlc, wait_tlc
    from cuqiverif import c07_fun
    started = start_tlc(ctx)
    started_fun = c07_fun.start_tlc(ctx)         # part FUN / LAY (ModelGeomFun.tla), also in the background
    from cuqiverif import c07_construct
    started_con = c07_construct.start_tlc(ctx)   # part CON (ModelGeomConstruct.tla): construction as a step of its own
    from cuqiverif import c07_vec
    started_vec = c07_vec.start_tlc(ctx)         # parts ARR / VEC (ModelGeomVec.tla): carried geometries, vector-only function pairs
    try:
        for c in lin:
            check_lin_case(ctx, c)
        nseq = run_seq(ctx, lin)
        nseq += run_seq2(ctx, lin)
    except BaseException:
        wait_tlc(started)
        c07_fun.wait_tlc(started_fun)
        c07_construct.wait_tlc(started_con)
        c07_vec.wait_tlc(started_vec)
        raise
    try:
        nseq += run_edit(ctx, lin, started)
    except BaseException:
        c07_fun.wait_tlc(started_fun)
        c07_construct.wait_tlc(started_con)
        c07_vec.wait_tlc(started_vec)
        raise
    try:
        nseq += c07_fun.run_fun(ctx, started_fun, lin)
    except BaseException:
        c07_construct.wait_tlc(started_con)
        c07_vec.wait_tlc(started_vec)
        raise
    try:
        nseq += c07_construct.run_construct(ctx, started_con, lin)
    except BaseException:
        c07_vec.wait_tlc(started_vec)
        raise
    nseq += c07_vec.run_all(ctx, started_vec)
    for c in conv:
        (check_conv1 if c["kind"] == "conv1" else check_conv2)(ctx, c)
    named = named_problems(tier)
    for cfg in named:
        check_named(ctx, cfg)
    pick = [c for c in lin if c["mk"] == "func" and c["dg"]["kind"] == "imgF" and c["rg"]["kind"] == "step"][:1]
    for c in pick:
        ctx.sample({"case": {k: c[k] for k in ("mk", "dg", "rg", "F", "x", "y", "fwd_x", "adj_y", "adj_y_coded", "matrix")}})
    ctx.sample({"case": {k: conv[0][k] for k in ("kind", "n", "psf", "bc", "A", "x", "Ax", "ATy")}})
    ctx.sample({"case": named[0]})
    ctx.rule = ("one case per (model kind, domain geometry, range geometry, core operator) emitted by TLC from ModelGeom.tla with exact "
                "Fwd x, Adj y, matrix; one per (1-D/2-D, PSF, boundary condition) with the integer convolution matrix; named-PSF / legacy / "
                "Abel1D configurations enumerated by the harness; non-trivial = distinct configuration x check kind "
                "(forward, adjoint, get_matrix, T, tp); one per behaviour of the SEQ state machine (sequence of operations on one object) "
                "and of the SEQ2 state machine (the same operations on a model and its shallow copy); one per behaviour of the SEQE state "
                "machine of ModelGeomEdit.tla (in-place edits of the matrix interleaved with them)")
    ctx.exhaustive = True
    ctx.traces = len(lin) + len(conv) + len(named) + nseq
    ctx.assumptions += ["function dimensions 4 and 6; test problems of dimension 4-8",
                        "sequences: start configurations and geometry pools of ModelGeom.tla part SEQ (default, step, mapped, "
                        "expansion; Image2D F in the thorough tier); a refused geometry assignment ends the behaviour (observation)",
                        "two objects: the copy is model(Gaussian(zeros(p), 1, name='z')) or copy.copy(model); geometries are only "
                        "ASSIGNED through the public attributes (nothing is asserted about mutating a shared geometry object in place); "
                        "quick tier: 4 start configurations, get_matrix before the copy or not, 3 actions after it",
                        "KLExpansion realised numerically: its par2fun/fun2par matrices are read off the original geometry object",
                        "named PSFs: documented operator taken from cuqi.testproblem._testproblem._getConvolutionOperator (scipy convolve1d)",
                        "floating comparison rtol=atol=1e-10 (1e-9 for FFT-based 2-D convolution)"]


def replay(ctx, case):
    kind = case.get("kind")
    if kind == "model":
        return run(ctx)
    if kind == "lin":
        return check_lin_case(ctx, case)
    if kind == "seq":
        return check_seq_case(ctx, case)
    if kind == "seq2":
        return check_seq2_case(ctx, case)
    if kind == "seqe":
        from cuqiverif.c07_edit import check_behaviour
        return check_behaviour(ctx, case)
    if kind in ("fun", "lay"):
        from cuqiverif import c07_fun
        return c07_fun.replay(ctx, case)
    if kind in ("arr", "vec"):
        from cuqiverif import c07_vec
        return c07_vec.replay(ctx, case)
    if kind == "con":
        from cuqiverif import c07_construct
        return c07_construct.replay(ctx, case)
    if kind == "conv1":
        return check_conv1(ctx, case)
    if kind == "conv2":
        return check_conv2(ctx, case)
    if kind == "tp_named":
        return check_named(ctx, case)
    from cuqiverif.core import MachineryError
    raise MachineryError("unknown replay case kind %r" % kind)
