"""C11 - conditioning, evaluating and sampling never alter the objects they start from.

Spec: specs/ObjHistory.tla.  TLC enumerates all interleavings of creating actions (Condition, ToLikelihood,
Copy+EnableFD, ApplyModel) and observing actions (Logd, Gradient, Sample, RunSampler, GibbsSweeps) over an object pool,
checks the frame condition / NameKept / OriginalsClean and emits every behaviour.  The replayer executes each behaviour
on real CUQIpy objects (graph realisations of jointgraphs.py), keeps for EVERY live object the behavioural fingerprint
taken when it was created, and re-takes the fingerprints of ALL objects after EVERY action.
"""
META = {
    "claimed": True,
    "engine": "ObjHistory.tla",
    "text": ("TLC explores all action interleavings over the object pool (quick: depth 3 exhaustively for N=2, 8,058 states; thorough: "
             "depth 4 for N=3, 904,004 states, plus simulated behaviours of depth 7), checks the frame action property and requires "
             "two named deviations to violate it; every emitted behaviour is replayed on real objects with the behavioural fingerprint "
             "(log-densities at two probe points, gradient, parameter names, conditioning variables, name, dim, geometry, FD flag, seeded "
             "sample) of every live object compared after every action. User assignments are actions too: to a derived copy (incl. the FD switch of "
             "a likelihood obtained by conditioning on the data; a likelihood from to_likelihood() is a documented VIEW and has no switch of its "
             "own in the spec) and to a stand-alone original after copies were derived - only the assigned object may change."),
    "note": ("Behavioural equality is judged on the fingerprint, not on object internals; graphs/families are the fixed recipes of "
             "jointgraphs.py; Gibbs sweeps use MH block samplers (k = 20 quick / 300 thorough sweeps, i.e. up to ~1000 re-conditionings)."),
    "technique": "TLA+ spec (ObjHistory) model-checked with TLC; TLC-generated operation interleavings replayed with fingerprints of all live objects after every action",
}

import json, random, warnings
import numpy as np

GRAPHS = {2: [[[2], []], [[], [1]], [[2], [1]]],
          3: [[[2, 3], [3], []], [[2], [3], []], [[3], [3], []], [[2], [3], [1]]],
          4: [[[2, 3, 4], [], [], []], [[2, 3, 4], [3, 4], [4], []], [[2, 3], [3, 4], [4], []]]}


def _num(x):
    try:
        return np.asarray(x, dtype=float).reshape(-1).tolist()
    except Exception:
        return repr(type(x))


def _try_str(f):
    try:
        return str(f())
    except Exception:
        return "raises"


def _try(f):
    try:
        return _num(f())
    except Exception as ex:
        return "raises"


def _make_forward(B):
    def forward(z):
        return B @ z + 0.5 * (B @ z) ** 2
    return forward


def _composites():
    """stand-alone conditional distributions of the composite families (a wrapped inner Gaussian)"""
    import cuqi
    def reg():
        return cuqi.implicitprior.RegularizedGaussian(np.array([0.5, -0.5]), cov=lambda s: 1.0 / s, constraint="nonnegativity", name="w")
    def con():
        return cuqi.implicitprior.ConstrainedGaussian(lambda s: np.array([1.0, 2.0]) * s, cov=2.0, constraint="box", lower_bound=0.0, upper_bound=5.0,
                                                      geometry=2, name="w")
    def lgn():
        return cuqi.distribution.Lognormal(lambda s: np.array([0.1, 0.2]) * s, np.array([0.5, 0.5]), name="w")
    def lgn_cov():
        # the COVARIANCE depends on the hyper-parameter: copies conditioned on different values are used in turn
        return cuqi.distribution.Lognormal(np.array([0.1, 0.2]), lambda s: s * np.array([0.5, 0.25]), name="w")
    def rgm():
        return cuqi.implicitprior.RegularizedGMRF(np.zeros(3), prec=lambda s: s, constraint="nonnegativity", name="w")
    def lazy_normal():
        # no geometry: the size is only known once the distribution is conditioned (copies of DIFFERENT sizes)
        return cuqi.distribution.Normal(mean=lambda s: s, std=lambda s: 1.5 + 0 * np.abs(s), name="w")
    def lazy_laplace():
        return cuqi.distribution.Laplace(location=lambda s: s, scale=lambda s: 0.5 + 0 * np.abs(s), name="w")
    # Gaussians whose matrix parameter is handed in in an unusual memory layout / storage format: what the object keeps is
    # derived from (or IS) the caller's array, and every conditioned copy shares it
    B = np.array([[2.0, 0.5, 0.0], [0.25, 1.5, 0.5], [0.5, 0.0, 1.0]])
    S = B @ B.T + np.eye(3)
    def g_sqrtprec_f():
        return cuqi.distribution.Gaussian(lambda s: np.array([0.1, 0.2, 0.3]) * s, sqrtprec=np.asfortranarray(B.T), name="w")
    def g_cov_f():
        return cuqi.distribution.Gaussian(lambda s: np.array([0.1, 0.2, 0.3]) * s, cov=np.asfortranarray(S), name="w")
    def g_prec_sparse():
        import scipy.sparse as sps
        return cuqi.distribution.Gaussian(lambda s: np.array([0.1, 0.2, 0.3]) * s, prec=sps.csc_matrix(S), name="w")
    def g_sqrtcov_view():
        big = np.zeros((6, 6))
        big[::2, ::2] = B
        return cuqi.distribution.Gaussian(lambda s: np.array([0.1, 0.2, 0.3]) * s, sqrtcov=big[::2, ::2], name="w")
    return [("RegularizedGaussian", reg), ("ConstrainedGaussian", con), ("Lognormal", lgn), ("RegularizedGMRF", rgm),
            ("LazyNormal", lazy_normal), ("LazyLaplace", lazy_laplace), ("Lognormal.cov", lgn_cov),
            ("Gaussian.sqrtprec.fortran", g_sqrtprec_f), ("Gaussian.cov.fortran", g_cov_f), ("Gaussian.prec.csc", g_prec_sparse),
            ("Gaussian.sqrtcov.view", g_sqrtcov_view)]


def _cond_value(o, which):
    """value for the conditioning variable: size-agnostic distributions get vectors of different lengths"""
    if type(o).__name__ in ("Normal", "Laplace"):
        return np.linspace(-1, 1, 5) if which == "probe" else np.zeros(3)
    return 2.0 if which == "probe" else 3.0


def _probe_composite(o):
    """behaviour of a composite distribution: through its parameter if it is still conditional"""
    out = {}
    try:
        cv = list(o.get_conditioning_variables())
        out["cond_vars"] = sorted(cv)
        c = o(**{cv[0]: _cond_value(o, "probe")}) if cv else o
        x = np.arange(1, c.dim + 1, dtype=float) * 0.5
    except Exception:
        return {"probe": "raises"}
    if hasattr(c, "gaussian"):
        out["inner_logpdf"] = _try(lambda: c.gaussian.logpdf(x))
        out["inner_mean"] = _try(lambda: c.gaussian.mean)
        out["prox"] = _try(lambda: c.proximal(x - 1.0, 0.5)[0] if isinstance(c.proximal(x - 1.0, 0.5), tuple) else c.proximal(x - 1.0, 0.5))
    else:
        out["logpdf"] = _try(lambda: c.logpdf(x))
        out["sample"] = _try(lambda: c.sample(rng=np.random.RandomState(7)))
    return out


def _mutate(o):
    """the user assigns EVERY parameter of an object (numbers shifted by one, functions replaced by the shifted function);
    returns the names of the attributes assigned, or None if there was none"""
    done = []
    for var in o.get_mutable_variables():
        try:
            val = getattr(o, var)
        except Exception:
            continue
        if val is None:
            continue
        if callable(val):
            # a parameter given as a function of the conditioning variable: assign the function shifted by one
            try:
                import cuqi
                from cuqiverif import jointgraphs as jg
                if isinstance(val, cuqi.model.Model):
                    continue
                names = list(cuqi.utilities.get_non_default_args(val))
                setattr(o, var, jg._named_lambda(names, lambda *a, _f=val: np.asarray(_f(*a), dtype=float) + 1.0))
                done.append(var)
            except Exception:
                pass
            continue
        try:
            a = np.asarray(val, dtype=float)
        except Exception:
            continue
        if a.ndim > 1:
            continue
        try:
            setattr(o, var, a + 1.0)
            done.append(var)
        except Exception:
            continue
    return done or None


class Pool:
    def __init__(self, R, sweeps):
        self.R = R
        self.objs = []      # dicts: obj, kind, fixed {v: val}, v (factor variable), fp
        self.sweeps = sweeps

    def free(self, e):
        return [v for v in range(1, self.R.N + 1) if v not in e["fixed"]]

    def add(self, obj, kind, fixed=None, v=None, hidden=False):
        e = {"obj": obj, "kind": kind, "fixed": dict(fixed or {}), "v": v, "hidden": hidden}
        e["fp"] = self.fingerprint(e)
        self.objs.append(e)
        return e

    def fingerprint(self, e):
        from cuqiverif import jointgraphs as jg
        o, kind, R = e["obj"], e["kind"], self.R
        fp = {"class": type(o).__name__}
        if kind in ("joint", "cond"):
            free = self.free(e)
            fp["names"] = _try(lambda: 0) and list(o.get_parameter_names())
            for k in (1, 2):
                vals = R.completion(k)
                vals.update(e["fixed"])
                kw = {jg.name(v): vals[v] for v in free}
                fp["logd%d" % k] = _try(lambda: o.logd(**kw))
            if len(free) == 1 and hasattr(o, "gradient"):
                vals = R.completion(1)
                fp["grad"] = _try(lambda: o.gradient(vals[free[0]]))
            if hasattr(o, "FD_enabled"):
                fp["fd"] = bool(o.FD_enabled)
            if hasattr(o, "get_density"):
                # what the object hands out for each variable (class and parameters of the factor it holds)
                def _gd(nm):
                    d = o.get_density(nm)
                    return "%s%s" % (type(d).__name__, sorted(d.get_parameter_names()))
                fp["densities"] = [_try_str(lambda nm=jg.name(v): _gd(nm)) for v in range(1, R.N + 1)]
        elif kind == "factor":
            v = e["v"]
            F = R.factors[v]
            fp["name"] = o.name
            fp["dim"] = o.dim
            fp["geometry"] = repr(o.geometry)
            fp["cond_vars"] = sorted(o.get_conditioning_variables())
            fp["names"] = list(o.get_parameter_names())
            fp["fd"] = bool(o.FD_enabled)
            fp["constant"] = _try(lambda: o.logd(**{jg.name(u): R.completion(1)[u] for u in [v] + F.parents}) - F.oracle(R.completion(1)))
            for k in (1, 2):
                vals = R.completion(k)
                fp["logd%d" % k] = _try(lambda: o.logd(**{jg.name(u): vals[u] for u in [v] + F.parents}))
            if not F.parents:
                fp["sample"] = _try(lambda: o.sample(rng=np.random.RandomState(7)))
                fp["grad"] = _try(lambda: o.gradient(R.completion(1)[v]))
        elif kind == "composite":
            fp["name"] = _try(lambda: 0) and o.name
            fp["dim"] = _try(lambda: o.dim)
            fp["fd"] = bool(o.FD_enabled)
            fp.update({"p_" + k: v for k, v in _probe_composite(o).items()})
        elif kind == "lik":
            v = e["v"]
            F = R.factors[v]
            fp["name"] = o.name
            fp["names"] = _try(lambda: 0) and list(o.get_parameter_names())
            if hasattr(o, "FD_enabled"):
                fp["fd"] = _try_str(lambda: o.FD_enabled)
            for k in (1, 2):
                vals = R.completion(k)
                if F.parents:
                    fp["logd%d" % k] = _try(lambda: o.logd(**{jg.name(u): vals[u] for u in F.parents}))
                else:
                    fp["logd%d" % k] = _try(lambda: o.logd())
        elif kind == "model":
            fp["fwd"] = _try(lambda: o.forward(np.arange(1, e["din"] + 1, dtype=float)))
            fp["domain"] = repr(o.domain_geometry)
            fp["range"] = repr(o.range_geometry)
            fp["args"] = _try(lambda: 0) and list(getattr(o, "_non_default_args", []))
        return fp

    def check_all(self, ctx, action, case):
        from cuqiverif.core import MachineryError
        for i, e in enumerate(self.objs):
            try:
                now = self.fingerprint(e)
            except MachineryError:
                raise
            except Exception as ex:
                # the very probes that succeeded when the object was created now raise: its behaviour has changed
                ctx.mismatch("frame/%s/%s/probe_raises" % (action, e["kind"]), dict(case, altered_object=i),
                             "after %s the %s object #%d can no longer be probed as when it was created: %s: %s" % (
                                 action, e["kind"], i + 1, type(ex).__name__, str(ex)[:120]))
                return False
            for k, v0 in e["fp"].items():
                v1 = now.get(k)
                same = v0 == v1
                if not same and isinstance(v0, list) and isinstance(v1, list) and len(v0) == len(v1) and all(
                        isinstance(a, float) for a in v0 + v1):
                    same = np.allclose(v0, v1, rtol=1e-12, atol=0, equal_nan=True)
                if not same:
                    ctx.mismatch("frame/%s/%s/%s" % (action, e["kind"], k), dict(case, altered_object=i, field=k),
                                 "after %s the %s object #%d no longer behaves as when it was created (field %s)" % (action, e["kind"], i + 1, k),
                                 v0, v1)
                    return False
        return True


CREATING = ("condition", "to_likelihood", "cond_factor", "copy_enable_fd", "apply_model")


def _features(c):
    """what a behaviour exercises (used to guarantee a floor of behaviours per feature in the plan)"""
    nobj = 1 + c["n"] + c.get("k", 0)
    made_by = {}                 # object number -> action that created it
    origin_of = {}               # object number -> object it was derived from
    fixed_by = {}                # object number -> variables fixed by the Condition that created it
    f = set()
    mutated = False
    for pos, (act, o, arg) in enumerate(c["hist"]):
        f.add("act:" + act)
        src = made_by.get(o)
        if act == "condition" and src == "condition":
            f.add("staged_condition")
            if c["n"] == 4:
                f.add("staged_condition_n4")
                # both stages fix some, together not all, of the variables 2, 3, 4 (the parents of variable 1 in the
                # N = 4 graphs whose first factor has three parents): a callable is conditioned PARTIALLY twice
                P, S1, S2 = {2, 3, 4}, set(fixed_by.get(o, ())), set(arg)
                if S1 & P and S2 & P and len((S1 | S2) & P) <= 2:
                    f.add("two_stage_partial_n4")
        if act == "gibbs" and src == "condition":
            f.add("gibbs_on_cond")
        if act == "run_sampler" and src == "condition":
            f.add("sampler_on_cond")
        if act in CREATING and src == "condition":
            f.add("derive_from_cond")
        if mutated and act not in ("mutate_copy", "mutate_original"):
            f.add("observe_after_mutate")
        if act == "mutate_copy" and src == "to_likelihood":
            f.add("mutate_derived_likelihood")
        if act == "copy_enable_fd" and src == "to_likelihood":
            f.add("copy_of_likelihood")
        if act == "mutate_original" and any(a in ("cond_factor", "copy_enable_fd") and oo == o for a, oo, _ in c["hist"][:pos]):
            f.add("mutate_original_after_deriving")
        if act == "mutate_copy" and any(a == "to_likelihood" and oo == o for a, oo, _ in c["hist"][:pos]):
            f.add("mutate_underlying_of_likelihood")
        if act == "mutate_copy" and src in ("cond_factor", "copy_enable_fd") and any(
                a == "mutate_original" and made_by.get(o) is not None and oo == origin_of.get(o) for a, oo, _ in c["hist"][:pos]):
            f.add("switch_original_then_copy")
        if act in ("mutate_copy", "mutate_original"):
            mutated = True
        if act in CREATING:
            nobj += 1
            made_by[nobj] = act
            origin_of[nobj] = o
            if act == "condition":
                fixed_by[nobj] = list(fixed_by.get(o, ())) + list(arg)
    return f


def _skip(ctx, act, why):
    """a behaviour that cannot be continued on the real objects (the spec object does not exist): counted, never silent"""
    k = "skipped/%s/%s" % (act, why)
    ctx.facets[k] = ctx.facets.get(k, 0) + 1


def replay_case(ctx, case, par, r, sweeps, seed):
    import cuqi
    from cuqiverif import jointgraphs as jg
    from cuqiverif.zoo import quiet
    R = jg.Realisation(par, r)
    N = R.N
    pool = Pool(R, sweeps)
    with quiet():
        factors = R.build_factors()
        J = cuqi.distribution.JointDistribution(*factors)
    pool.add(J, "joint")
    for v, f in enumerate(factors, start=1):
        pool.add(f, "factor", v=v)
    comps = _composites()
    cnames = []
    for c in range(case.get("k", 0)):
        import zlib
        nm, mk = comps[(zlib.crc32(json.dumps([case["hist"], par, r], sort_keys=True).encode()) + seed + c) % len(comps)]
        ctx.facets["composite/" + nm] = ctx.facets.get("composite/" + nm, 0) + 1
        with quiet():
            pool.add(mk(), "composite")
        cnames.append(nm)
    vals0 = R.completion(3)
    base = dict(kind="objhist", n=N, k=case.get("k", 0), par=par, r=r, hist=case["hist"], composites=cnames, seed=seed, sweeps=sweeps)
    specidx = list(range(len(pool.objs)))       # spec object number (1-based) -> index in pool.objs
    for pos, (act, o, arg) in enumerate(case["hist"]):
        e = pool.objs[specidx[o - 1]]
        c = dict(base, pos=pos)
        new = None
        effective = True            # False: the action had nothing to act on here (counted apart, see the vacuity guard)
        np.random.seed(seed + pos)
        if act == "mutate_copy" and e["kind"] == "lik" and e.get("view"):
            from cuqiverif.core import MachineryError
            raise MachineryError("the specification does not switch finite differences through a view")
        try:
            with quiet():
                if act == "condition":
                    S = [v for v in arg]
                    obj = e["obj"](**{jg.name(v): vals0[v] for v in S})
                    fx = dict(e["fixed"])
                    fx.update({v: vals0[v] for v in S})
                    new = (obj, "cond", fx, None, {})
                elif act == "cond_factor":
                    cv = list(e["obj"].get_conditioning_variables())
                    if not cv:
                        _skip(ctx, act, "not_conditional")
                        return
                    new = (e["obj"](**{cv[0]: _cond_value(e["obj"], "cond")}), "composite", {}, None, {})
                elif act in ("mutate_copy", "mutate_original"):
                    tgt = e["obj"]
                    if e["kind"] == "lik":
                        # the public switches of a derived likelihood: finite-difference gradients on / off
                        if not hasattr(tgt, "enable_FD"):
                            _skip(ctx, act, "likelihood_without_fd_switch")       # e.g. the constant density of an unconditional factor
                            return
                        if bool(getattr(tgt, "FD_enabled", False)):
                            tgt.disable_FD()
                        else:
                            tgt.enable_FD()
                        ctx.facets["mutate/lik_fd_switch"] = ctx.facets.get("mutate/lik_fd_switch", 0) + 1
                    else:
                        if e["kind"] not in ("factor", "composite") or not hasattr(tgt, "get_mutable_variables"):
                            _skip(ctx, act, "no_mutable_variables")
                            return
                        if _mutate(tgt) is None:
                            _skip(ctx, act, "no_numeric_parameter")
                            return
                        # ... and flips the public finite-difference switch of that object
                        if hasattr(tgt, "enable_FD") and hasattr(tgt, "disable_FD"):
                            try:
                                if bool(tgt.FD_enabled):
                                    tgt.disable_FD()
                                else:
                                    tgt.enable_FD()
                                ctx.facets["mutate/fd_switch"] = ctx.facets.get("mutate/fd_switch", 0) + 1
                            except Exception:
                                ctx.facets["mutate/fd_switch_refused"] = ctx.facets.get("mutate/fd_switch_refused", 0) + 1
                    e["fp"] = pool.fingerprint(e)        # this object was changed deliberately; all others must be unchanged
                    for d in pool.objs:                  # ... except its views (likelihoods made by to_likelihood() wrap it)
                        if d.get("view_of") is e:
                            d["fp"] = pool.fingerprint(d)
                elif act == "to_likelihood":
                    # two realisations of the spec's action: the method, and conditioning on the data alone.  Both objects are
                    # made and followed; which of them is the spec's new object alternates
                    via_method = e["obj"].to_likelihood(vals0[e["v"]])
                    via_call = e["obj"](**{jg.name(e["v"]): vals0[e["v"]]})
                    how = (list(arg) + ["method"])[0]
                    first, second = (via_method, via_call) if how == "method" else (via_call, via_method)
                    ctx.facets["to_likelihood/" + how] = ctx.facets.get("to_likelihood/" + how, 0) + 1
                    if second is not e["obj"]:
                        hid = pool.add(second, "lik", v=e["v"], hidden=True)
                        if second is via_method:
                            hid["view_of"] = e
                    new = (first, "lik", {}, e["v"], {"view": how == "method", "view_of": e if how == "method" else None})
                elif act == "copy_enable_fd":
                    if hasattr(e["obj"], "enable_FD"):
                        cpy = e["obj"]()
                        try:
                            has_parameters = len(e["obj"].get_parameter_names()) > 0
                        except Exception:
                            has_parameters = True
                        if cpy is e["obj"] and not has_parameters:
                            # conditioning on nothing handed back the object itself - a constant without any parameter left
                            # (EvaluatedDensity): no copy exists, there is nothing to enable finite differences on
                            ctx.facets["action/copy_is_self"] = ctx.facets.get("action/copy_is_self", 0) + 1
                            return      # the spec's new object does not exist: the behaviour cannot be continued
                        # (an object WITH parameters that hands back itself is followed: switching finite differences on "the
                        # copy" then shows in the original, which the frame condition reports)
                        cpy.enable_FD()
                        new = (cpy, e["kind"], e["fixed"], e["v"], {})
                    else:
                        new = (e["obj"](), e["kind"], e["fixed"], e["v"], {})
                elif act == "apply_model":
                    d = jg.DIMS[e["v"]]
                    B = np.arange(1, 2 * d + 1, dtype=float).reshape(2, d)
                    # the domain geometry of the model is, in turn, a plain size, an identity-like geometry with a grid, a mapped
                    # geometry and a step expansion (the distribution the model is applied to keeps ITS OWN geometry)
                    gk = (pos + seed + r + e["v"]) % 4
                    if gk == 0:
                        dgeom = d
                    elif gk == 1:
                        dgeom = cuqi.geometry.Continuous1D(np.linspace(0, 1, d))
                    elif gk == 2:
                        dgeom = cuqi.geometry.MappedGeometry(cuqi.geometry.Continuous1D(d), map=lambda z: 2 * z, imap=lambda z: z / 2)
                    else:
                        dgeom = cuqi.geometry.StepExpansion(np.linspace(0, 1, d), n_steps=d) if d >= 2 else cuqi.geometry.Discrete(d)
                    ctx.facets["apply_model/domain_geometry=%d" % gk] = ctx.facets.get("apply_model/domain_geometry=%d" % gk, 0) + 1
                    m = cuqi.model.Model(forward=_make_forward(B), range_geometry=2, domain_geometry=dgeom)
                    hid = pool.add(m, "model", hidden=True)
                    hid["din"] = d
                    hid["fp"] = pool.fingerprint(hid)
                    m2 = m(e["obj"])
                    new = (m2, "model", {}, e["v"], {"din": d})
                elif act == "rename_original":
                    # the name lives in the original; conditioned copies look it up there ("keeps the name of its original")
                    root = e["obj"]
                    newname = "w%d" % (pos + 2)
                    root.name = newname
                    e["root_name"] = newname
                    for d in pool.objs:
                        if d["kind"] == "composite" and d.get("root") is e:
                            nm = d["obj"].name
                            if nm != newname:
                                ctx.mismatch("name/rename_original", c, "a conditioned copy does not carry the (new) name of its original",
                                             newname, nm)
                                return
                    for d in pool.objs:            # names are part of the fingerprints: re-take them for this family
                        if d is e or d.get("root") is e:
                            d["fp"] = pool.fingerprint(d)
                elif act == "bad_call":
                    # malformed calls are refused (C01); a refused call must not leave anything behind
                    for bad in (lambda: e["obj"](zz_unknown_variable=np.ones(1)),
                                lambda: e["obj"].logd(zz_unknown_variable=np.ones(1)),
                                lambda: e["obj"](np.ones(1), np.ones(1), np.ones(1), np.ones(1), np.ones(1), np.ones(1))):
                        try:
                            bad()
                        except Exception:
                            pass
                elif act == "logd":
                    pool.fingerprint(e)
                elif act == "gradient":
                    free = pool.free(e) if e["kind"] in ("joint", "cond") else [e["v"]]
                    if hasattr(e["obj"], "gradient") and len(free) == 1 and free[0] is not None:
                        try:
                            e["obj"].gradient(vals0[free[0]])
                        except Exception:
                            pass          # whether a gradient exists is C03's matter; here: attempting it changes nothing
                    else:
                        effective = False
                elif act == "sample":
                    try:
                        e["obj"].sample(3)
                    except Exception:
                        pass
                elif act == "run_sampler":
                    tgt = e["obj"]
                    if isinstance(tgt, cuqi.distribution.Distribution):
                        free = pool.free(e)
                        M = cuqi.experimental.mcmc
                        x0 = R.completion(1)[free[0]]
                        # the property does not single out a sampler: every kernel of the stateful interface is run on the
                        # object (a gradient-based one that its target cannot serve is refused -> counted, nothing else)
                        kinds = [("MH", lambda: M.MH(tgt, scale=0.1, initial_point=x0)),
                                 ("MALA", lambda: M.MALA(tgt, scale=0.01, initial_point=x0)),
                                 ("CWMH", lambda: M.CWMH(tgt, scale=0.1, initial_point=x0)),
                                 ("ULA", lambda: M.ULA(tgt, scale=0.01, initial_point=x0)),
                                 ("NUTS", lambda: M.NUTS(tgt, max_depth=2, initial_point=x0))]
                        ran = 0
                        for nm, mk in kinds:
                            try:
                                mk().warmup(3).sample(4)
                                ran += 1
                                ctx.facets["sampler/" + nm] = ctx.facets.get("sampler/" + nm, 0) + 1
                            except Exception:
                                ctx.facets["sampler_refused/" + nm] = ctx.facets.get("sampler_refused/" + nm, 0) + 1
                        effective = ran > 0
                    else:
                        effective = False     # the conditioned copy did not reduce to a single density: no sampler applies
                elif act == "gibbs":
                    free = pool.free(e)
                    strat = {jg.name(v): cuqi.experimental.mcmc.MH(scale=0.1, initial_point=R.completion(1)[v]) for v in free}
                    cuqi.experimental.mcmc.HybridGibbs(e["obj"], strat).warmup(2).sample(sweeps)
        except Exception as ex:
            ctx.observations.setdefault("actions_refused", {}).setdefault(act, 0)
            ctx.observations["actions_refused"][act] += 1
            new = None
            effective = False
            if act in ("condition", "to_likelihood", "copy_enable_fd", "apply_model", "cond_factor", "mutate_copy", "mutate_original"):
                return       # the behaviour cannot be continued (the spec object does not exist); C01 judges refusals
        if new is not None:
            obj, kind, fixed, v, extra = new
            ent = {"obj": obj, "kind": kind, "fixed": dict(fixed), "v": v, "hidden": False}
            ent.update(extra)
            if kind == "composite":
                ent["root"] = e.get("root", e)
            ent["fp"] = pool.fingerprint(ent)
            pool.objs.append(ent)
            specidx.append(len(pool.objs) - 1)
            # a conditioned / derived copy keeps the random-variable name of its original
            if kind in ("lik",) or (act == "copy_enable_fd" and kind == "factor") or act == "cond_factor":
                try:
                    if obj.name != e["obj"].name:
                        ctx.mismatch("name/%s" % act, c, "derived object does not keep the name of its original", e["obj"].name, obj.name)
                        return
                except Exception as ex:
                    ctx.mismatch("name/%s/raises" % act, c, "name of the derived object cannot be determined: %s" % str(ex)[:100])
                    return
        fk = ("action/" if effective else "noop/") + act
        ctx.facets[fk] = ctx.facets.get(fk, 0) + 1
        if not pool.check_all(ctx, act, c):
            return
    ctx.traces += 1


def lazy_names(ctx):
    """NameKept for objects whose name is never given: it is inferred (lazily) from the variable the object is bound to.  Every
    object derived from such an original - before or after the original's name was first looked up - carries that name."""
    import cuqi
    from cuqiverif.zoo import quiet
    G = cuqi.distribution.Gaussian

    def expect(tag, obj, want, case):
        try:
            got = obj.name
        except Exception as ex:
            got = "raises %s" % type(ex).__name__
        ctx.case(("lazy_name", tag))
        ctx.facets["lazy_name/" + tag] = ctx.facets.get("lazy_name/" + tag, 0) + 1
        if got != want:
            ctx.mismatch("name/lazy/" + tag, dict(case, tag=tag), "derived object does not carry the (inferred) name of its original", want, got)
    case = {"kind": "lazy_names"}
    with quiet():
        # unconditional distribution fixed at a value, positionally, BEFORE the name of the original was ever looked up
        zvar = G(np.zeros(2), 1.0)
        ev = zvar(np.ones(2))
        expect("evaluated/positional/before_lookup", ev, "zvar", case)
        expect("original/after", zvar, "zvar", case)
        zvar2 = G(np.zeros(2), 1.0)
        ev2 = zvar2.to_likelihood(np.ones(2))
        expect("evaluated/to_likelihood/before_lookup", ev2, "zvar2", case)
        # ... and after it was looked up
        zvar3 = G(np.zeros(2), 1.0)
        _ = zvar3.name
        expect("evaluated/positional/after_lookup", zvar3(np.ones(2)), "zvar3", case)
        expect("evaluated/keyword/after_lookup", zvar3(zvar3=np.ones(2)), "zvar3", case)
        # conditional distribution: conditioned on its parameter positionally, copy by an empty call, likelihood, fixed likelihood
        yvar = G(lambda s: s * np.ones(2), 1.0, geometry=2)
        cond = yvar(2.0)
        expect("conditioned/positional/before_lookup", cond, "yvar", case)
        yvar2 = G(lambda s: s * np.ones(2), 1.0, geometry=2)
        lik = yvar2.to_likelihood(np.ones(2))
        expect("likelihood/to_likelihood/before_lookup", lik, "yvar2", case)
        expect("likelihood_fixed/positional", lik(2.0), "yvar2", case)
        yvar3 = G(lambda s: s * np.ones(2), 1.0, geometry=2)
        cp = yvar3()
        expect("copy/empty_call/before_lookup", cp, "yvar3", case)
        expect("copy_conditioned_fixed", cp(2.0)(np.ones(2)), "yvar3", case)
        # a model applied to an unnamed distribution takes that name as its argument name
        xvar = G(np.zeros(2), 1.0)
        m = cuqi.model.LinearModel(np.eye(2))(xvar)
        ctx.case(("lazy_name", "model_argument"))
        if list(m._non_default_args) != ["xvar"]:
            ctx.mismatch("name/lazy/model_argument", case, "a model applied to an unnamed distribution does not take its inferred name", ["xvar"], list(m._non_default_args))
        expect("original/after_model", xvar, "xvar", case)


def run(ctx):
    from cuqiverif.core import MachineryError
    warnings.filterwarnings("ignore")
    rnd = random.Random(ctx.seed)
    ACTIONS = ["DoCondition", "DoToLikelihood", "DoCondFactor", "DoMutateCopy", "DoMutateOriginal", "DoCopyEnableFD", "DoApplyModel", "DoObserve"]
    res = ctx.tlc("ObjHistory", cfg="ObjHistory.quick.cfg", workers=16, require_actions=ACTIONS)
    ctx.model_must_hold(res, "ObjHistory.quick")
    cases = sorted(res.cases, key=lambda c: json.dumps(c, sort_keys=True))     # TLC's workers emit in scheduling order
    if ctx.tier == "thorough":
        r2 = ctx.tlc("ObjHistory", cfg="ObjHistory.thorough.cfg", workers=16, timeout=1500)
        ctx.model_must_hold(r2, "ObjHistory.thorough")
    # N = 4 (no composites), every behaviour of depth 3: the source of staged PARTIAL conditionings of one callable
    r4 = ctx.tlc("ObjHistory", cfg="ObjHistory.n4.cfg", workers=16, timeout=1500)
    ctx.model_must_hold(r4, "ObjHistory.n4")
    cases4 = sorted((c for c in r4.cases if "two_stage_partial_n4" in _features(c)), key=lambda c: json.dumps(c, sort_keys=True))
    for cfg in ("dev_const", "dev_fd", "dev_inner"):
        r = ctx.tlc("ObjHistory", cfg="ObjHistory.%s.cfg" % cfg, workers=4, expect_violation=True)
        if r.ok or r.violated not in ("OriginalsClean", "Frame"):
            raise MachineryError("deviation %s did not violate the frame condition" % cfg)
    sim = ctx.tlc("ObjHistory", cfg="ObjHistory.sim.cfg", mode="simulate", simulate="num=%d" % (300 if ctx.tier == "quick" else 1500),
                  depth=8, workers=1, seed=ctx.seed + 1, timeout=1200)
    ctx.model_must_hold(sim, "ObjHistory.sim")
    simcases = sim.cases
    sim4 = ctx.tlc("ObjHistory", cfg="ObjHistory.sim4.cfg", mode="simulate", simulate="num=%d" % (200 if ctx.tier == "quick" else 800),
                   depth=7, workers=1, seed=ctx.seed + 2, timeout=1200)
    ctx.model_must_hold(sim4, "ObjHistory.sim4")
    simcases = simcases + sim4.cases
    nq, ns = (260, 60) if ctx.tier == "quick" else (2500, 1200)
    plan = rnd.sample(cases, min(nq, len(cases))) + rnd.sample(simcases, min(ns, len(simcases)))
    # What a seeded subset happens to contain must not decide whether a class of behaviours is exercised: every feature
    # below occurs in at least `floor` behaviours of the plan (taken from everything TLC emitted).
    floor = 25 if ctx.tier == "quick" else 150
    chosen = {json.dumps(c, sort_keys=True) for c in plan}
    allcases = cases + simcases + cases4
    feats = {json.dumps(c, sort_keys=True): _features(c) for c in allcases}
    wanted = ["act:condition", "act:logd", "act:gradient", "act:run_sampler", "act:gibbs", "act:apply_model", "act:mutate_copy", "act:cond_factor", "act:to_likelihood",
              "act:copy_enable_fd", "act:sample", "act:bad_call", "act:mutate_original", "mutate_derived_likelihood", "mutate_original_after_deriving", "mutate_underlying_of_likelihood", "switch_original_then_copy", "copy_of_likelihood", "staged_condition", "staged_condition_n4", "gibbs_on_cond",
              "sampler_on_cond", "derive_from_cond", "observe_after_mutate", "two_stage_partial_n4"]
    for ft in wanted:
        have = sum(1 for c in plan if ft in feats[json.dumps(c, sort_keys=True)])
        if have < floor:
            pool_ = [c for c in allcases if ft in feats[json.dumps(c, sort_keys=True)] and json.dumps(c, sort_keys=True) not in chosen]
            extra = rnd.sample(pool_, min(len(pool_), floor - have))
            plan += extra
            chosen |= {json.dumps(c, sort_keys=True) for c in extra}
        ctx.facets["plan/" + ft] = sum(1 for c in plan if ft in feats[json.dumps(c, sort_keys=True)])
    sweeps = 20 if ctx.tier == "quick" else 300
    for i, c in enumerate(plan):
        graphs = GRAPHS[c["n"]]
        par = graphs[i % len(graphs)]
        r = (i // len(graphs)) % 3
        if c["n"] == 4 and "staged_condition" in feats[json.dumps(c, sort_keys=True)] and i % 4 != 3:
            r = 2       # staged partial conditioning needs ONE callable with several arguments (realisation 2) to mean anything
            if "two_stage_partial_n4" in feats[json.dumps(c, sort_keys=True)]:
                par = graphs[i % 2]         # the two graphs in which variable 1 has the parents 2, 3, 4
        ctx.case(("objhist", str(par), r, str(c["hist"])))
        replay_case(ctx, c, par, r, sweeps if i % 7 == 0 else 5, 9000 + ctx.seed)
    lazy_names(ctx)
    need = {"action/condition", "action/to_likelihood", "action/copy_enable_fd", "action/apply_model", "action/logd",
            "action/gradient", "action/sample", "action/run_sampler", "action/gibbs", "action/cond_factor", "action/mutate_copy", "action/bad_call",
            "action/mutate_original", "mutate/lik_fd_switch", "to_likelihood/method", "to_likelihood/call", "apply_model/domain_geometry=0", "apply_model/domain_geometry=1",
            "apply_model/domain_geometry=2", "apply_model/domain_geometry=3", "lazy_name/likelihood_fixed/positional", "sampler/MH", "sampler/CWMH", "sampler/MALA", "sampler/ULA", "sampler/NUTS"}
    need |= {"composite/" + nm for nm, _ in _composites()}
    if not need <= set(ctx.facets):
        raise MachineryError("vacuous replay: actions never exercised: %s" % sorted(need - set(ctx.facets)))
    ctx.sample({"behaviour": plan[0]})
    ctx.sample({"behaviour": plan[-1]})
    ctx.rule = ("behaviours = action interleavings emitted by TLC (exhaustive depth 3 for N=2, simulated depth 7 for N=3), a seeded subset "
                "replayed over a catalogue of graphs x 2 realisations; distinct = (graph, realisation, action sequence)")
    ctx.exhaustive = False
    ctx.assumptions += ["fingerprint equality (rtol 1e-12) stands for behavioural equality of an object"]


def replay(ctx, case):
    from cuqiverif.core import MachineryError
    if case.get("kind") == "model":
        res = ctx.tlc("ObjHistory", cfg="ObjHistory.quick.cfg", workers=16)
        return ctx.model_must_hold(res, "ObjHistory.quick")
    if "par" not in case or "hist" not in case:
        raise MachineryError("replay: not a C11 behaviour: %r" % (sorted(case),))
    replay_case(ctx, case, case["par"], case["r"], case.get("sweeps", 20), case.get("seed", 9000 + ctx.seed))
