"""C11 - conditioning, evaluating and sampling never alter the objects they start from.

Spec: specs/ObjHistory.tla.  TLC enumerates all interleavings of creating actions (Condition, ToLikelihood,
Copy+EnableFD, ApplyModel) and observing actions (Logd, Gradient, Sample, RunSampler, GibbsSweeps) over an object pool,
checks the frame condition / NameKept / OriginalsClean and emits every behaviour.  The replayer executes each behaviour
on real CUQIpy objects (graph realisations of jointgraphs.py), keeps for EVERY live object the behavioural fingerprint
taken when it was created, and re-takes the fingerprints of ALL objects after EVERY action.
"""
META = {
    "claimed": True,
    "engine": "ObjHistory.tla",
    "text": ("TLC explores all action interleavings over the object pool (quick: depth 3 exhaustively for N=2, 8,058 states; thorough: "
             "depth 4 for N=3, 904,004 states, plus simulated behaviours of depth 7), checks the frame action property and requires "
             "two named deviations to violate it; every emitted behaviour is replayed on real objects with the behavioural fingerprint "
             "(log-densities at two probe points, gradient, parameter names, conditioning variables, name, dim, geometry, FD flag, seeded "
             "sample) of every live object compared after every action."),
    "note": ("Behavioural equality is judged on the fingerprint, not on object internals; graphs/families are the fixed recipes of "
             "jointgraphs.py; Gibbs sweeps use MH block samplers (k = 20 quick / 300 thorough sweeps, i.e. up to ~1000 re-conditionings)."),
    "technique": "TLA+ spec (ObjHistory) model-checked with TLC; TLC-generated operation interleavings replayed with fingerprints of all live objects after every action",
}

import random, warnings
import numpy as np

GRAPHS = {2: [[[2], []], [[], [1]], [[2], [1]]],
          3: [[[2, 3], [3], []], [[2], [3], []], [[3], [3], []], [[2], [3], [1]]],
          4: [[[2, 3, 4], [], [], []], [[2, 3, 4], [3, 4], [4], []], [[2, 3], [3, 4], [4], []]]}


def _num(x):
    try:
        return np.asarray(x, dtype=float).reshape(-1).tolist()
    except Exception:
        return repr(type(x))


def _try(f):
    try:
        return _num(f())
    except Exception as ex:
        return "raises"


def _make_forward(B):
    def forward(z):
        return B @ z + 0.5 * (B @ z) ** 2
    return forward


def _composites():
    """stand-alone conditional distributions of the composite families (a wrapped inner Gaussian)"""
    import cuqi
    def reg():
        return cuqi.implicitprior.RegularizedGaussian(np.array([0.5, -0.5]), cov=lambda s: 1.0 / s, constraint="nonnegativity", name="w")
    def con():
        return cuqi.implicitprior.ConstrainedGaussian(lambda s: np.array([1.0, 2.0]) * s, cov=2.0, constraint="box", lower_bound=0.0, upper_bound=5.0,
                                                      geometry=2, name="w")
    def lgn():
        return cuqi.distribution.Lognormal(lambda s: np.array([0.1, 0.2]) * s, np.array([0.5, 0.5]), name="w")
    def rgm():
        return cuqi.implicitprior.RegularizedGMRF(np.zeros(3), prec=lambda s: s, constraint="nonnegativity", name="w")
    def lazy_normal():
        # no geometry: the size is only known once the distribution is conditioned (copies of DIFFERENT sizes)
        return cuqi.distribution.Normal(mean=lambda s: s, std=lambda s: 1.5 + 0 * np.abs(s), name="w")
    def lazy_laplace():
        return cuqi.distribution.Laplace(location=lambda s: s, scale=lambda s: 0.5 + 0 * np.abs(s), name="w")
    return [("RegularizedGaussian", reg), ("ConstrainedGaussian", con), ("Lognormal", lgn), ("RegularizedGMRF", rgm),
            ("LazyNormal", lazy_normal), ("LazyLaplace", lazy_laplace)]


def _cond_value(o, which):
    """value for the conditioning variable: size-agnostic distributions get vectors of different lengths"""
    if type(o).__name__ in ("Normal", "Laplace"):
        return np.linspace(-1, 1, 5) if which == "probe" else np.zeros(3)
    return 2.0 if which == "probe" else 3.0


def _probe_composite(o):
    """behaviour of a composite distribution: through its parameter if it is still conditional"""
    out = {}
    try:
        cv = list(o.get_conditioning_variables())
        out["cond_vars"] = sorted(cv)
        c = o(**{cv[0]: _cond_value(o, "probe")}) if cv else o
        x = np.arange(1, c.dim + 1, dtype=float) * 0.5
    except Exception:
        return {"probe": "raises"}
    if hasattr(c, "gaussian"):
        out["inner_logpdf"] = _try(lambda: c.gaussian.logpdf(x))
        out["inner_mean"] = _try(lambda: c.gaussian.mean)
        out["prox"] = _try(lambda: c.proximal(x - 1.0, 0.5)[0] if isinstance(c.proximal(x - 1.0, 0.5), tuple) else c.proximal(x - 1.0, 0.5))
    else:
        out["logpdf"] = _try(lambda: c.logpdf(x))
        out["sample"] = _try(lambda: c.sample(rng=np.random.RandomState(7)))
    return out


def _mutate(o):
    """the user assigns a parameter of a derived copy; returns the attribute name or None"""
    for var in o.get_mutable_variables():
        try:
            val = getattr(o, var)
        except Exception:
            continue
        if val is None or callable(val):
            continue
        try:
            a = np.asarray(val, dtype=float)
        except Exception:
            continue
        if a.ndim > 1:
            continue
        setattr(o, var, a + 1.0)
        return var
    return None


class Pool:
    def __init__(self, R, sweeps):
        self.R = R
        self.objs = []      # dicts: obj, kind, fixed {v: val}, v (factor variable), fp
        self.sweeps = sweeps

    def free(self, e):
        return [v for v in range(1, self.R.N + 1) if v not in e["fixed"]]

    def add(self, obj, kind, fixed=None, v=None, hidden=False):
        e = {"obj": obj, "kind": kind, "fixed": dict(fixed or {}), "v": v, "hidden": hidden}
        e["fp"] = self.fingerprint(e)
        self.objs.append(e)
        return e

    def fingerprint(self, e):
        from cuqiverif import jointgraphs as jg
        o, kind, R = e["obj"], e["kind"], self.R
        fp = {"class": type(o).__name__}
        if kind in ("joint", "cond"):
            free = self.free(e)
            fp["names"] = _try(lambda: 0) and list(o.get_parameter_names())
            for k in (1, 2):
                vals = R.completion(k)
                vals.update(e["fixed"])
                kw = {jg.name(v): vals[v] for v in free}
                fp["logd%d" % k] = _try(lambda: o.logd(**kw))
            if len(free) == 1 and hasattr(o, "gradient"):
                vals = R.completion(1)
                fp["grad"] = _try(lambda: o.gradient(vals[free[0]]))
            if hasattr(o, "FD_enabled"):
                fp["fd"] = bool(o.FD_enabled)
        elif kind == "factor":
            v = e["v"]
            F = R.factors[v]
            fp["name"] = o.name
            fp["dim"] = o.dim
            fp["geometry"] = repr(o.geometry)
            fp["cond_vars"] = sorted(o.get_conditioning_variables())
            fp["names"] = list(o.get_parameter_names())
            fp["fd"] = bool(o.FD_enabled)
            fp["constant"] = _try(lambda: o.logd(**{jg.name(u): R.completion(1)[u] for u in [v] + F.parents}) - F.oracle(R.completion(1)))
            for k in (1, 2):
                vals = R.completion(k)
                fp["logd%d" % k] = _try(lambda: o.logd(**{jg.name(u): vals[u] for u in [v] + F.parents}))
            if not F.parents:
                fp["sample"] = _try(lambda: o.sample(rng=np.random.RandomState(7)))
                fp["grad"] = _try(lambda: o.gradient(R.completion(1)[v]))
        elif kind == "composite":
            fp["name"] = _try(lambda: 0) and o.name
            fp["dim"] = _try(lambda: o.dim)
            fp["fd"] = bool(o.FD_enabled)
            fp.update({"p_" + k: v for k, v in _probe_composite(o).items()})
        elif kind == "lik":
            v = e["v"]
            F = R.factors[v]
            fp["name"] = o.name
            fp["names"] = _try(lambda: 0) and list(o.get_parameter_names())
            for k in (1, 2):
                vals = R.completion(k)
                if F.parents:
                    fp["logd%d" % k] = _try(lambda: o.logd(**{jg.name(u): vals[u] for u in F.parents}))
                else:
                    fp["logd%d" % k] = _try(lambda: o.logd())
        elif kind == "model":
            fp["fwd"] = _try(lambda: o.forward(np.arange(1, e["din"] + 1, dtype=float)))
            fp["domain"] = repr(o.domain_geometry)
            fp["range"] = repr(o.range_geometry)
            fp["args"] = _try(lambda: 0) and list(getattr(o, "_non_default_args", []))
        return fp

    def check_all(self, ctx, action, case):
        for i, e in enumerate(self.objs):
            now = self.fingerprint(e)
            for k, v0 in e["fp"].items():
                v1 = now.get(k)
                same = v0 == v1
                if not same and isinstance(v0, list) and isinstance(v1, list) and len(v0) == len(v1) and all(
                        isinstance(a, float) for a in v0 + v1):
                    same = np.allclose(v0, v1, rtol=1e-12, atol=0, equal_nan=True)
                if not same:
                    ctx.mismatch("frame/%s/%s/%s" % (action, e["kind"], k), dict(case, altered_object=i, field=k),
                                 "after %s the %s object #%d no longer behaves as when it was created (field %s)" % (action, e["kind"], i + 1, k),
                                 v0, v1)
                    return False
        return True


def replay_case(ctx, case, par, r, sweeps, seed):
    import cuqi
    from cuqiverif import jointgraphs as jg
    from cuqiverif.zoo import quiet
    R = jg.Realisation(par, r)
    N = R.N
    pool = Pool(R, sweeps)
    with quiet():
        factors = R.build_factors()
        J = cuqi.distribution.JointDistribution(*factors)
    pool.add(J, "joint")
    for v, f in enumerate(factors, start=1):
        pool.add(f, "factor", v=v)
    comps = _composites()
    cnames = []
    for c in range(case.get("k", 0)):
        nm, mk = comps[(seed + c + len(case["hist"])) % len(comps)]
        with quiet():
            pool.add(mk(), "composite")
        cnames.append(nm)
    vals0 = R.completion(3)
    base = dict(kind="objhist", n=N, par=par, r=r, hist=case["hist"], composites=cnames)
    specidx = list(range(len(pool.objs)))       # spec object number (1-based) -> index in pool.objs
    for pos, (act, o, arg) in enumerate(case["hist"]):
        e = pool.objs[specidx[o - 1]]
        c = dict(base, pos=pos)
        new = None
        np.random.seed(seed + pos)
        try:
            with quiet():
                if act == "condition":
                    S = [v for v in arg]
                    obj = e["obj"](**{jg.name(v): vals0[v] for v in S})
                    fx = dict(e["fixed"])
                    fx.update({v: vals0[v] for v in S})
                    new = (obj, "cond", fx, None, {})
                elif act == "cond_factor":
                    cv = list(e["obj"].get_conditioning_variables())
                    if not cv:
                        return
                    new = (e["obj"](**{cv[0]: _cond_value(e["obj"], "cond")}), "composite", {}, None, {})
                elif act == "mutate_copy":
                    tgt = e["obj"]
                    if e["kind"] not in ("factor", "composite") or not hasattr(tgt, "get_mutable_variables"):
                        return
                    if _mutate(tgt) is None:
                        return
                    e["fp"] = pool.fingerprint(e)        # this object was changed deliberately; all others must be unchanged
                elif act == "to_likelihood":
                    new = (e["obj"].to_likelihood(vals0[e["v"]]), "lik", {}, e["v"], {})
                elif act == "copy_enable_fd":
                    if hasattr(e["obj"], "enable_FD"):
                        cpy = e["obj"]()
                        if cpy is e["obj"]:
                            # conditioning on nothing handed back the object itself (e.g. an EvaluatedDensity, a constant):
                            # no copy exists, so there is nothing to enable finite differences on without touching the original
                            ctx.facets["action/copy_is_self"] = ctx.facets.get("action/copy_is_self", 0) + 1
                            return      # the spec's new object does not exist: the behaviour cannot be continued
                        cpy.enable_FD()
                        new = (cpy, e["kind"], e["fixed"], e["v"], {})
                    else:
                        new = (e["obj"](), e["kind"], e["fixed"], e["v"], {})
                elif act == "apply_model":
                    d = jg.DIMS[e["v"]]
                    B = np.arange(1, 2 * d + 1, dtype=float).reshape(2, d)
                    m = cuqi.model.Model(forward=_make_forward(B), range_geometry=2, domain_geometry=d)
                    hid = pool.add(m, "model", hidden=True)
                    hid["din"] = d
                    hid["fp"] = pool.fingerprint(hid)
                    m2 = m(e["obj"])
                    new = (m2, "model", {}, e["v"], {"din": d})
                elif act == "bad_call":
                    # malformed calls are refused (C01); a refused call must not leave anything behind
                    for bad in (lambda: e["obj"](zz_unknown_variable=np.ones(1)),
                                lambda: e["obj"].logd(zz_unknown_variable=np.ones(1)),
                                lambda: e["obj"](np.ones(1), np.ones(1), np.ones(1), np.ones(1), np.ones(1), np.ones(1))):
                        try:
                            bad()
                        except Exception:
                            pass
                elif act == "logd":
                    pool.fingerprint(e)
                elif act == "gradient":
                    free = pool.free(e) if e["kind"] in ("joint", "cond") else [e["v"]]
                    if hasattr(e["obj"], "gradient") and len(free) == 1:
                        try:
                            e["obj"].gradient(vals0[free[0]])
                        except Exception:
                            pass
                elif act == "sample":
                    try:
                        e["obj"].sample(3)
                    except Exception:
                        pass
                elif act == "run_sampler":
                    tgt = e["obj"]
                    if isinstance(tgt, cuqi.distribution.Distribution):
                        free = pool.free(e)
                        cuqi.experimental.mcmc.MH(tgt, scale=0.1, initial_point=R.completion(1)[free[0]]).warmup(3).sample(5)
                elif act == "gibbs":
                    free = pool.free(e)
                    strat = {jg.name(v): cuqi.experimental.mcmc.MH(scale=0.1, initial_point=R.completion(1)[v]) for v in free}
                    cuqi.experimental.mcmc.HybridGibbs(e["obj"], strat).warmup(2).sample(sweeps)
        except Exception as ex:
            ctx.observations.setdefault("actions_refused", {}).setdefault(act, 0)
            ctx.observations["actions_refused"][act] += 1
            new = None
            if act in ("condition", "to_likelihood", "copy_enable_fd", "apply_model", "cond_factor", "mutate_copy"):
                return       # the behaviour cannot be continued (the spec object does not exist); C01 judges refusals
        if new is not None:
            obj, kind, fixed, v, extra = new
            ent = {"obj": obj, "kind": kind, "fixed": dict(fixed), "v": v, "hidden": False}
            ent.update(extra)
            ent["fp"] = pool.fingerprint(ent)
            pool.objs.append(ent)
            specidx.append(len(pool.objs) - 1)
            # a conditioned / derived copy keeps the random-variable name of its original
            if kind in ("lik",) or (act == "copy_enable_fd" and kind == "factor"):
                try:
                    if obj.name != e["obj"].name:
                        ctx.mismatch("name/%s" % act, c, "derived object does not keep the name of its original", e["obj"].name, obj.name)
                        return
                except Exception as ex:
                    ctx.mismatch("name/%s/raises" % act, c, "name of the derived object cannot be determined: %s" % str(ex)[:100])
                    return
        ctx.facets["action/" + act] = ctx.facets.get("action/" + act, 0) + 1
        if not pool.check_all(ctx, act, c):
            return
    ctx.traces += 1


def run(ctx):
    from cuqiverif.core import MachineryError
    warnings.filterwarnings("ignore")
    rnd = random.Random(ctx.seed)
    res = ctx.tlc("ObjHistory", cfg="ObjHistory.quick.cfg", workers=16)
    ctx.model_must_hold(res, "ObjHistory.quick")
    cases = res.cases
    if ctx.tier == "thorough":
        r2 = ctx.tlc("ObjHistory", cfg="ObjHistory.thorough.cfg", workers=16, timeout=1500)
        ctx.model_must_hold(r2, "ObjHistory.thorough")
    for cfg in ("dev_const", "dev_fd", "dev_inner"):
        r = ctx.tlc("ObjHistory", cfg="ObjHistory.%s.cfg" % cfg, workers=4, expect_violation=True)
        if r.ok or r.violated not in ("OriginalsClean", "Frame"):
            raise MachineryError("deviation %s did not violate the frame condition" % cfg)
    sim = ctx.tlc("ObjHistory", cfg="ObjHistory.sim.cfg", mode="simulate", simulate="num=%d" % (60 if ctx.tier == "quick" else 1500),
                  depth=8, workers=1, seed=ctx.seed + 1, timeout=1200)
    simcases = sim.cases
    sim4 = ctx.tlc("ObjHistory", cfg="ObjHistory.sim4.cfg", mode="simulate", simulate="num=%d" % (40 if ctx.tier == "quick" else 800),
                   depth=7, workers=1, seed=ctx.seed + 2, timeout=1200)
    simcases = simcases + sim4.cases
    nq, ns = (260, 60) if ctx.tier == "quick" else (2500, 1200)
    plan = rnd.sample(cases, min(nq, len(cases))) + rnd.sample(simcases, min(ns, len(simcases)))
    # stratify: every action of the specification must occur in the replayed behaviours whatever the seed
    pool = cases + simcases
    for act in ("condition", "to_likelihood", "copy_enable_fd", "apply_model", "logd", "gradient", "sample", "run_sampler",
                "gibbs", "cond_factor", "mutate_copy", "bad_call"):
        have = sum(1 for c in plan if any(h[0] == act for h in c["hist"]))
        if have < 6:
            extra = [c for c in pool if any(h[0] == act for h in c["hist"]) and c not in plan]
            rnd.shuffle(extra)
            # prefer behaviours in which the action can really be executed (e.g. run_sampler needs an earlier condition)
            extra.sort(key=lambda c: 0 if (act != "run_sampler" or c["hist"][0][0] == "condition") else 1)
            plan += extra[:6 - have]
    sweeps = 20 if ctx.tier == "quick" else 300
    for i, c in enumerate(plan):
        graphs = GRAPHS[c["n"]]
        par = graphs[i % len(graphs)]
        r = (i // len(graphs)) % 3
        ctx.case(("objhist", str(par), r, str(c["hist"])))
        replay_case(ctx, c, par, r, sweeps if i % 7 == 0 else 5, 9000 + ctx.seed)
    need = {"action/condition", "action/to_likelihood", "action/copy_enable_fd", "action/apply_model", "action/logd",
            "action/gradient", "action/sample", "action/run_sampler", "action/gibbs", "action/cond_factor", "action/mutate_copy", "action/bad_call"}
    if not need <= set(ctx.facets):
        raise MachineryError("vacuous replay: actions never exercised: %s" % sorted(need - set(ctx.facets)))
    ctx.sample({"behaviour": plan[0]})
    ctx.sample({"behaviour": plan[-1]})
    ctx.rule = ("behaviours = action interleavings emitted by TLC (exhaustive depth 3 for N=2, simulated depth 7 for N=3), a seeded subset "
                "replayed over a catalogue of graphs x 2 realisations; distinct = (graph, realisation, action sequence)")
    ctx.exhaustive = False
    ctx.assumptions += ["fingerprint equality (rtol 1e-12) stands for behavioural equality of an object"]


def replay(ctx, case):
    replay_case(ctx, case, case["par"], case["r"], 20, 9000)
