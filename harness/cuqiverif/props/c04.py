"""C04 - log-densities are the documented normalised densities in every parameterisation.

Spec: specs/Families.tla (+ lib/SymLog.tla, DiffOps.tla); part `Reassign` of the same module for sequences on one object;
specs/FamiliesStruct.tla (part Structures: matrix structure as a dimension of every Gaussian input form, direct sums at dim 75 / 76);
specs/FamiliesSib.tla (parts Siblings, Buffers) and specs/DiffOpsLive.tla (part Live) for objects derived from one another, argument
arrays rewritten in place and parameters edited in place (replay: harness/cuqiverif/c04_round6.py).  TLC enumerates the parameter lattice of every family, checks
SameDistribution / QuadIdentity / Unnormalised / NaNOutside / OutcomeTable on the specification and emits the exact
expected log-density (symbolic-log coefficients), cdf and gradient of every configuration.  This module builds the real
cuqi distributions in every documented way of passing the parameters and compares logpdf / pdf / cdf / logd.
"""
META = {
    "claimed": True,
    "engine": "Families.tla",
    "text": ("TLC checks on every configuration of the bounded lattice (15 families, dim 1-3, Gaussian 4 forms x 5 shapes from one "
             "unit-triangular integer factor and one dyadic diagonal, MRF priors on the DiffOps operators n<=4/5, diagonal "
             "Gaussians of dim 75/76) the invariants SameDistribution, QuadIdentity, Unnormalised, NaNOutside, OutcomeTable and "
             "emits exact symbolic-log log-densities and rational/closed-form cdfs; a named deviation (docstring sqrtcov "
             "convention) must violate SameDistribution. The harness evaluates logpdf/pdf/cdf/logd of the real distributions "
             "for every emitted case in every way of passing parameters (scalar broadcast, list, ndarray, scipy sparse, "
             "callable conditioned later) on both sides of the dense/sparse switch (MIN_DIM_SPARSE lowered and dim 75/76); every "
             "matrix-shaped Gaussian input is replayed again at the magnitudes a = 4^-30, 4^30 of the covariance with the expected "
             "value of the spec's ScalingLaw (logpdf' = logpdf - dim/2 log a, checked exactly by TLC for a = 1/4, 4). Reassign part "
             "(behavioural: Evaluate / Assign(unit) on ONE object, invariant ReassignIsFresh, deviation StaleCacheAfterAssign "
             "refuted): for pairs of configurations of every family TLC emits, per order of the assignment units, the expected case "
             "after every assignment; the harness builds one object, replaces its parameters through the public attributes / "
             "setters (also in another shape of the Gaussian matrix input), cold (assign first, evaluate later), warm (every "
             "observable evaluated before) and evaluating after each assignment, and compares logpdf / pdf / logd / cdf / "
             "compute_cov / cov / sqrtprec with the expectation of a freshly built object of the current parameters. Round 6 "
             "(specs/FamiliesSib.tla, specs/DiffOpsLive.tla): Siblings - heap model of objects derived from one another (copy.copy, O(), "
             "conditioning, the prior held by a Posterior) + public setters, invariant SibOwnParameters, deviation DevInPlaceSetter "
             "refuted; every emitted behaviour class is driven on every family and every Gaussian (form, shape): after a setter on one "
             "object logpdf / pdf / logd / cdf of the OTHERS must be those of their own parameters. Buffers - the arrays of the "
             "conditioning values and of the evaluation point are rewritten IN PLACE between calls of logd (keyword / positional), "
             "O(values).logpdf|logd|pdf|cdf, likelihood evaluation and plain evaluation (BufContentAtCallTime, deviation DevIdentityMemo "
             "refuted); each value is that of the content at call time and no call modifies its arguments. Live - parameters tagged Live "
             "in the spec are edited in place through the getter-returned array; the density is the documented one at the values the "
             "getters report at that moment (LvReportedIsUsed, deviation DevKeepsDerived refuted). Round 8 (specs/FamiliesStruct.tla, part "
             "Structures): the matrix STRUCTURE is a dimension of every Gaussian input form - a gallery of 14 rational factors (diagonal, "
             "generic, bidiagonal / tridiagonal, two blocks 2+1 / 1+2 / 2+2, permutation-similar to two blocks, cross patterns "
             "[[a,0,b],[0,c,0],[b,0,a]] with simple and repeated eigenvalues, identity plus rank one, J + I/4; dim 2-4), each as it is and "
             "transposed, as square-root precision and as square-root covariance; the classes are PREDICATES on the symmetric matrix and "
             "GalleryCoversClasses requires every class for the covariance and for the precision; StructSameDistribution / StructScalingLaw "
             "(exact Canon of all four forms), SpectralRouteSame (the listed rational eigenpairs are checked and the spectral "
             "reconstruction with a sign normalisation of the eigenvectors is the matrix; named deviation DevSignFromDiagonalEntry - sign "
             "of the k-th entry of the k-th eigenvector, zero for block-supported eigenvectors - refuted, DeviationShowsOnlyThere), "
             "DirectSumLaw (a structured block on any coordinates of a Gaussian with independent other coordinates: every form of the "
             "embedded input denotes Canon(block) (+) Canon(pad), checked exactly for dim k+1). Replay: every structure in all four forms "
             "x containers on both sides of the lowered threshold at three evaluation points per object (logpdf / pdf / logd, compute_cov, "
             "cov / sqrtprec attributes, scaling law 4^+-30, conditioned callables) and embedded at the head / tail / spread over the "
             "coordinates of dim-75 and dim-76 Gaussians (both sides of the REAL MIN_DIM_SPARSE; expected value from DirectSumLaw)."),
    "note": ("Bounded rational lattices (dyadic scales, integer shapes, smooth integers under logarithms); that the documented "
             "formulas integrate to one is trusted mathematics; Gaussian cdf compared at scipy's integration accuracy; sparse "
             "non-diagonal Gaussians refuse logpdf without cholmod (accepted); user-defined distributions: pass-through of the "
             "user's callable only."),
    "technique": "TLA+ spec (Families, SymLog) model-checked with TLC; TLC-emitted exact cases replayed into cuqi.distribution",
}

import json, math

import numpy as np

RTOL, ATOL = 1e-10, 1e-10
C04_FAMS = ["Normal", "Gaussian", "GaussianBig", "GMRF", "LMRF", "CMRF", "Laplace", "SmoothedLaplace", "Cauchy", "Gamma",
            "InverseGamma", "Beta", "Lognormal", "Uniform", "ModifiedHalfNormal"]


def _sig(what, fam, way, d, case, extra=""):
    from cuqiverif import families_common as fc
    s = "%s/%s/way=%s/dim=%d/support=%s" % (what, fam, way, d, fc.support_tag(case))
    if fam == "ModifiedHalfNormal":
        s += "/abg=%s" % ("equal" if case.get("abg_equal") else "distinct")
    return s + extra


class _Unnorm:
    """logd - logpdf must be the same number at every evaluation point of one object (same family, parameters, way)."""

    def __init__(self):
        self.delta = {}

    def check(self, ctx, case, key, sig, logd, logpdf):
        if not (math.isfinite(logd) and math.isfinite(logpdf)):
            return
        dl = logd - logpdf
        if key in self.delta:
            if abs(dl - self.delta[key]) > 1e-9 * max(1.0, abs(logpdf)):
                ctx.mismatch(sig, case, "logd - logpdf depends on the evaluation point", self.delta[key], dl)
        else:
            self.delta[key] = dl


def _eval_density(ctx, un, case, fam, way, d, dist, x, extra="", accept_refusal=False, tol=(RTOL, ATOL), xforms=True,
                  pkey=None):
    """Compare logpdf / pdf / logd (and cdf where the case has one) of one realised distribution."""
    from cuqiverif import families_common as fc
    exp = fc.expected_logpdf(case)
    outside_undocumented = (fam == "ModifiedHalfNormal" and not case["inside"])   # support handling of logpdf not documented
    xs = [("ndarray", np.array(x))]
    if xforms and d == 1:
        xs.append(("float", float(x[0])))
    if xforms and fam in ("Cauchy", "SmoothedLaplace"):
        xs.append(("list", list(map(float, x))))            # documented: x accepts list
    got_main = None
    for xform, xv in xs:
        ex2 = extra + ("" if xform == "ndarray" else "/x=" + xform)
        st, v, _ = fc.call(lambda: dist.logpdf(xv))
        ctx.case(("logpdf", fc.case_id(case), way, extra, xform), facet="logpdf")
        if st == "raise":
            if accept_refusal:
                ctx.observations["refused_logpdf"] = ctx.observations.get("refused_logpdf", 0) + 1
                return False
            ctx.mismatch(_sig("logpdf", fam, way, d, case, ex2 + "/raises"), case,
                         "logpdf raises for a documented parameterisation: %r" % (v,), exp, repr(v))
            continue
        got = fc.scalar_of(v)
        if outside_undocumented:
            ctx.observations.setdefault("mhn_logpdf_outside_support", repr(got))
            continue
        if got is None or not fc.close(got, exp, *tol):
            ctx.mismatch(_sig("logpdf", fam, way, d, case, ex2), case,
                         "logpdf is not the documented normalised log-density", exp, v)
        if xform == "ndarray":
            got_main = got
    if outside_undocumented:
        return True
    xv = np.array(x)
    # pdf = exp(logpdf)
    st, v, _ = fc.call(lambda: dist.pdf(xv))
    # pdf is exp(logpdf) in the base class: counted as non-trivial only for the families that implement their own pdf
    ctx.case(("pdf", fc.case_id(case), way, extra), nontrivial=fam in ("Normal", "LMRF", "Lognormal"), facet="pdf")
    got = fc.scalar_of(v) if st == "value" else None
    if got is None or not fc.close(got, math.exp(exp) if exp > -math.inf else 0.0, 1e-9, 1e-300):
        ctx.mismatch(_sig("pdf", fam, way, d, case, extra), case, "pdf is not exp(documented log-density)",
                     math.exp(exp) if exp > -math.inf else 0.0, v if st == "value" else repr(v))
    # logd differs from logpdf by a constant (here: compared with the spec value; constancy across points below)
    st, v, _ = fc.call(lambda: dist.logd(xv))
    ctx.case(("logd", fc.case_id(case), way, extra), facet="logd")
    got = fc.scalar_of(v) if st == "value" else None
    if got is None:
        ctx.mismatch(_sig("logd", fam, way, d, case, extra), case, "logd does not return a number", exp,
                     v if st == "value" else repr(v))
    elif exp == -math.inf:
        if got != -math.inf:
            ctx.mismatch(_sig("logd", fam, way, d, case, extra), case, "logd is finite outside the support", exp, got)
    elif got_main is not None:
        un.check(ctx, case, (fam, pkey or json.dumps(case.get("par"), sort_keys=True), way, extra),
                 _sig("logd", fam, way, d, case, extra), got, got_main)
    return True


def _eval_cdf(ctx, case, fam, way, d, dist, x, extra="", tol=(1e-9, 1e-12)):
    from cuqiverif import families_common as fc
    cdf = case.get("cdf", {"form": "none"})
    if cdf["form"] == "none" or not hasattr(dist, "cdf"):
        return
    exp = fc.expected_cdf(cdf)
    st, v, _ = fc.call(lambda: dist.cdf(np.array(x)))
    ctx.case(("cdf", fc.case_id(case), way, extra), facet="cdf")
    if st == "raise":
        # a cdf that refuses returns no wrong value: not a violation; counted per family / way so that it stays visible
        ob = ctx.observations.setdefault("cdf_raises", {})
        k = "%s/way=%s" % (fam, way)
        ob[k] = ob.get(k, 0) + 1
        ctx.observations.setdefault("cdf_raises_example", "%s way=%s: %r" % (fam, way, v))
        return
    got = fc.scalar_of(v)
    if got is None or not fc.close(got, exp, *tol):
        ctx.mismatch(_sig("cdf", fam, way, d, case, extra), case,
                     "cdf is not the integral of the documented density (product over independent components)", exp, v)


def _eval_gaussian_cov_cdf(ctx, case, way, d, dist, x, mean, extra, with_cdf=True):
    """every input form denotes ONE distribution: the full covariance the object computes (and integrates for its cdf)
    is the inverse of the canonical precision of the specification; cdf = scipy's integral of that density"""
    from cuqiverif import families_common as fc
    import scipy.stats as sps
    if case.get("rank") != d or "prec" not in case:
        return
    P = fc.mat(case["prec"])
    cov = np.linalg.inv(P)
    st, c, _ = fc.call(lambda: dist.compute_cov())
    ctx.case(("gauss_cov", fc.case_id(case), way, extra), facet="gauss_cov")
    if st == "raise":
        ctx.observations["compute_cov_raises"] = ctx.observations.get("compute_cov_raises", 0) + 1
        return
    c = np.asarray(c.todense() if hasattr(c, "todense") else c, dtype=float)
    if c.shape != cov.shape or not np.allclose(c, cov, rtol=1e-9, atol=1e-12):
        ctx.mismatch(_sig("compute_cov", "Gaussian", way, d, case, extra), case,
                     "the covariance computed from this input form is not the inverse of the precision of the one distribution all "
                     "input forms denote", cov, c)
        return
    if d >= 2 and with_cdf:
        st, v, _ = fc.call(lambda: dist.cdf(np.array(x)))
        if st == "raise":
            return
        exp = float(sps.multivariate_normal.cdf(np.array(x), np.array(mean), cov))
        got = fc.scalar_of(v)
        ctx.case(("gauss_cdf", fc.case_id(case), way, extra), facet="cdf")
        if got is None or abs(got - exp) > 5e-4:
            ctx.mismatch(_sig("cdf", "Gaussian", way, d, case, extra), case,
                         "cdf is not the integral of the density of the distribution this input form denotes", exp, v)


def _expand_sym(v, d):
    """a public matrix-valued attribute in the forms the class hands out (scalar, vector = diagonal, dense / sparse matrix)"""
    v = v.todense() if hasattr(v, "todense") else v
    a = np.asarray(v, dtype=float)
    if a.size == 1:
        return float(a.ravel()[0]) * np.eye(d)
    if a.ndim == 1 and a.size == d:
        return np.diag(a)
    return a if a.shape == (d, d) else None


def _eval_gaussian_attributes(ctx, case, way, d, dist, extra):
    """the public attributes `cov` and `sqrtprec` of a Gaussian, where they hand out a value (a refusal - covariance not computed
    for this input form - is not judged), describe the distribution the object currently denotes: cov = inverse of the canonical
    precision of the specification, sqrtprec' sqrtprec = that precision"""
    from cuqiverif import families_common as fc
    if case.get("rank") != d or "prec" not in case:
        return
    P = fc.mat(case["prec"])
    for name, target, what in (("cov", np.linalg.inv(P), "the attribute cov is not the covariance of the distribution the object denotes"),
                               ("sqrtprec", P, "sqrtprec' sqrtprec is not the precision of the distribution the object denotes")):
        st, v, _ = fc.call(lambda: getattr(dist, name))
        if st == "raise" or v is None or callable(v):
            continue
        M = _expand_sym(v, d)
        ctx.case(("gauss_attr", name, fc.case_id(case), way, extra), facet="gauss_attr")
        if M is not None and name == "sqrtprec":
            M = M.T @ M
        if M is None or not np.allclose(M, target, rtol=1e-9, atol=1e-12):
            ctx.mismatch(_sig("attr_" + name, "Gaussian", way, d, case, extra), case, what, target, v)


def _eval_gaussian_scaled(ctx, case, form, shape, data, how, way, d, x, mean, extra, refusal_ok):
    """ScalingLaw of Families.tla: the same matrix-shaped input at the magnitudes a = 4^e the spec emits (cov' = a cov, prec' =
    prec / a, sqrtcov' = 2^e sqrtcov, sqrtprec' = sqrtprec / 2^e, x' = mean + 2^e (x - mean)) denotes the documented density
    with logpdf' = logpdf - dim e log 2 (expected value: the spec's); the covariance the object computes is a cov."""
    import cuqi
    from cuqiverif import families_common as fc
    for sc in fc.scaled_instances(case):
        ex2 = "%s/scale=4^%d" % (extra, sc["e"])
        xs = fc.scaled_point(mean, x, sc)
        exp = fc.expected_logpdf({"logpdf": sc["logpdf"]})
        st, dist, _ = fc.call(lambda: cuqi.distribution.Gaussian(np.array(mean), **{form: fc.gaussian_param(shape, data, how, pow2=sc["form_pow2"][form])}))
        ctx.case(("logpdf_scaled", fc.case_id(case), way, ex2), facet="logpdf_scaled")
        if st == "raise":
            ctx.mismatch(_sig("construct", "Gaussian", way, d, case, ex2), case,
                         "Gaussian cannot be built from a documented input form at this magnitude: %r" % (dist,))
            continue
        st, v, _ = fc.call(lambda: dist.logpdf(np.array(xs)))
        if st == "raise":
            if refusal_ok:
                ctx.observations["refused_logpdf"] = ctx.observations.get("refused_logpdf", 0) + 1
            else:
                ctx.mismatch(_sig("logpdf", "Gaussian", way, d, case, ex2 + "/raises"), case,
                             "logpdf raises for a documented parameterisation: %r" % (v,), exp, repr(v))
            continue
        got = fc.scalar_of(v)
        if got is None or not fc.close(got, exp, RTOL, ATOL):
            ctx.mismatch(_sig("logpdf", "Gaussian", way, d, case, ex2), case,
                         "logpdf is not the documented normalised log-density at this magnitude of the covariance (scaling law: "
                         "logpdf' = logpdf - dim/2 log a)", exp, v)
        if case.get("rank") == d and "prec" in case and shape != "sparse":
            a = math.ldexp(1.0, 2 * sc["e"])
            cov = np.linalg.inv(fc.mat(case["prec"])) * a
            st, c, _ = fc.call(lambda: dist.compute_cov())
            if st == "value":
                c = np.asarray(c.todense() if hasattr(c, "todense") else c, dtype=float)
                ctx.case(("gauss_cov_scaled", fc.case_id(case), way, ex2), facet="gauss_cov")
                if c.shape != cov.shape or not np.allclose(c / a, cov / a, rtol=1e-9, atol=1e-12):
                    ctx.mismatch(_sig("compute_cov", "Gaussian", way, d, case, ex2), case,
                                 "the covariance computed from this input form is not a times the covariance of the unscaled instance",
                                 cov, c)


# ------------------------------------------------------------------ generic families
def check_family(ctx, un, case):
    from cuqiverif import families_common as fc
    fam, d = case["fam"], case["dim"]
    x = fc.vec(case["x"])
    for way, builder in fc.family_variants(case):
        st, dist, _ = fc.call(builder)
        if st == "raise":
            ctx.mismatch(_sig("construct", fam, way, d, case), case,
                         "distribution cannot be built from a documented way of passing parameters: %r" % (dist,))
            continue
        if _eval_density(ctx, un, case, fam, way, d, dist, x):
            _eval_cdf(ctx, case, fam, way, d, dist, x)
    if fam == "Normal":
        check_userdefined(ctx, un, case)


def check_userdefined(ctx, un, case):
    """User-defined family: the documented density IS the user's callable.  logpdf / pdf / logd of a
    UserDefinedDistribution wrapping  f(z) = E - |z - x|^2 / 2  (E = TLC's exact value of this case) at z = x."""
    import cuqi
    from cuqiverif import families_common as fc
    d = case["dim"]
    x = fc.vec(case["x"])
    E = fc.expected_logpdf(case)
    cls = getattr(cuqi.distribution, "UserDefinedDistribution", None)
    if cls is None or not math.isfinite(E):
        return
    st, dist, _ = fc.call(lambda: cls(dim=d, logpdf_func=lambda z: E - 0.5 * float(np.sum((np.asarray(z, dtype=float) - x) ** 2))))
    if st == "raise":
        ctx.mismatch(_sig("construct", "UserDefined", "userdefined", d, case), case,
                     "UserDefinedDistribution cannot be built from dim and logpdf_func: %r" % (dist,))
        return
    _eval_density(ctx, un, case, "UserDefined", "userdefined", d, dist, x, xforms=False,
                  pkey=json.dumps([case.get("par"), case["x"]], sort_keys=True))


# ------------------------------------------------------------------ Markov random fields
def check_mrf(ctx, un, case):
    from cuqiverif import families_common as fc
    fam, d = case["fam"], case["dim"]
    m = case["mrf"]
    x = fc.vec(case["x"])
    extra = "/pd=%d/bc=%s/order=%d" % (m["pd"], m["bc"], m["order"])
    # eigsh / jittered Cholesky of the rank-deficient fields: compare at the accuracy of those solvers
    tol = (RTOL, ATOL) if (m["bc"] == "zero" or fam != "GMRF") else (1e-8, 1e-8)
    for way, builder in fc.mrf_variants(case):
        st, dist, _ = fc.call(builder)
        if st == "raise":
            ctx.mismatch(_sig("construct", fam, way, d, case, extra), case,
                         "MRF prior cannot be built from a documented way of passing parameters: %r" % (dist,))
            continue
        _eval_density(ctx, un, case, fam, way, d, dist, x, extra=extra, tol=tol, xforms=False,
                      pkey=json.dumps([case["par"], m["pd"], m["bc"], m["order"]], sort_keys=True))


def mrf_groups(cases):
    """group the periodic wrap-multiplicity variants of one configuration"""
    g = {}
    for c in cases:
        k = dict(c["cfg"])
        k.pop("wm")
        g.setdefault(json.dumps(k, sort_keys=True), []).append(c)
    return g


def pick_mrf_variant(ctx, variants, cache):
    from cuqiverif import families_common as fc
    for v in variants:
        m = v["mrf"]
        key = (m["pd"], m["n"], m["bc"], m["order"], m["wm"])
        if key not in cache:
            cache[key] = fc.mrf_operator_matches(v)
        if cache[key]:
            if m["bc"] == "periodic":
                ctx.observations.setdefault("periodic_wrap_multiplicity", {})["pd=%d/n=%d/order=%d" % (m["pd"], m["n"], m["order"])] = m["wm"]
            return v
    ctx.observations["mrf_operator_outside_spec"] = ctx.observations.get("mrf_operator_outside_spec", 0) + 1
    return None     # the operator itself is C20's business


# ------------------------------------------------------------------ Gaussian: 4 forms x 5 shapes, dense / sparse switch
_HOWS = {"scalar": ["scalar"], "vector": ["ndarray", "list"], "diag": ["ndarray"], "dense": ["ndarray", "list"],
         "sparse": ["csr", "dia", "csc"]}


def check_gaussian(ctx, un, case, more=(), struct=None, hows=None, scaled=True, callables=True):
    """case: one Gaussian case of the lattice.  more: further cases with the SAME parameters and other evaluation points (they are
    evaluated on the same objects).  struct: name of the matrix structure (part Structures) for the signature.  hows: restriction
    of the containers per shape (quick-tier rotation of the Structures part); scaled / callables: replay those facets or not."""
    import cuqi
    from cuqiverif import families_common as fc
    d = case["dim"]
    x = fc.vec(case["x"])
    mean = fc.vec(case["par"]["mean"])
    thresholds = [None] + ([d - 1] if d >= 2 else [])
    seen_forms = set()
    hows = hows or _HOWS
    for inp in case["inputs"]:
        form, shape, data = inp["form"], inp["shape"], inp["data"]
        if shape == "sparse" and d == 1:
            continue                                   # a 1 x 1 sparse matrix is not a meaningful input
        diag = shape in ("scalar", "vector") or fc.is_diag(data)
        for how in hows[shape]:
            if shape == "sparse" and how == "csc" and ctx.tier == "quick":
                continue
            for thr in thresholds:
                for mway in (["ndarray", "scalar"] if (case["scal"]["mean"] and how in ("scalar", "ndarray", "csr")) else ["ndarray"]):
                    way = "%s:%s:%s+mean:%s" % (form, shape, how, mway)
                    extra = "/thr=%s/struct=%s" % ("default" if thr is None else thr, struct or ("diag" if diag else "full"))

                    def builder():
                        kw = {form: fc.gaussian_param(shape, data, how)}
                        mv = float(mean[0]) if mway == "scalar" else np.array(mean)
                        allscalar = mway == "scalar" and shape == "scalar"
                        if allscalar:
                            kw["geometry"] = d
                        return cuqi.distribution.Gaussian(mv, **kw)
                    with fc.sparse_threshold(thr):
                        st, dist, _ = fc.call(builder)
                        if st == "raise":
                            ctx.mismatch(_sig("construct", "Gaussian", way, d, case, extra), case,
                                         "Gaussian cannot be built from a documented input form: %r" % (dist,))
                            continue
                        refusal_ok = (shape == "sparse" and not diag)    # full sparse matrix without cholmod
                        ok = _eval_density(ctx, un, case, "Gaussian", way, d, dist, x, extra=extra, accept_refusal=refusal_ok,
                                           xforms=(thr is None and how in ("scalar", "ndarray")),
                                           pkey=json.dumps([case["par"], case["prec"]], sort_keys=True))
                        # (part Structures: the computed covariance and the attributes on BOTH sides of the threshold)
                        fkey = (form, shape) if struct is None else (form, shape, how, thr)
                        if ok and (thr is None or struct is not None) and fkey not in seen_forms and mway == "ndarray" and shape != "sparse":
                            seen_forms.add(fkey)
                            if struct is not None:
                                _eval_gaussian_attributes(ctx, case, way, d, dist, extra)      # before compute_cov()
                            # scipy integrates the multivariate cdf numerically (abseps 1e-5)
                            if thr is None:
                                _eval_cdf(ctx, case, "Gaussian", way, d, dist, x, extra=extra,
                                          tol=(1e-9, 1e-12) if d == 1 else (0.0, 2e-4))
                            _eval_gaussian_cov_cdf(ctx, case, way, d, dist, x, mean, extra,
                                                   with_cdf=(thr is None and (struct is None or ctx.tier != "quick")))
                        for cs in (more if ok else ()):                      # the other evaluation points, on the same object
                            _eval_density(ctx, un, cs, "Gaussian", way, d, dist, fc.vec(cs["x"]), extra=extra, accept_refusal=refusal_ok,
                                          xforms=False, pkey=json.dumps([case["par"], case["prec"]], sort_keys=True))
                        if scaled and mway == "ndarray" and shape in ("diag", "dense", "sparse"):
                            _eval_gaussian_scaled(ctx, case, form, shape, data, how, way, d, x, mean, extra, refusal_ok)
    # callable parameters conditioned later (one per form, dense data)
    for inp in case["inputs"]:
        if inp["shape"] != "dense" or not callables:
            continue
        form = inp["form"]

        def builder():
            g = cuqi.distribution.Gaussian(fc._mk_lambda("c_mean"), **{form: fc._mk_lambda("c_" + form)}, geometry=d)
            return g(**{"c_mean": np.array(mean), "c_" + form: fc.gaussian_param("dense", inp["data"])})
        way = "%s:dense:callable+mean:callable" % form
        st, dist, _ = fc.call(builder)
        if st == "raise":
            ctx.mismatch(_sig("construct", "Gaussian", way, d, case), case,
                         "conditional Gaussian cannot be conditioned on its parameters: %r" % (dist,))
            continue
        for cs in [case] + list(more):
            _eval_density(ctx, un, cs, "Gaussian", way, d, dist, fc.vec(cs["x"]),
                          extra="/thr=default" + ("/struct=%s" % struct if struct else ""), xforms=False,
                          pkey=json.dumps([case["par"], case["prec"]], sort_keys=True))


def check_gaussbig(ctx, un, case):
    """diagonal Gaussians on both sides of the real dense/sparse threshold (dim 75 / 76)"""
    import cuqi, scipy.sparse as sp
    from cuqiverif import families_common as fc
    d = case["dim"]
    x = fc.vec(case["x"])
    mean = fc.vec(case["mean"])
    pseudo = {"fam": "GaussianBig", "logpdf": case["logpdf"], "cfg": case["cfg"], "inside": True, "par": None}
    for inp in case["inputs"]:
        form = inp["form"]
        v = fc.vec(inp["vec"])
        ways = [("vector", lambda: np.array(v)), ("diag", lambda: np.diag(v)), ("sparse:dia", lambda: sp.diags(v)),
                ("sparse:csr", lambda: sp.csr_matrix(np.diag(v)))]
        if case["lamconst"]:
            ways.append(("scalar", lambda: float(v[0])))
        for shape, mk in ways:
            for mway in (["ndarray", "scalar"] if case["meanscal"] else ["ndarray"]):
                way = "%s:%s+mean:%s" % (form, shape, mway)

                def builder():
                    kw = {form: mk()}
                    if mway == "scalar" and shape == "scalar":
                        kw["geometry"] = d
                    return cuqi.distribution.Gaussian(float(mean[0]) if mway == "scalar" else np.array(mean), **kw)
                st, dist, _ = fc.call(builder)
                if st == "raise":
                    ctx.mismatch(_sig("construct", "GaussianBig", way, d, pseudo), case,
                                 "Gaussian cannot be built from a documented input form: %r" % (dist,))
                    continue
                _eval_density(ctx, un, pseudo, "GaussianBig", way, d, dist, x, xforms=False,
                              pkey=json.dumps([case["mean"], case["inputs"][1]["vec"]]))


# ------------------------------------------------------------------ part Structures (specs/FamiliesStruct.tla)
def _struct_wd(label):
    import os
    from cuqiverif import tlc
    return os.path.join(tlc.WORK, "FamiliesStruct-c04-%s-%d" % (label, os.getpid()))


_STRUCT_MODS = ["Families.tla", "DiffOps.tla"]


def start_struct_tlc(ctx):
    """the TLC runs of the part Structures (gallery of matrix structures x input forms; named deviation), in background threads"""
    from concurrent.futures import ThreadPoolExecutor
    pool = ThreadPoolExecutor(max_workers=2)
    jobs = {"struct": pool.submit(ctx.tlc, "FamiliesStruct", cfg="FamiliesStruct.%s.cfg" % ctx.tier, workers=3, timeout=1700,
                                  extra_modules=_STRUCT_MODS, workdir=_struct_wd("main")),
            "dev": pool.submit(ctx.tlc, "FamiliesStruct", cfg="FamiliesStruct.sign_from_diagonal.deviation.cfg", workers=1, timeout=900,
                               extra_modules=_STRUCT_MODS, expect_violation=True, workdir=_struct_wd("dev"))}
    pool.shutdown(wait=False)
    return jobs


def discard_struct_tlc(jobs):
    from cuqiverif import tlc
    for f in jobs.values():
        try:
            tlc.cleanup(f.result())
        except BaseException:      # noqa: BLE001
            pass
    for label in ("main", "dev"):
        tlc.cleanup(_struct_wd(label))


def struct_groups(cases):
    """cases of one distribution (same structure, role, orientation, mean - and for the direct sums dimension, position, pad)
    that differ in the evaluation point only"""
    g = {}
    for c in cases:
        k = dict(c["cfg"])
        k.pop("x")
        g.setdefault(json.dumps(k, sort_keys=True), []).append(c)
    return [sorted(v, key=lambda c: c["cfg"]["x"]) for _, v in sorted(g.items())]


def check_struct(ctx, un, group, gi=0):
    """one structured Gaussian in every input form / container on both sides of the (lowered) threshold, evaluated at all points of
    the group.  quick tier: dense ndarray inputs always; nested lists, the scipy-sparse containers, the scaling law and the
    conditioned callables rotate over the groups with the seed; thorough tier: everything on every group."""
    if ctx.tier == "quick":
        r = (gi + ctx.seed) % 3
        hows = dict(_HOWS, dense=["ndarray"] + (["list"] if r == 0 else []), sparse=(["csr"] if r == 1 else ["dia"] if r == 2 else []))
        scaled, callables = (gi + ctx.seed) % 2 == 0, r == 0
    else:
        hows, scaled, callables = None, True, True
    # the first point of the group (it carries the scaling law) rotates with the group
    k = (gi + ctx.seed) % len(group)
    check_gaussian(ctx, un, group[k], more=group[:k] + group[k + 1:], struct=group[0]["struct"], hows=hows, scaled=scaled,
                   callables=callables)


def _embed(block, pad, idx, n):
    M = np.diag(np.asarray(pad, dtype=float))
    ix = np.array(idx) - 1
    M[np.ix_(ix, ix)] = block
    return M


def check_structbig(ctx, un, group):
    """direct sum of a structured block (coordinates idx) and independent coordinates, dim 75 / 76 = both sides of the REAL
    MIN_DIM_SPARSE; the n x n inputs are assembled from the spec's block and pad of each form; expected value = DirectSumLaw"""
    import cuqi
    from cuqiverif import families_common as fc
    c0 = group[0]
    n, idx = c0["dim"], c0["idx"]
    mean = fc.vec(c0["mean"])
    full = {i["form"]: _embed(fc.mat(i["block"]), fc.vec(i["pad"]), idx, n) for i in c0["inputs"]}
    extra = "/struct=%s/pos=%s" % (c0["struct"], c0["pos"])
    for form, M in sorted(full.items()):
        way = "%s:dense:ndarray+mean:ndarray" % form
        st, dist, _ = fc.call(lambda: cuqi.distribution.Gaussian(np.array(mean), **{form: np.array(M)}))
        if st == "raise":
            ctx.mismatch(_sig("construct", "GaussianBig", way, n, c0, extra), c0,
                         "Gaussian cannot be built from a documented input form: %r" % (dist,))
            continue
        for cs in group:
            pseudo = {"fam": "GaussianBig", "logpdf": cs["logpdf"], "cfg": cs["cfg"], "inside": True, "par": None,
                      "kind": "structbig_point", "group": group}
            _eval_density(ctx, un, pseudo, "GaussianBig", way, n, dist, fc.vec(cs["x"]), extra=extra, xforms=False,
                          pkey=json.dumps([c0["struct"], n, c0["pos"], c0["cfg"]["a"], c0["cfg"]["g"]]))
        # one distribution: sqrtprec' sqrtprec is the precision input, the computed covariance the covariance input
        ctx.case(("structbig_attr", fc.case_id(c0), way, extra), facet="gauss_attr")
        st, v, _ = fc.call(lambda: dist.sqrtprec)
        if st == "value" and v is not None and not callable(v):
            R = _expand_sym(v, n)
            if R is None or not np.allclose(R.T @ R, full["prec"], rtol=1e-9, atol=1e-12):
                ctx.mismatch(_sig("attr_sqrtprec", "GaussianBig", way, n, c0, extra), c0,
                             "sqrtprec' sqrtprec is not the precision of the distribution the object denotes", full["prec"], v)
        st, v, _ = fc.call(lambda: dist.compute_cov())
        if st == "value":
            C = np.asarray(v.todense() if hasattr(v, "todense") else v, dtype=float)
            if C.shape != (n, n) or not np.allclose(C, full["cov"], rtol=1e-9, atol=1e-12):
                ctx.mismatch(_sig("compute_cov", "GaussianBig", way, n, c0, extra), c0,
                             "the covariance computed from this input form is not the covariance of the one distribution all input "
                             "forms denote", full["cov"], C)
        else:
            ctx.observations["compute_cov_raises"] = ctx.observations.get("compute_cov_raises", 0) + 1


def run_struct(ctx, jobs):
    """part Structures: TLC checks StructSameDistribution / StructScalingLaw / GalleryCoversClasses / SpectralRouteSame /
    DirectSumLaw on FamiliesStruct.tla and refutes the named deviation DevSignFromDiagonalEntry; every emitted case is replayed"""
    import time
    from cuqiverif import tlc
    from cuqiverif.core import MachineryError
    t0 = time.time()
    try:
        res, dev = jobs["struct"].result(), jobs["dev"].result()
    except BaseException:
        discard_struct_tlc(jobs)
        raise
    t1 = time.time()
    violated = dev.violated
    tlc.cleanup(dev)
    ctx.model_must_hold(res, "FamiliesStruct")
    cases = list(res.cases)
    tlc.cleanup(res)
    if violated != "SpectralRouteSame":
        raise MachineryError("deviation DevSignFromDiagonalEntry did not violate SpectralRouteSame (got %r): vacuous invariant" % (violated,))
    ctx.observations.setdefault("deviations_refuted_by_tlc", {})["DevSignFromDiagonalEntry"] = "SpectralRouteSame"
    gal = [c for c in cases if c.get("kind") == "structgallery"]
    small = struct_groups([c for c in cases if c.get("kind") == "struct"])
    big = struct_groups([c for c in cases if c.get("kind") == "structbig"])
    if not gal or not small or not big:
        raise MachineryError("FamiliesStruct.tla emitted no cases (%d, %d, %d)" % (len(gal), len(small), len(big)))
    names = set(gal[0]["names"])
    seen = {g[0]["struct"].split(":")[0] for g in small}, {g[0]["struct"].split(":")[0] for g in big}
    if seen[0] != names or seen[1] != names:
        raise MachineryError("FamiliesStruct.tla: gallery members without cases: %r" % (sorted((names - seen[0]) | (names - seen[1])),))
    un = _Unnorm()
    for gi, g in enumerate(small):
        check_struct(ctx, un, g, gi)
    big_run = big            # (0.5 s per 56 groups: the quick tier runs all of them)
    for g in big_run:
        check_structbig(ctx, un, g)
    cls = {}
    for g in small:
        for w in ("cov", "prec"):
            for k in g[0]["classes"][w]:
                cls.setdefault(k, set()).add(g[0]["struct"].split(":")[0])
    ctx.observations["struct_classes_replayed"] = {k: sorted(v) for k, v in sorted(cls.items())}
    ctx.observations["struct_groups_replayed"] = {"small": len(small), "direct_sum": len(big_run), "direct_sum_emitted": len(big)}
    ctx.observations["struct_part_wall_s"] = {"waited_for_tlc": round(t1 - t0, 1), "replay": round(time.time() - t1, 1)}
    g = small[len(small) // 2]
    ctx.sample({"struct": g[0]["struct"], "dim": g[0]["dim"], "classes": g[0]["classes"], "mean": g[0]["par"]["mean"],
                "inputs": {i["form"]: i["data"] for i in g[0]["inputs"] if i["shape"] == "dense"},
                "points": [{"x": c["x"], "logpdf": c["logpdf"]} for c in g]})
    return len(small) + len(big_run)


# ------------------------------------------------------------------ Reassign part: one object, parameters assigned one by one
RE_FAMS = ["Normal", "Gaussian", "GMRF", "LMRF", "CMRF", "Laplace", "SmoothedLaplace", "Cauchy", "Gamma", "InverseGamma", "Beta",
           "Lognormal", "Uniform"]
RE_MODES = ("cold", "warm", "each")
#   cold  A* E      build with config 1, assign, evaluate only afterwards
#   warm  E A* E    build, evaluate every observable (whatever is derived lazily is derived from config 1), assign, evaluate
#   each  (E A)* E  build, evaluate, and evaluate again after every single assignment


def _re_refused(ctx, fam, name, e):
    ob = ctx.observations.setdefault("reassign_refused", {})
    k = "%s.%s" % (fam, name)
    ob[k] = ob.get(k, 0) + 1
    ctx.observations.setdefault("reassign_refused_example", "%s: %r" % (k, e))


def _re_constancy(ctx, case, fam, way, d, dist, x, x2, extra):
    """logd - logpdf of ONE object state is the same number at two evaluation points"""
    from cuqiverif import families_common as fc
    vals = []
    for p in (x, x2):
        a, b = fc.call(lambda: dist.logd(np.array(p))), fc.call(lambda: dist.logpdf(np.array(p)))
        if a[0] != "value" or b[0] != "value":
            return
        a, b = fc.scalar_of(a[1]), fc.scalar_of(b[1])
        if a is None or b is None or not (math.isfinite(a) and math.isfinite(b)):
            return
        vals.append((a - b, b))
    if abs(vals[0][0] - vals[1][0]) > 1e-9 * max(1.0, abs(vals[0][1]), abs(vals[1][1])):
        ctx.mismatch(_sig("logd", fam, way, d, case, extra), case, "logd - logpdf depends on the evaluation point", vals[0][0], vals[1][0])


def _re_sequences(rc, seen, key):
    """(mode, n): assign the first n units of the order; every distinct (start configuration, realisation, mode, prefix) once"""
    L = len(rc["trail"])
    order = tuple(rc["order"])
    out = []
    for mode in RE_MODES:
        # (warm with one assignment is the first step of `each`)
        for n in ((L,) if mode == "each" else range(2 if mode == "warm" else 1, L + 1)):
            k = (key, mode, order[:n])
            if k not in seen:
                seen.add(k)
                out.append((mode, n))
    return out


def _re_tag(way, mode, rc, n):
    return "reassign:%s:%s:%s" % (way, mode, "+".join("+".join(t["assign"]) for t in rc["trail"][:n]))


def reassign_generic(ctx, rc, seen, mrf=False):
    """Normal ... Uniform, Lognormal and the Markov random fields"""
    from cuqiverif import families_common as fc
    frm, fam = rc["from"], rc["fam"]
    d = frm["dim"]
    x0 = fc.vec(frm["x"])
    extra, tol = "", (RTOL, ATOL)
    if mrf:
        m = frm["mrf"]
        extra = "/pd=%d/bc=%s/order=%d" % (m["pd"], m["bc"], m["order"])
        tol = (RTOL, ATOL) if (m["bc"] == "zero" or fam != "GMRF") else (1e-8, 1e-8)
    # (a list handed to the constructor is an ndarray afterwards: that realisation adds nothing here)
    variants = list(fc.mrf_variants(frm)) if mrf else [v for v in fc.family_variants(frm) if v[0] != "list"]
    nseq = 0
    for way, builder in variants:
        # python scalars are assigned only to the parameters that were python scalars at construction (an object whose
        # dimension is inferred from its parameters must keep at least one parameter of full length)
        scalars = set(way[len("scalar("):-1].split("+")) if way.startswith("scalar(") else set()
        for mode, n in _re_sequences(rc, seen, (fc.case_id(rc), way)):
            st, dist, _ = fc.call(builder)
            if st == "raise":
                break                                   # reported by the configuration part of the check
            if mode != "cold":
                fc.warm_up(dist, x0)
            refused = False
            for i, t in enumerate(rc["trail"][:n]):
                exp = dict(t["expect"], kind="reassign_step", rc=rc)      # a replay file re-executes the whole behaviour
                steps = [(nm, fc.assign_value(exp, nm, scalar=(nm in scalars), one_element_array=(way == "list"))) for nm in t["assign"]]
                e = fc.apply_assignments(dist, steps)
                if e is not None:
                    _re_refused(ctx, fam, "+".join(t["assign"]), e)
                    refused = True
                    break
                if mode == "each" or i == n - 1:
                    tag = _re_tag(way, mode, rc, i + 1)
                    x = fc.vec(exp["x"])
                    if _eval_density(ctx, _Unnorm(), exp, fam, tag, d, dist, x, extra=extra, tol=tol, xforms=False):
                        _eval_cdf(ctx, exp, fam, tag, d, dist, x, extra=extra)
                        _re_constancy(ctx, exp, fam, tag, d, dist, x, x0, extra)
            nseq += 0 if refused else 1
    return nseq


_RE_HOW = {"scalar": "scalar", "vector": "ndarray", "diag": "ndarray", "dense": "ndarray", "sparse": "csr"}


def reassign_gaussian(ctx, rc, seen):
    """the mean and the matrix-valued input of ONE Gaussian of every input form are replaced (the new matrix also in another
    shape than the one the object was built with: scalar -> dense, dense -> vector ...), on both sides of the sparse switch"""
    import cuqi
    from cuqiverif import families_common as fc
    frm = rc["from"]
    d = frm["dim"]
    x0 = fc.vec(frm["x"])
    mean0 = fc.vec(frm["par"]["mean"])

    def inputs_of(case):
        return {(i["form"], i["shape"]): i["data"] for i in case["inputs"] if not (i["shape"] == "sparse" and d == 1)}
    in0 = inputs_of(frm)
    # the configuration in force when the matrix is assigned decides which shapes the new matrix can take
    mstep = [t for t in rc["trail"] if "matrix" in t["assign"]][0]["expect"]
    in2 = inputs_of(mstep)
    nseq = 0
    for thr in [None] + ([d - 1] if d >= 2 else []):
        for (form, s1), data1 in sorted(in0.items()):
            s2s = [s for s in dict.fromkeys([s1, "dense"] + (["vector"] if s1 == "dense" else [])) if (form, s) in in2]
            mways = ["ndarray"] + (["scalar"] if (frm["scal"]["mean"] and thr is None and s1 == "scalar") else [])
            for s2 in s2s:
                for mway in mways:
                    way = "%s:%s>%s+mean:%s" % (form, s1, s2, mway)
                    extra = "/thr=%s" % ("default" if thr is None else thr)

                    def builder():
                        kw = {form: fc.gaussian_param(s1, data1, _RE_HOW[s1])}
                        if mway == "scalar" and s1 == "scalar":
                            kw["geometry"] = d
                        return cuqi.distribution.Gaussian(float(mean0[0]) if mway == "scalar" else np.array(mean0), **kw)
                    for mode, n in _re_sequences(rc, seen, (fc.case_id(rc), way, thr)):
                        with fc.sparse_threshold(thr):
                            st, dist, _ = fc.call(builder)
                            if st == "raise":
                                break
                            if mode != "cold":
                                fc.warm_up(dist, x0)
                            cur_shape, cur_data = s1, data1
                            for i, t in enumerate(rc["trail"][:n]):
                                exp = dict(t["expect"], kind="reassign_step", rc=rc)
                                if "matrix" in t["assign"]:
                                    cur_shape, cur_data = s2, in2[(form, s2)]
                                    steps = [(form, fc.gaussian_param(s2, cur_data, _RE_HOW[s2]))]
                                else:
                                    mv = fc.vec(exp["par"]["mean"])
                                    steps = [("mean", float(mv[0]) if (mway == "scalar" and exp["scal"]["mean"]) else mv)]
                                e = fc.apply_assignments(dist, steps)
                                if e is not None:
                                    _re_refused(ctx, "Gaussian", steps[0][0], e)
                                    break
                                if mode == "each" or i == n - 1:
                                    tag = _re_tag(way, mode, rc, i + 1)
                                    x = fc.vec(exp["x"])
                                    refusal_ok = cur_shape == "sparse" and not fc.is_diag(cur_data)
                                    if _eval_density(ctx, _Unnorm(), exp, "Gaussian", tag, d, dist, x, extra=extra,
                                                     accept_refusal=refusal_ok, xforms=False):
                                        _re_constancy(ctx, exp, "Gaussian", tag, d, dist, x, x0, extra)
                                        _eval_gaussian_attributes(ctx, exp, tag, d, dist, extra)      # before compute_cov()
                                        if cur_shape != "sparse":
                                            if d == 1:
                                                _eval_cdf(ctx, exp, "Gaussian", tag, d, dist, x, extra=extra)
                                            # multivariate cdf (scipy integrates numerically): once per sequence of the last mode
                                            _eval_gaussian_cov_cdf(ctx, exp, tag, d, dist, x, fc.vec(exp["par"]["mean"]), extra,
                                                                   with_cdf=(mode == "each" and i == n - 1 and thr is None))
                            else:
                                nseq += 1
    return nseq


def check_reassign(ctx, rc, seen, mrf_cache=None):
    from cuqiverif import families_common as fc
    fam = rc["fam"]
    if fam == "Gaussian":
        return reassign_gaussian(ctx, rc, seen)
    if fam in ("GMRF", "LMRF", "CMRF"):
        m = rc["from"]["mrf"]
        key = (m["pd"], m["n"], m["bc"], m["order"], m["wm"])
        cache = mrf_cache if mrf_cache is not None else {}
        if key not in cache:
            cache[key] = fc.mrf_operator_matches(rc["from"])
        if not cache[key]:
            return 0                                    # the other wrap-multiplicity variant is the one the code follows
        return reassign_generic(ctx, rc, seen, mrf=True)
    return reassign_generic(ctx, rc, seen)


def start_reassign_tlc(ctx):
    """the two TLC runs of the Reassign part, started in background threads (they run while the configuration part is replayed)"""
    from concurrent.futures import ThreadPoolExecutor
    from cuqiverif import families_common as fc
    pool = ThreadPoolExecutor(max_workers=2)
    jobs = {"reassign": pool.submit(fc.run_families, ctx, RE_FAMS, None, 4, "reassign"),
            "deviation": pool.submit(fc.run_reassign_deviation, ctx)}
    pool.shutdown(wait=False)
    return jobs


def run_reassign(ctx, jobs=None, keep=None):
    """Reassign part of Families.tla: TLC checks ReassignIsFresh on the state graph Evaluate / Assign(unit) of every pair of
    configurations and emits, per order of the assignment units, the expected case after every assignment."""
    from cuqiverif import families_common as fc, tlc
    from cuqiverif.core import MachineryError
    jobs = jobs or start_reassign_tlc(ctx)
    try:
        res = jobs["reassign"].result()
    finally:
        try:
            dev = jobs["deviation"].result()
            tlc.cleanup(dev)
        except Exception:
            if jobs["reassign"].exception() is None:
                tlc.cleanup(jobs["reassign"].result())
            raise
    ctx.model_must_hold(res, "Families/reassign")
    cases = [c for c in res.cases if c.get("kind") == "reassign"]
    if keep is not None:
        keep.extend(cases)
    tlc.cleanup(res)
    ctx.observations.setdefault("deviation_runs", {})["Families.reassign_stale.deviation.cfg"] = "StaleCacheAfterAssign -> ReassignIsFresh"
    per = {}
    for c in cases:
        per[c["fam"]] = per.get(c["fam"], 0) + 1
    missing = [f for f in RE_FAMS if not per.get(f)]
    if missing:
        raise MachineryError("Families.tla (Reassign part) emitted no behaviour for %r (vacuous)" % missing)
    seen, cache, n = set(), {}, 0
    for rc in sorted(cases, key=fc.reassign_id):
        n += check_reassign(ctx, rc, seen, cache)
    if not n:
        raise MachineryError("no Reassign sequence was replayed")
    ctx.observations["reassign_behaviours_per_family"] = per
    ctx.observations["reassign_sequences_replayed"] = n
    mid = sorted((c for c in cases if c["fam"] == "Cauchy"), key=fc.reassign_id)
    if mid:
        c = mid[len(mid) // 2]
        ctx.sample({"reassign": {"fam": c["fam"], "from": c["from"]["par"], "order": c["order"],
                                 "trail": [{"assign": t["assign"], "par": t["expect"]["par"], "x": t["expect"]["x"],
                                            "logpdf": t["expect"]["logpdf"]} for t in c["trail"]]}})
    return n


# ------------------------------------------------------------------ driver
def dispatch(ctx, un, case, mrf_cache=None):
    kind, fam = case.get("kind"), case.get("fam")
    if kind == "family" and fam in ("GMRF", "LMRF", "CMRF"):
        from cuqiverif import families_common as fc
        if mrf_cache is not None and not fc.mrf_operator_matches(case):
            return
        check_mrf(ctx, un, case)
    elif kind == "family" and fam == "Gaussian":
        check_gaussian(ctx, un, case)
    elif kind == "gaussbig":
        check_gaussbig(ctx, un, case)
    elif kind == "family":
        check_family(ctx, un, case)


def run(ctx):
    st_jobs = start_struct_tlc(ctx)
    try:
        _run(ctx, st_jobs)
    except BaseException:
        discard_struct_tlc(st_jobs)         # leave no TLC work directory behind
        raise


def _run(ctx, st_jobs):
    from cuqiverif import families_common as fc, tlc, c04_round6 as r6
    from cuqiverif.core import MachineryError
    re_jobs = start_reassign_tlc(ctx)
    r6_jobs = r6.start_tlc(ctx)
    try:
        res = fc.run_families(ctx, fams=C04_FAMS)
    except BaseException:
        for f in re_jobs.values():          # leave no TLC work directory behind
            try:
                tlc.cleanup(f.result())
            except BaseException:           # noqa: BLE001
                pass
        r6.discard_tlc(r6_jobs)
        raise
    ctx.model_must_hold(res, "Families")
    cases = list(res.cases)
    tlc.cleanup(res)
    dev = fc.run_deviation(ctx)
    tlc.cleanup(dev)
    fams = {}
    for c in cases:
        if c.get("kind") in ("family", "gaussbig"):
            fams.setdefault(c["fam"], []).append(c)
    missing = [f for f in C04_FAMS if not fams.get(f)]
    if missing:
        raise MachineryError("Families.tla emitted no case for %r (vacuous lattice)" % missing)
    un = _Unnorm()
    n = 0
    cache = {}
    for fam in C04_FAMS:
        if fam in ("GMRF", "LMRF", "CMRF"):
            for _, variants in sorted(mrf_groups(fams[fam]).items()):
                v = pick_mrf_variant(ctx, variants, cache)
                if v is not None:
                    check_mrf(ctx, un, v)
                    n += 1
        else:
            for c in sorted(fams[fam], key=fc.case_id):      # canonical order (TLC's emission order is scheduling-dependent)
                dispatch(ctx, un, c)
                n += 1
    re_cases = []
    try:
        n += run_reassign(ctx, re_jobs, keep=re_cases)
    except BaseException:
        r6.discard_tlc(r6_jobs)
        raise
    # parts Siblings / Buffers / Live (round 6): behaviours of FamiliesSib.tla / DiffOpsLive.tla on the cases of the lattice
    r6.run(ctx, r6_jobs, re_cases, cases)
    # part Structures (round 8): matrix structure as a dimension of every Gaussian input form (FamiliesStruct.tla)
    n += run_struct(ctx, st_jobs)
    ctx.observations["cases_per_family"] = {f: len(v) for f, v in fams.items()}
    for f in ("Cauchy", "Gaussian", "GMRF"):
        c = sorted(fams[f], key=fc.case_id)[len(fams[f]) // 2]
        ctx.sample({"fam": f, "dim": c["dim"], "par": c["par"], "x": c["x"], "logpdf": c["logpdf"], "cdf": c.get("cdf"),
                    "inputs": [(i["form"], i["shape"]) for i in c.get("inputs", [])][:20]})
    ctx.rule = ("one case per lattice point (family x parameter patterns incl. non-zero location x dim x evaluation point inside / "
                "outside the support x boundary condition / order) emitted by TLC from Families.tla with exact symbolic-log "
                "expected values; distinct non-trivial = distinct (quantity, case, way of passing parameters, sparse threshold, "
                "form of x) evaluated on the real objects")
    ctx.exhaustive = True
    ctx.traces += n
    ctx.rule += ("; part Structures: one group per (gallery member, role, orientation, mean pattern) with three evaluation points, "
                 "replayed in all four input forms / containers / both thresholds, + one direct-sum group per (member, role, dim 75 / 76, "
                 "position of the block)")
    ctx.assumptions += ["the documented density formulas integrate to one (textbook mathematics, trusted)",
                        "log 2, log 3, ..., log pi, log log 2 are evaluated by libm; linear independence of the atoms",
                        "scipy.stats.multivariate_normal.cdf accuracy (abseps 1e-5) for multivariate Gaussian cdfs",
                        "full (non-diagonal) scipy-sparse Gaussian inputs may refuse logpdf without cholmod (accepted)",
                        "difference operators themselves are decided under C20; the periodic field is judged on its own operator"]


def replay(ctx, case):
    if case.get("kind") == "model":
        return run(ctx)
    if case.get("kind") == "reassign":
        return check_reassign(ctx, case, set())
    if case.get("kind") == "reassign_step":
        return check_reassign(ctx, case["rc"], set())
    if case.get("kind") == "r6":
        from cuqiverif import c04_round6 as r6
        return r6.replay(ctx, case)
    if case.get("kind") == "struct":
        return check_gaussian(ctx, _Unnorm(), case, struct=case["struct"])
    if case.get("kind") == "structbig":
        return check_structbig(ctx, _Unnorm(), [case])
    if case.get("kind") == "structbig_point":
        return check_structbig(ctx, _Unnorm(), case["group"])
    dispatch(ctx, _Unnorm(), case, mrf_cache={})
