"""C04 - log-densities are the documented normalised densities in every parameterisation.

Spec: specs/Families.tla (+ lib/SymLog.tla, DiffOps.tla).  TLC enumerates the parameter lattice of every family, checks
SameDistribution / QuadIdentity / Unnormalised / NaNOutside / OutcomeTable on the specification and emits the exact
expected log-density (symbolic-log coefficients), cdf and gradient of every configuration.  This module builds the real
cuqi distributions in every documented way of passing the parameters and compares logpdf / pdf / cdf / logd.
"""
META = {
    "claimed": True,
    "engine": "Families.tla",
    "text": ("TLC checks on every configuration of the bounded lattice (15 families, dim 1-3, Gaussian 4 forms x 5 shapes from one "
             "unit-triangular integer factor and one dyadic diagonal, MRF priors on the DiffOps operators n<=4/5, diagonal "
             "Gaussians of dim 75/76) the invariants SameDistribution, QuadIdentity, Unnormalised, NaNOutside, OutcomeTable and "
             "emits exact symbolic-log log-densities and rational/closed-form cdfs; a named deviation (docstring sqrtcov "
             "convention) must violate SameDistribution. The harness evaluates logpdf/pdf/cdf/logd of the real distributions "
             "for every emitted case in every way of passing parameters (scalar broadcast, list, ndarray, scipy sparse, "
             "callable conditioned later) on both sides of the dense/sparse switch (MIN_DIM_SPARSE lowered and dim 75/76); every "
             "matrix-shaped Gaussian input is replayed again at the magnitudes a = 4^-30, 4^30 of the covariance with the expected "
             "value of the spec's ScalingLaw (logpdf' = logpdf - dim/2 log a, checked exactly by TLC for a = 1/4, 4)."),
    "note": ("Bounded rational lattices (dyadic scales, integer shapes, smooth integers under logarithms); that the documented "
             "formulas integrate to one is trusted mathematics; Gaussian cdf compared at scipy's integration accuracy; sparse "
             "non-diagonal Gaussians refuse logpdf without cholmod (accepted); user-defined distributions: pass-through of the "
             "user's callable only."),
    "technique": "TLA+ spec (Families, SymLog) model-checked with TLC; TLC-emitted exact cases replayed into cuqi.distribution",
}

import json, math

import numpy as np

RTOL, ATOL = 1e-10, 1e-10
C04_FAMS = ["Normal", "Gaussian", "GaussianBig", "GMRF", "LMRF", "CMRF", "Laplace", "SmoothedLaplace", "Cauchy", "Gamma",
            "InverseGamma", "Beta", "Lognormal", "Uniform", "ModifiedHalfNormal"]


def _sig(what, fam, way, d, case, extra=""):
    from cuqiverif import families_common as fc
    s = "%s/%s/way=%s/dim=%d/support=%s" % (what, fam, way, d, fc.support_tag(case))
    if fam == "ModifiedHalfNormal":
        s += "/abg=%s" % ("equal" if case.get("abg_equal") else "distinct")
    return s + extra


class _Unnorm:
    """logd - logpdf must be the same number at every evaluation point of one object (same family, parameters, way)."""

    def __init__(self):
        self.delta = {}

    def check(self, ctx, case, key, sig, logd, logpdf):
        if not (math.isfinite(logd) and math.isfinite(logpdf)):
            return
        dl = logd - logpdf
        if key in self.delta:
            if abs(dl - self.delta[key]) > 1e-9 * max(1.0, abs(logpdf)):
                ctx.mismatch(sig, case, "logd - logpdf depends on the evaluation point", self.delta[key], dl)
        else:
            self.delta[key] = dl


def _eval_density(ctx, un, case, fam, way, d, dist, x, extra="", accept_refusal=False, tol=(RTOL, ATOL), xforms=True,
                  pkey=None):
    """Compare logpdf / pdf / logd (and cdf where the case has one) of one realised distribution."""
    from cuqiverif import families_common as fc
    exp = fc.expected_logpdf(case)
    outside_undocumented = (fam == "ModifiedHalfNormal" and not case["inside"])   # support handling of logpdf not documented
    xs = [("ndarray", np.array(x))]
    if xforms and d == 1:
        xs.append(("float", float(x[0])))
    if xforms and fam in ("Cauchy", "SmoothedLaplace"):
        xs.append(("list", list(map(float, x))))            # documented: x accepts list
    got_main = None
    for xform, xv in xs:
        ex2 = extra + ("" if xform == "ndarray" else "/x=" + xform)
        st, v, _ = fc.call(lambda: dist.logpdf(xv))
        ctx.case(("logpdf", fc.case_id(case), way, extra, xform), facet="logpdf")
        if st == "raise":
            if accept_refusal:
                ctx.observations["refused_logpdf"] = ctx.observations.get("refused_logpdf", 0) + 1
                return False
            ctx.mismatch(_sig("logpdf", fam, way, d, case, ex2 + "/raises"), case,
                         "logpdf raises for a documented parameterisation: %r" % (v,), exp, repr(v))
            continue
        got = fc.scalar_of(v)
        if outside_undocumented:
            ctx.observations.setdefault("mhn_logpdf_outside_support", repr(got))
            continue
        if got is None or not fc.close(got, exp, *tol):
            ctx.mismatch(_sig("logpdf", fam, way, d, case, ex2), case,
                         "logpdf is not the documented normalised log-density", exp, v)
        if xform == "ndarray":
            got_main = got
    if outside_undocumented:
        return True
    xv = np.array(x)
    # pdf = exp(logpdf)
    st, v, _ = fc.call(lambda: dist.pdf(xv))
    # pdf is exp(logpdf) in the base class: counted as non-trivial only for the families that implement their own pdf
    ctx.case(("pdf", fc.case_id(case), way, extra), nontrivial=fam in ("Normal", "LMRF", "Lognormal"), facet="pdf")
    got = fc.scalar_of(v) if st == "value" else None
    if got is None or not fc.close(got, math.exp(exp) if exp > -math.inf else 0.0, 1e-9, 1e-300):
        ctx.mismatch(_sig("pdf", fam, way, d, case, extra), case, "pdf is not exp(documented log-density)",
                     math.exp(exp) if exp > -math.inf else 0.0, v if st == "value" else repr(v))
    # logd differs from logpdf by a constant (here: compared with the spec value; constancy across points below)
    st, v, _ = fc.call(lambda: dist.logd(xv))
    ctx.case(("logd", fc.case_id(case), way, extra), facet="logd")
    got = fc.scalar_of(v) if st == "value" else None
    if got is None:
        ctx.mismatch(_sig("logd", fam, way, d, case, extra), case, "logd does not return a number", exp,
                     v if st == "value" else repr(v))
    elif exp == -math.inf:
        if got != -math.inf:
            ctx.mismatch(_sig("logd", fam, way, d, case, extra), case, "logd is finite outside the support", exp, got)
    elif got_main is not None:
        un.check(ctx, case, (fam, pkey or json.dumps(case.get("par"), sort_keys=True), way, extra),
                 _sig("logd", fam, way, d, case, extra), got, got_main)
    return True


def _eval_cdf(ctx, case, fam, way, d, dist, x, extra="", tol=(1e-9, 1e-12)):
    from cuqiverif import families_common as fc
    cdf = case.get("cdf", {"form": "none"})
    if cdf["form"] == "none" or not hasattr(dist, "cdf"):
        return
    exp = fc.expected_cdf(cdf)
    st, v, _ = fc.call(lambda: dist.cdf(np.array(x)))
    ctx.case(("cdf", fc.case_id(case), way, extra), facet="cdf")
    if st == "raise":
        # a cdf that refuses returns no wrong value: not a violation; counted per family / way so that it stays visible
        ob = ctx.observations.setdefault("cdf_raises", {})
        k = "%s/way=%s" % (fam, way)
        ob[k] = ob.get(k, 0) + 1
        ctx.observations.setdefault("cdf_raises_example", "%s way=%s: %r" % (fam, way, v))
        return
    got = fc.scalar_of(v)
    if got is None or not fc.close(got, exp, *tol):
        ctx.mismatch(_sig("cdf", fam, way, d, case, extra), case,
                     "cdf is not the integral of the documented density (product over independent components)", exp, v)


def _eval_gaussian_cov_cdf(ctx, case, way, d, dist, x, mean, extra):
    """every input form denotes ONE distribution: the full covariance the object computes (and integrates for its cdf)
    is the inverse of the canonical precision of the specification; cdf = scipy's integral of that density"""
    from cuqiverif import families_common as fc
    import scipy.stats as sps
    if case.get("rank") != d or "prec" not in case:
        return
    P = fc.mat(case["prec"])
    cov = np.linalg.inv(P)
    st, c, _ = fc.call(lambda: dist.compute_cov())
    ctx.case(("gauss_cov", fc.case_id(case), way, extra), facet="gauss_cov")
    if st == "raise":
        ctx.observations["compute_cov_raises"] = ctx.observations.get("compute_cov_raises", 0) + 1
        return
    c = np.asarray(c.todense() if hasattr(c, "todense") else c, dtype=float)
    if c.shape != cov.shape or not np.allclose(c, cov, rtol=1e-9, atol=1e-12):
        ctx.mismatch(_sig("compute_cov", "Gaussian", way, d, case, extra), case,
                     "the covariance computed from this input form is not the inverse of the precision of the one distribution all "
                     "input forms denote", cov, c)
        return
    if d >= 2:
        st, v, _ = fc.call(lambda: dist.cdf(np.array(x)))
        if st == "raise":
            return
        exp = float(sps.multivariate_normal.cdf(np.array(x), np.array(mean), cov))
        got = fc.scalar_of(v)
        ctx.case(("gauss_cdf", fc.case_id(case), way, extra), facet="cdf")
        if got is None or abs(got - exp) > 5e-4:
            ctx.mismatch(_sig("cdf", "Gaussian", way, d, case, extra), case,
                         "cdf is not the integral of the density of the distribution this input form denotes", exp, v)


def _eval_gaussian_scaled(ctx, case, form, shape, data, how, way, d, x, mean, extra, refusal_ok):
    """ScalingLaw of Families.tla: the same matrix-shaped input at the magnitudes a = 4^e the spec emits (cov' = a cov, prec' =
    prec / a, sqrtcov' = 2^e sqrtcov, sqrtprec' = sqrtprec / 2^e, x' = mean + 2^e (x - mean)) denotes the documented density
    with logpdf' = logpdf - dim e log 2 (expected value: the spec's); the covariance the object computes is a cov."""
    import cuqi
    from cuqiverif import families_common as fc
    for sc in fc.scaled_instances(case):
        ex2 = "%s/scale=4^%d" % (extra, sc["e"])
        xs = fc.scaled_point(mean, x, sc)
        exp = fc.expected_logpdf({"logpdf": sc["logpdf"]})
        st, dist, _ = fc.call(lambda: cuqi.distribution.Gaussian(np.array(mean), **{form: fc.gaussian_param(shape, data, how, pow2=sc["form_pow2"][form])}))
        ctx.case(("logpdf_scaled", fc.case_id(case), way, ex2), facet="logpdf_scaled")
        if st == "raise":
            ctx.mismatch(_sig("construct", "Gaussian", way, d, case, ex2), case,
                         "Gaussian cannot be built from a documented input form at this magnitude: %r" % (dist,))
            continue
        st, v, _ = fc.call(lambda: dist.logpdf(np.array(xs)))
        if st == "raise":
            if refusal_ok:
                ctx.observations["refused_logpdf"] = ctx.observations.get("refused_logpdf", 0) + 1
            else:
                ctx.mismatch(_sig("logpdf", "Gaussian", way, d, case, ex2 + "/raises"), case,
                             "logpdf raises for a documented parameterisation: %r" % (v,), exp, repr(v))
            continue
        got = fc.scalar_of(v)
        if got is None or not fc.close(got, exp, RTOL, ATOL):
            ctx.mismatch(_sig("logpdf", "Gaussian", way, d, case, ex2), case,
                         "logpdf is not the documented normalised log-density at this magnitude of the covariance (scaling law: "
                         "logpdf' = logpdf - dim/2 log a)", exp, v)
        if case.get("rank") == d and "prec" in case and shape != "sparse":
            a = math.ldexp(1.0, 2 * sc["e"])
            cov = np.linalg.inv(fc.mat(case["prec"])) * a
            st, c, _ = fc.call(lambda: dist.compute_cov())
            if st == "value":
                c = np.asarray(c.todense() if hasattr(c, "todense") else c, dtype=float)
                ctx.case(("gauss_cov_scaled", fc.case_id(case), way, ex2), facet="gauss_cov")
                if c.shape != cov.shape or not np.allclose(c / a, cov / a, rtol=1e-9, atol=1e-12):
                    ctx.mismatch(_sig("compute_cov", "Gaussian", way, d, case, ex2), case,
                                 "the covariance computed from this input form is not a times the covariance of the unscaled instance",
                                 cov, c)


# ------------------------------------------------------------------ generic families
def check_family(ctx, un, case):
    from cuqiverif import families_common as fc
    fam, d = case["fam"], case["dim"]
    x = fc.vec(case["x"])
    for way, builder in fc.family_variants(case):
        st, dist, _ = fc.call(builder)
        if st == "raise":
            ctx.mismatch(_sig("construct", fam, way, d, case), case,
                         "distribution cannot be built from a documented way of passing parameters: %r" % (dist,))
            continue
        if _eval_density(ctx, un, case, fam, way, d, dist, x):
            _eval_cdf(ctx, case, fam, way, d, dist, x)
    if fam == "Normal":
        check_userdefined(ctx, un, case)


def check_userdefined(ctx, un, case):
    """User-defined family: the documented density IS the user's callable.  logpdf / pdf / logd of a
    UserDefinedDistribution wrapping  f(z) = E - |z - x|^2 / 2  (E = TLC's exact value of this case) at z = x."""
    import cuqi
    from cuqiverif import families_common as fc
    d = case["dim"]
    x = fc.vec(case["x"])
    E = fc.expected_logpdf(case)
    cls = getattr(cuqi.distribution, "UserDefinedDistribution", None)
    if cls is None or not math.isfinite(E):
        return
    st, dist, _ = fc.call(lambda: cls(dim=d, logpdf_func=lambda z: E - 0.5 * float(np.sum((np.asarray(z, dtype=float) - x) ** 2))))
    if st == "raise":
        ctx.mismatch(_sig("construct", "UserDefined", "userdefined", d, case), case,
                     "UserDefinedDistribution cannot be built from dim and logpdf_func: %r" % (dist,))
        return
    _eval_density(ctx, un, case, "UserDefined", "userdefined", d, dist, x, xforms=False,
                  pkey=json.dumps([case.get("par"), case["x"]], sort_keys=True))


# ------------------------------------------------------------------ Markov random fields
def check_mrf(ctx, un, case):
    from cuqiverif import families_common as fc
    fam, d = case["fam"], case["dim"]
    m = case["mrf"]
    x = fc.vec(case["x"])
    extra = "/pd=%d/bc=%s/order=%d" % (m["pd"], m["bc"], m["order"])
    # eigsh / jittered Cholesky of the rank-deficient fields: compare at the accuracy of those solvers
    tol = (RTOL, ATOL) if (m["bc"] == "zero" or fam != "GMRF") else (1e-8, 1e-8)
    for way, builder in fc.mrf_variants(case):
        st, dist, _ = fc.call(builder)
        if st == "raise":
            ctx.mismatch(_sig("construct", fam, way, d, case, extra), case,
                         "MRF prior cannot be built from a documented way of passing parameters: %r" % (dist,))
            continue
        _eval_density(ctx, un, case, fam, way, d, dist, x, extra=extra, tol=tol, xforms=False,
                      pkey=json.dumps([case["par"], m["pd"], m["bc"], m["order"]], sort_keys=True))


def mrf_groups(cases):
    """group the periodic wrap-multiplicity variants of one configuration"""
    g = {}
    for c in cases:
        k = dict(c["cfg"])
        k.pop("wm")
        g.setdefault(json.dumps(k, sort_keys=True), []).append(c)
    return g


def pick_mrf_variant(ctx, variants, cache):
    from cuqiverif import families_common as fc
    for v in variants:
        m = v["mrf"]
        key = (m["pd"], m["n"], m["bc"], m["order"], m["wm"])
        if key not in cache:
            cache[key] = fc.mrf_operator_matches(v)
        if cache[key]:
            if m["bc"] == "periodic":
                ctx.observations.setdefault("periodic_wrap_multiplicity", {})["pd=%d/n=%d/order=%d" % (m["pd"], m["n"], m["order"])] = m["wm"]
            return v
    ctx.observations["mrf_operator_outside_spec"] = ctx.observations.get("mrf_operator_outside_spec", 0) + 1
    return None     # the operator itself is C20's business


# ------------------------------------------------------------------ Gaussian: 4 forms x 5 shapes, dense / sparse switch
_HOWS = {"scalar": ["scalar"], "vector": ["ndarray", "list"], "diag": ["ndarray"], "dense": ["ndarray", "list"],
         "sparse": ["csr", "dia", "csc"]}


def check_gaussian(ctx, un, case):
    import cuqi
    from cuqiverif import families_common as fc
    d = case["dim"]
    x = fc.vec(case["x"])
    mean = fc.vec(case["par"]["mean"])
    thresholds = [None] + ([d - 1] if d >= 2 else [])
    seen_forms = set()
    for inp in case["inputs"]:
        form, shape, data = inp["form"], inp["shape"], inp["data"]
        if shape == "sparse" and d == 1:
            continue                                   # a 1 x 1 sparse matrix is not a meaningful input
        diag = shape in ("scalar", "vector") or fc.is_diag(data)
        for how in _HOWS[shape]:
            if shape == "sparse" and how == "csc" and ctx.tier == "quick":
                continue
            for thr in thresholds:
                for mway in (["ndarray", "scalar"] if (case["scal"]["mean"] and how in ("scalar", "ndarray", "csr")) else ["ndarray"]):
                    way = "%s:%s:%s+mean:%s" % (form, shape, how, mway)
                    extra = "/thr=%s/struct=%s" % ("default" if thr is None else thr, "diag" if diag else "full")

                    def builder():
                        kw = {form: fc.gaussian_param(shape, data, how)}
                        mv = float(mean[0]) if mway == "scalar" else np.array(mean)
                        allscalar = mway == "scalar" and shape == "scalar"
                        if allscalar:
                            kw["geometry"] = d
                        return cuqi.distribution.Gaussian(mv, **kw)
                    with fc.sparse_threshold(thr):
                        st, dist, _ = fc.call(builder)
                        if st == "raise":
                            ctx.mismatch(_sig("construct", "Gaussian", way, d, case, extra), case,
                                         "Gaussian cannot be built from a documented input form: %r" % (dist,))
                            continue
                        refusal_ok = (shape == "sparse" and not diag)    # full sparse matrix without cholmod
                        ok = _eval_density(ctx, un, case, "Gaussian", way, d, dist, x, extra=extra, accept_refusal=refusal_ok,
                                           xforms=(thr is None and how in ("scalar", "ndarray")),
                                           pkey=json.dumps([case["par"], case["prec"]], sort_keys=True))
                        if ok and thr is None and (form, shape) not in seen_forms and mway == "ndarray" and shape != "sparse":
                            seen_forms.add((form, shape))
                            # scipy integrates the multivariate cdf numerically (abseps 1e-5)
                            _eval_cdf(ctx, case, "Gaussian", way, d, dist, x, extra=extra,
                                      tol=(1e-9, 1e-12) if d == 1 else (0.0, 2e-4))
                            _eval_gaussian_cov_cdf(ctx, case, way, d, dist, x, mean, extra)
                        if mway == "ndarray" and shape in ("diag", "dense", "sparse"):
                            _eval_gaussian_scaled(ctx, case, form, shape, data, how, way, d, x, mean, extra, refusal_ok)
    # callable parameters conditioned later (one per form, dense data)
    for inp in case["inputs"]:
        if inp["shape"] != "dense":
            continue
        form = inp["form"]

        def builder():
            g = cuqi.distribution.Gaussian(fc._mk_lambda("c_mean"), **{form: fc._mk_lambda("c_" + form)}, geometry=d)
            return g(**{"c_mean": np.array(mean), "c_" + form: fc.gaussian_param("dense", inp["data"])})
        way = "%s:dense:callable+mean:callable" % form
        st, dist, _ = fc.call(builder)
        if st == "raise":
            ctx.mismatch(_sig("construct", "Gaussian", way, d, case), case,
                         "conditional Gaussian cannot be conditioned on its parameters: %r" % (dist,))
            continue
        _eval_density(ctx, un, case, "Gaussian", way, d, dist, x, extra="/thr=default", xforms=False,
                      pkey=json.dumps([case["par"], case["prec"]], sort_keys=True))


def check_gaussbig(ctx, un, case):
    """diagonal Gaussians on both sides of the real dense/sparse threshold (dim 75 / 76)"""
    import cuqi, scipy.sparse as sp
    from cuqiverif import families_common as fc
    d = case["dim"]
    x = fc.vec(case["x"])
    mean = fc.vec(case["mean"])
    pseudo = {"fam": "GaussianBig", "logpdf": case["logpdf"], "cfg": case["cfg"], "inside": True, "par": None}
    for inp in case["inputs"]:
        form = inp["form"]
        v = fc.vec(inp["vec"])
        ways = [("vector", lambda: np.array(v)), ("diag", lambda: np.diag(v)), ("sparse:dia", lambda: sp.diags(v)),
                ("sparse:csr", lambda: sp.csr_matrix(np.diag(v)))]
        if case["lamconst"]:
            ways.append(("scalar", lambda: float(v[0])))
        for shape, mk in ways:
            for mway in (["ndarray", "scalar"] if case["meanscal"] else ["ndarray"]):
                way = "%s:%s+mean:%s" % (form, shape, mway)

                def builder():
                    kw = {form: mk()}
                    if mway == "scalar" and shape == "scalar":
                        kw["geometry"] = d
                    return cuqi.distribution.Gaussian(float(mean[0]) if mway == "scalar" else np.array(mean), **kw)
                st, dist, _ = fc.call(builder)
                if st == "raise":
                    ctx.mismatch(_sig("construct", "GaussianBig", way, d, pseudo), case,
                                 "Gaussian cannot be built from a documented input form: %r" % (dist,))
                    continue
                _eval_density(ctx, un, pseudo, "GaussianBig", way, d, dist, x, xforms=False,
                              pkey=json.dumps([case["mean"], case["inputs"][1]["vec"]]))


# ------------------------------------------------------------------ driver
def dispatch(ctx, un, case, mrf_cache=None):
    kind, fam = case.get("kind"), case.get("fam")
    if kind == "family" and fam in ("GMRF", "LMRF", "CMRF"):
        from cuqiverif import families_common as fc
        if mrf_cache is not None and not fc.mrf_operator_matches(case):
            return
        check_mrf(ctx, un, case)
    elif kind == "family" and fam == "Gaussian":
        check_gaussian(ctx, un, case)
    elif kind == "gaussbig":
        check_gaussbig(ctx, un, case)
    elif kind == "family":
        check_family(ctx, un, case)


def run(ctx):
    from cuqiverif import families_common as fc, tlc
    from cuqiverif.core import MachineryError
    res = fc.run_families(ctx, fams=C04_FAMS)
    ctx.model_must_hold(res, "Families")
    cases = list(res.cases)
    tlc.cleanup(res)
    dev = fc.run_deviation(ctx)
    tlc.cleanup(dev)
    fams = {}
    for c in cases:
        if c.get("kind") in ("family", "gaussbig"):
            fams.setdefault(c["fam"], []).append(c)
    missing = [f for f in C04_FAMS if not fams.get(f)]
    if missing:
        raise MachineryError("Families.tla emitted no case for %r (vacuous lattice)" % missing)
    un = _Unnorm()
    n = 0
    cache = {}
    for fam in C04_FAMS:
        if fam in ("GMRF", "LMRF", "CMRF"):
            for _, variants in sorted(mrf_groups(fams[fam]).items()):
                v = pick_mrf_variant(ctx, variants, cache)
                if v is not None:
                    check_mrf(ctx, un, v)
                    n += 1
        else:
            for c in sorted(fams[fam], key=fc.case_id):      # canonical order (TLC's emission order is scheduling-dependent)
                dispatch(ctx, un, c)
                n += 1
    ctx.observations["cases_per_family"] = {f: len(v) for f, v in fams.items()}
    for f in ("Cauchy", "Gaussian", "GMRF"):
        c = sorted(fams[f], key=fc.case_id)[len(fams[f]) // 2]
        ctx.sample({"fam": f, "dim": c["dim"], "par": c["par"], "x": c["x"], "logpdf": c["logpdf"], "cdf": c.get("cdf"),
                    "inputs": [(i["form"], i["shape"]) for i in c.get("inputs", [])][:20]})
    ctx.rule = ("one case per lattice point (family x parameter patterns incl. non-zero location x dim x evaluation point inside / "
                "outside the support x boundary condition / order) emitted by TLC from Families.tla with exact symbolic-log "
                "expected values; distinct non-trivial = distinct (quantity, case, way of passing parameters, sparse threshold, "
                "form of x) evaluated on the real objects")
    ctx.exhaustive = True
    ctx.traces = n
    ctx.assumptions += ["the documented density formulas integrate to one (textbook mathematics, trusted)",
                        "log 2, log 3, ..., log pi, log log 2 are evaluated by libm; linear independence of the atoms",
                        "scipy.stats.multivariate_normal.cdf accuracy (abseps 1e-5) for multivariate Gaussian cdfs",
                        "full (non-diagonal) scipy-sparse Gaussian inputs may refuse logpdf without cholmod (accepted)",
                        "difference operators themselves are decided under C20; the periodic field is judged on its own operator"]


def replay(ctx, case):
    if case.get("kind") == "model":
        return run(ctx)
    dispatch(ctx, _Unnorm(), case, mrf_cache={})
