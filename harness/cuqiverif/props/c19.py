"""C19 - sample statistics and burn-in / thinning are exact functions of the stored chain.

Spec: specs/SamplesOps.tla.  TLC explores the state graph of sample-set objects <<cols, is_par, is_vec, geometry>> under
Burnthin(b, t) / Funvals / Vector / Parameters / JointBurnthin(b, t), checks Indices, NonEmpty, FlagsLegal,
SourceUntouched, UnpermutedInv, Node (LoMedHi, FunStats) and the action properties FlagsPreserved,
ConversionsKeepColumns, StepIndices, and emits every transition (edge) and, per reachable object (node), the exact
expected columns, rational statistics and the variable <-> row mapping handed to arviz.  This module drives real
cuqi.samples.Samples / JointSamples objects along every edge (objects are reached through real calls only) and along
seeded random chains of three operations, comparing after every action.

Frame machine (FInit / FNext of the same module): a heap of sample-set objects and the caller's ONE list of chains under
FStat / FEss / FToArviz / FRhat(list | single) / FBurnthin / FConv and the caller's own FThinList / FSwapList; TLC checks the
action property Frame (no action alters an existing object; the list is altered by no library action) and RhatFunctional
(chains entering R-hat = the receiver followed by the list as the caller last set it); the harness replays every edge on one real
heap and one real list per walk with deep fingerprints of the receiver and every argument around every call and compares
the result of every call - first, repeated, repeated after all other operations - with the value the spec determines.

Data layout (dimension `lay` of both configurations): the source array holds the SAME exact values as float64 / int64 / int32 /
float32, Fortran-ordered, as a non-contiguous view of a wider array, write-protected (and two combinations); the spec's
invariants LayoutIndependent / FLayoutIndependent state that the expected columns and exact statistics do not depend on it
(deviations CastBack, ConvKeepsType); the replay builds the source in every layout (c19_trace.in_layout) and compares values
only (never the number type of a result).
"""
META = {
    "claimed": True,
    "engine": "SamplesOps.tla",
    "text": ("TLC explores every reachable sample-set object <<columns, is_par, is_vec, geometry>> for chains of N<=5/12 "
             "(quick) or N<=7/12 (thorough) samples under burnthin(b<=5/8, t<=4/8), funvals / vector / parameters and "
             "JointSamples.burnthin, checks Indices (closed form b, b+t, ...), NonEmpty, FlagsLegal, FlagsPreserved, "
             "ConversionsKeepColumns, StepIndices, SourceUntouched, LoMedHi, FunStats and Unpermuted on the specification "
             "(six named deviations must each violate their invariant), and emits every transition plus exact rational "
             "statistics; the harness replays every transition and seeded chains of three operations on real Samples / "
             "JointSamples objects (columns encode their index; arrays compared exactly, statistics to rtol 1e-12) and "
             "intercepts arviz.ess / arviz.rhat to compare the dictionary handed over and the order of the result. A second "
             "state machine of the same module (heap of sample-set objects, the caller's one list of chains; statistics, "
             "ESS, name->row mapping, R-hat with the list or a single chain, burnthin, conversions, and the caller thinning "
             "or replacing list elements) is model-checked for Frame (no operation alters its receiver, its arguments or any "
             "other object) and RhatFunctional (two further deviations, RhatInsertsSelf and ConvInPlace, must violate them); "
             "every edge of its graph and seeded walks of four calls are replayed on one real heap and one real list with "
             "deep fingerprints around every call, every call (first, repeated, repeated after all other operations) compared "
             "with the spec's value (R-hat / ESS reference: arviz applied to the spec's arrays stacked in the spec's order). Code -> "
             "spec: calls recorded from a seeded random driver (chains up to 200 samples) and, in the thorough tier, from "
             "tests/test_samples.py and tests/test_geometry.py are validated by TLC against TraceSamplesOps.tla (flag automaton, "
             "indices, and the recorded frame of every call incl. compute_rhat: receiver, list length, element identities and "
             "contents before / after). Call forms and views: every burnthin transition is also taken with its arguments by "
             "keyword and, for t = 1, with Nt omitted (same refusal, same result; Samples and JointSamples); per reachable object "
             "Ns, shape (shape of one sample followed by Ns), iteration order, compute_ci / ci_width with percent by keyword and "
             "omitted (documented default 95), refusal of (is_par, not is_vec) at the constructor and the is_vec setter, and the "
             "values and is_par flag that plot_mean / plot_median / plot_variance / plot_std / plot_ci_width(p) hand to "
             "geometry.plot (exact statistic; for function samples in vector form the statistic of the converted samples - "
             "PlotStatsOK) are compared with the specification. Data layout: the configurations of both machines carry the layout of "
             "the source array - float64 (reference), int64, int32, float32, Fortran-ordered, a non-contiguous view (every second "
             "column of a wider array), write-protected, and int32+view+write-protected, float32+Fortran - for chains of 4 (quick; 2 "
             "and 5 thorough) samples of every geometry incl. joint sets, burnthin box b<=4, t<=2 (5, 3), and one (two) frame "
             "configurations; TLC checks LayoutIndependent / FLayoutIndependent (expected columns and exact rational statistics of "
             "every reachable object are the same in every layout; three more deviations must violate them: CastBack - statistics "
             "cast back to the number type of the stored chain, in both machines - and ConvKeepsType - converted samples stored in "
             "the number type of the receiver); the replay stores the same exact values in every layout and replays every "
             "transition, statistic, view, plot hand-over, arviz hand-over and frame edge in it (values only; number types of "
             "results are not compared; the wider array behind a view must stay untouched; no call may raise on a write-protected "
             "chain); the geometry `half` (function values x/2, not integers) makes conversions of integer chains observable; "
             "statistics of every member of a joint set are compared. Credibility level: the levels of every cfg are exact "
             "rationals given in tenths of a percent over the whole documented range incl. its boundaries and small values (quick: 0, "
             "0.5, 1, 2.5, 50, 95, 99.5, 100; thorough also 0.1, 1.5, 10, 80, 90, 99, 99.9); TLC checks the level law LevelLaw / "
             "FLevelLaw at every node of both machines (interval of level 0 = the median, of level 100 = the range of the chain, "
             "bounds strictly nested in the level, bounds = percentiles at positions (1000 -+ m)(n-1)/2000 in integer arithmetic; "
             "deviation Fraction - a level 0 < p <= 1 read as a fraction of one - must violate it in both machines) and emits per "
             "level the number types in which it can be handed over exactly (python int / float, numpy int64 / int32 / float64 / "
             "float32); the replay calls compute_ci / ci_width positionally (natural type) and by keyword (another type, rotating), "
             "plot_ci_width(p) and, for parameter samples, plot_ci(p) (envelope handed to geometry.plot_envelope = exact (lower, "
             "upper); arrays handed to geometry.plot as parameters = exact mean / lower / upper / width), the frame machine with "
             "rotating number types, every level x number type at least once (vacuity guard)."),
    "note": ("Bounded chain lengths, burn-in / thinning boxes, eight fixed small geometries and a finite set of credibility "
             "levels; statistics are compared on integer-valued chains with distinct entries per coordinate (function values of "
             "`half`: halves). Single precision layouts: statistics are compared with 64 roundings of size 2^-23 x (largest stored "
             "magnitude; its square for the variance) because numpy evaluates them in float32; columns, flags, refusals and the "
             "arviz hand-over are exact in every layout. The number type / memory order of results is not asserted. "
             "Samples.vector for Continuous2D function values (not implemented by the library) and ESS/R-hat of "
             "function-value samples whose dimension differs from the parameter dimension are outside the asserted "
             "behaviour. Exception types of refused burn-in values are not asserted. Not exercised (no exact oracle in the "
             "documentation): plot_ci of function-value samples and the composition of its figure, plot, plot_chain, hist_chain, the arviz plots, diagnostics (Geweke), __repr__, other arviz "
             "keyword arguments; the statistic plots are intercepted at geometry.plot with pyplot of the samples module stubbed."),
    "technique": "TLA+ spec (SamplesOps) model-checked with TLC; TLC-emitted transitions and exact statistics replayed "
                 "into cuqi.samples.Samples / JointSamples; arviz entry points wrapped in the harness process; recorded "
                 "calls validated by TLC against TraceSamplesOps.tla",
}

import contextlib, io, math, random, warnings
from fractions import Fraction

import numpy as np

DEVIATIONS = [("offbyone", "Indices"), ("boundary", "NonEmpty"), ("dropflag", "FlagsPreserved"),
              ("inplace", "SourceUntouched"), ("lexorder", "UnpermutedInv"), ("jointnothin", "Indices"),
              # frame machine: RhatInsertsSelf (compute_rhat inserts the receiver into the caller's list), ConvInPlace
              ("rhatinsertsself", "Frame"), ("rhatinsertsself_fn", "RhatFunctional"), ("convinplace", "Frame"),
              # data layouts: CastBack (statistics cast back to the number type of the stored chain), ConvKeepsType
              ("castback", "LayoutIndependent"), ("convkeepstype", "LayoutIndependent"), ("castback_frame", "FLayoutIndependent"),
              # credibility level: Fraction (a level 0 < p <= 1 is read as a fraction of one), in both machines
              ("fraction", "LevelLaw"), ("fraction_frame", "FLevelLaw")]

RTOL = 1e-12
# single precision layouts: numpy evaluates mean / variance / std / median of a float32 array in float32; every stored value is
# exact, so a statistic carries a few roundings of size eps32 * (largest stored magnitude) (its square for the variance)
EPS32 = 2.0 ** -23
F32_SLACK = 64
REF_LAYOUT = "f64"


def clay(c):
    """data layout of the source array of a configuration (cases stored before the layout dimension existed: reference)"""
    return c.get("lay", REF_LAYOUT)


def is_f32(lay):
    from cuqiverif.c19_trace import F32_LAYOUTS
    return lay in F32_LAYOUTS


def stat_scale(s):
    """largest magnitude stored at the coordinate of the spec's statistics record s"""
    return max(1.0, max(abs(v) for v in s["vals"]) / float(s.get("den", 1)))


# ---------------------------------------------------------------------------------------------------------------
# abstract keys
def okey(o):
    return (tuple(o["cols"]), bool(o["par"]), bool(o["vec"]), o["geom"])


def ckey(c):
    return (c["g"], int(c["N"]), bool(c["joint"]), clay(c))


def cstr(c):
    return "g=%s/N=%d%s%s" % (c["g"], c["N"], "/joint" if c["joint"] else "", "" if clay(c) == REF_LAYOUT else "/lay=" + clay(c))


def ostr(o):
    return "n=%d/par=%d/vec=%d" % (len(o["cols"]), o["par"], o["vec"])


def frac(q):
    return Fraction(int(q[0]), int(q[1]))


# ---------------------------------------------------------------------------------------------------------------
# credibility levels: the spec gives a level as `pm` tenths of a percent (exact), the rational `pct` and the number types
# `forms` in which the level can be handed over with exactly its value (LevelForms of the spec)
LEVEL_FORMS = ("int", "float", "npint64", "npint32", "npfloat64", "npfloat32")


def pm_of(ci):
    """level of a ci record in tenths of a percent (cases stored before levels were rationals: integer percent)"""
    return int(ci["pm"]) if "pm" in ci else 10 * int(ci["pct"])


def pstr(pm):
    """the level in percent as it appears in signatures: 95, 2.5, 0.5"""
    return "%d" % (pm // 10) if pm % 10 == 0 else "%d.%d" % (pm // 10, pm % 10)


def natural_form(pm):
    return "int" if pm % 10 == 0 else "float"


def level_value(pm, form=None):
    """the level as a number of percent in the given number type"""
    form = form or natural_form(pm)
    if form == "int":
        return pm // 10
    if form == "float":
        return pm / 10
    if form == "npint64":
        return np.int64(pm // 10)
    if form == "npint32":
        return np.int32(pm // 10)
    if form == "npfloat64":
        return np.float64(pm) / 10
    if form == "npfloat32":
        return np.float32(pm) / np.float32(10)
    from cuqiverif.core import MachineryError
    raise MachineryError("unknown number type %r of a credibility level emitted by the spec" % (form,))


def level_forms(ci):
    return sorted(ci.get("forms", ["int"]))


def rotated_form(ci, k):
    """one of the spec's number types of the level that is not the natural one, chosen by the counter k"""
    pm = pm_of(ci)
    others = [f for f in level_forms(ci) if f != natural_form(pm)]
    return others[k % len(others)] if others else natural_form(pm)


_LEVEL_COUNTER = [0]


# ---------------------------------------------------------------------------------------------------------------
# realisation of the geometry kinds of the spec
def make_geometry(g):
    import cuqi
    G = cuqi.geometry
    if g == "c1d1":
        return G.Continuous1D(1)
    if g == "c1d3":
        return G.Continuous1D(3)
    if g == "wide":
        return G.Continuous1D(12)
    if g == "imgC":
        return G.Image2D((2, 3), order="C")
    if g == "imgF":
        return G.Image2D((2, 3), order="F")
    if g == "c2d":
        return G.Continuous2D((2, 3))
    if g == "mapsq":
        return G.MappedGeometry(G.Continuous1D(2), map=lambda x: x ** 2, imap=np.sqrt)
    if g == "step":
        return G.StepExpansion(np.linspace(0, 1, 4), n_steps=2)
    if g == "half":
        return G.MappedGeometry(G.Continuous1D(2), map=lambda x: x / 2, imap=lambda y: 2 * y)
    from cuqiverif.core import MachineryError
    raise MachineryError("unknown geometry kind %r emitted by the spec" % g)


def expected_array(stats, ncols):
    pos = [tuple(s["pos"]) for s in stats]
    shape = tuple(max(p[a] for p in pos) + 1 for a in range(len(pos[0])))
    A = np.full(shape + (ncols,), np.nan)
    for s in stats:
        A[tuple(s["pos"])] = np.asarray(s["vals"], dtype=float) / float(s.get("den", 1))     # den in {1, 2}: exact
    return A


class Graph:
    """TLC's emitted transition graph, per configuration."""

    def __init__(self, cases):
        self.configs = {}
        self.nodes = {}
        self.edges = {}
        for k in cases:
            ck = ckey(k["c"])
            self.configs.setdefault(ck, k["c"])
            if k["kind"] == "node":
                self.nodes[(ck, okey(k["obj"]), okey(k["obj2"]))] = k
            elif k["kind"] == "edge":
                d = self.edges.setdefault(ck, {}).setdefault((okey(k["pre"]), okey(k["pre2"])), {})
                d[(k["op"]["name"], k["op"]["b"], k["op"]["t"])] = k

    def init_key(self, ck):
        g, N, joint = ck[:3]
        o1 = (tuple(range(N)), True, True, g)
        o2 = (tuple(range(N + 1)), False, False, "imgF") if joint else ((), True, True, "none")
        return (o1, o2)

    def out_edges(self, ck, sk):
        # TLC's workers emit in arbitrary order: fixed order, so that VERIF_SEED alone determines the random chains
        d = self.edges.get(ck, {}).get(sk, {})
        return [d[k] for k in sorted(d)]


# ---------------------------------------------------------------------------------------------------------------
# real world
class Live:
    """A real object (Samples or JointSamples) reached through real calls, with snapshots of its ancestors."""

    def __init__(self, real, ancestors, bases=()):
        self.real = real
        self.ancestors = ancestors          # list of (samples object, snapshot)
        self.bases = list(bases)            # (wider array a strided source chain is a view of, copy of it)


def snapshot(s):
    return (np.array(s.samples, copy=True), bool(s.is_par), bool(s.is_vec), s.geometry)


def members(real):
    from cuqi.samples import JointSamples
    if isinstance(real, JointSamples):
        return [real["x"], real["y"]]
    return [real]


def check_untouched(ctx, sig, case, live):
    for s, (arr, par, vec, geom) in live.ancestors:
        same = (isinstance(s.samples, np.ndarray) and s.samples.shape == arr.shape and np.array_equal(s.samples, arr)
                and bool(s.is_par) == par and bool(s.is_vec) == vec and s.geometry is geom)
        if not same:
            ctx.mismatch("source/" + sig, case, "an operation altered a sample set it was called on (or an ancestor of it)",
                         expected={"samples": arr, "is_par": par, "is_vec": vec},
                         observed={"samples": s.samples, "is_par": s.is_par, "is_vec": s.is_vec})
            return False
    for big, cp in live.bases:
        if not np.array_equal(big, cp):
            ctx.mismatch("source/" + sig + "/base", case, "an operation wrote into the array the source chain is a (non-contiguous) view of",
                         expected=cp, observed=big)
            return False
    return True


def compare_object(ctx, sig, case, real, abstract, node, geom, which="stats"):
    """real Samples vs the abstract object and the node's exact columns."""
    ok = True
    if bool(real.is_par) != abstract["par"] or bool(real.is_vec) != abstract["vec"]:
        ctx.mismatch("flags/" + sig, case, "representation flags (is_par, is_vec) differ from the specification",
                     expected=[abstract["par"], abstract["vec"]], observed=[real.is_par, real.is_vec])
        ok = False
    if not (real.geometry is geom or real.geometry == geom):
        ctx.mismatch("geometry/" + sig, case, "geometry of the result is not the geometry of the source",
                     expected=repr(geom), observed=repr(real.geometry))
        ok = False
    exp = expected_array(node[which], len(abstract["cols"]))
    got = real.samples
    if not isinstance(got, np.ndarray) or got.shape != exp.shape or not np.array_equal(np.asarray(got, dtype=float), exp):
        ctx.mismatch("indices/" + sig, case, "stored samples of the result are not the columns the specification selects",
                     expected={"cols": abstract["cols"], "array": exp}, observed=got)
        ok = False
    return ok


def apply_op(real, op, form="pos"):
    name = op["name"]
    if name == "burnthin" or name == "jointburnthin":
        if form == "kw":                    # the documented parameter names
            return real.burnthin(Nt=op["t"], Nb=op["b"])
        if form == "default":               # Nt omitted: the specification offers this form only for t = DefaultNt
            return real.burnthin(op["b"])
        return real.burnthin(op["b"], op["t"])
    if name == "funvals":
        return real.funvals
    if name == "vector":
        return real.vector
    if name == "parameters":
        return real.parameters
    from cuqiverif.core import MachineryError
    raise MachineryError("unknown action %r emitted by the spec" % name)


def _other_forms(ctx, sig, case, live, e, node, geoms, c):
    """The other documented forms of the same call (arguments by keyword; Nt omitted when t is the default): the same
    transition of the specification - same refusal, same result."""
    from cuqi.samples import JointSamples
    op = e["op"]
    ok = True
    for form in sorted(op.get("forms", ())):
        if form == "pos":
            continue
        fsig = "%s/form=%s" % (sig, form)
        ctx.facets["call_form_" + form] = ctx.facets.get("call_form_" + form, 0) + 1
        try:
            with warnings.catch_warnings():
                warnings.simplefilter("ignore")
                res = apply_op(live.real, op, form)
            raised = None
        except Exception as ex:          # noqa: BLE001
            res, raised = None, ex
        if e["err"]:
            if raised is None:
                ctx.mismatch("refusal/" + fsig, case, "burn-in >= number of samples must be refused; the call returned",
                             expected="an exception", observed=[m.samples.shape for m in members(res)] if res is not None else None)
                ok = False
            continue
        if raised is not None:
            ctx.mismatch("raises/" + fsig, case, "the call raised although the specification defines a result: %r" % (raised,),
                         expected=e["post"], observed=repr(raised))
            ok = False
            continue
        if c["joint"]:
            if not isinstance(res, JointSamples) or sorted(res.keys()) != ["x", "y"]:
                ctx.mismatch("joint/" + fsig, case, "JointSamples.burnthin must return the same members", ["x", "y"], repr(res))
                ok = False
                continue
            ok &= compare_object(ctx, fsig + "/member=x", case, res["x"], e["post"], node, geoms[0], "stats")
            ok &= compare_object(ctx, fsig + "/member=y", case, res["y"], e["post2"], node, geoms[1], "stats2")
        else:
            ok &= compare_object(ctx, fsig, case, res, e["post"], node, geoms[0], "stats")
        ok &= check_untouched(ctx, fsig, case, live)
    return ok


def step(ctx, graph, ck, geoms, live, e, chain_ops):
    """Apply edge e to the real object; compare with the spec; returns the new Live (or `live` itself when the
    action is refused) or None after a mismatch."""
    from cuqi.samples import JointSamples
    c = graph.configs[ck]
    op = e["op"]
    sig = "%s/%s/%s/b=%d/t=%d" % (op["name"], cstr(c), ostr(e["pre"]), op["b"], op["t"])
    case = {"kind": "chain", "c": c, "ops": chain_ops + [op]}
    ctx.case((op["name"], ck, okey(e["pre"]), op["b"], op["t"]), facet=op["name"])
    recv_members = [(k, id(v)) for k, v in live.real.items()] if isinstance(live.real, JointSamples) else None
    try:
        with warnings.catch_warnings():
            warnings.simplefilter("ignore")
            res = apply_op(live.real, op)
        raised = None
    except Exception as ex:          # noqa: BLE001  (exception *types* are not asserted)
        res, raised = None, ex
    if recv_members is not None and [(k, id(v)) for k, v in live.real.items()] != recv_members:
        ctx.mismatch("frame/%s/receiver_members" % sig, case, "JointSamples.burnthin altered the receiving dictionary (keys / member "
                     "identities)", [k for k, _ in recv_members], list(live.real.keys()))
        return None
    # the same call again on the same receiver: same outcome (the members' contents are compared by check_untouched below)
    try:
        with warnings.catch_warnings():
            warnings.simplefilter("ignore")
            res2 = apply_op(live.real, op)
        raised2 = None
    except Exception as ex:          # noqa: BLE001
        res2, raised2 = None, ex
    if (raised is None) != (raised2 is None) or (raised is None and not all(
            _val_equal(a, b) for a, b in zip(members(res), members(res2)))):
        ctx.mismatch("repeat/" + sig, case, "a repeated call on the same receiver with the same arguments gave a different outcome",
                     repr(raised) if raised is not None else [m.samples for m in members(res)],
                     repr(raised2) if raised2 is not None else [m.samples for m in members(res2)])
        return None
    ctx.facets["repeated_calls"] = ctx.facets.get("repeated_calls", 0) + 1
    if e["err"]:
        if raised is None:
            ctx.mismatch("refusal/" + sig, case, "burn-in >= number of samples must be refused; the call returned",
                         expected="an exception", observed=[m.samples.shape for m in members(res)] if res is not None else None)
            return None
        check_untouched(ctx, sig, case, live)
        _other_forms(ctx, sig, case, live, e, None, geoms, c)
        return live
    if raised is not None:
        ctx.mismatch("raises/" + sig, case, "the call raised although the specification defines a result: %r" % (raised,),
                     expected=e["post"], observed=repr(raised))
        return None
    node = graph.nodes.get((ck, okey(e["post"]), okey(e["post2"])))
    if node is None:
        from cuqiverif.core import MachineryError
        raise MachineryError("edge leads to a state without emitted node: %r" % (e,))
    ok = True
    if c["joint"]:
        if not isinstance(res, JointSamples) or sorted(res.keys()) != ["x", "y"]:
            ctx.mismatch("joint/" + sig, case, "JointSamples.burnthin must return the same members", ["x", "y"], repr(res))
            return None
        ok &= compare_object(ctx, sig + "/member=x", case, res["x"], e["post"], node, geoms[0], "stats")
        ok &= compare_object(ctx, sig + "/member=y", case, res["y"], e["post2"], node, geoms[1], "stats2")
    else:
        ok &= compare_object(ctx, sig, case, res, e["post"], node, geoms[0], "stats")
    ok &= check_untouched(ctx, sig, case, live)
    if not ok:
        return None
    if not _other_forms(ctx, sig, case, live, e, node, geoms, c):
        return None
    anc = list(live.ancestors)
    known = {id(s) for s, _ in anc}
    for m in members(res):
        if id(m) not in known:
            anc.append((m, snapshot(m)))
    return Live(res, anc, live.bases)


# ---------------------------------------------------------------------------------------------------------------
# statistics of a node
def _close(a, b, lay=REF_LAYOUT, scale=1.0):
    """double precision layouts: rtol 1e-12; single precision layouts: F32_SLACK roundings of size eps32 * scale"""
    if is_f32(lay):
        return abs(a - b) <= F32_SLACK * EPS32 * max(1.0, scale)
    return abs(a - b) <= RTOL * max(1.0, abs(b))


def check_stats(ctx, ck, c, real, node, member=None):
    o = node["obj"]
    sig0 = "%s/%s%s" % (cstr(c), ostr(o), "/member=" + member if member else "")
    case = {"kind": "node", "c": c, "obj": o}
    stats = node["stats"]
    lay = clay(c)
    ctx.facets["stats_layout_" + lay] = ctx.facets.get("stats_layout_" + lay, 0) + 1
    pos = [tuple(s["pos"]) for s in stats]
    shape = tuple(max(p[a] for p in pos) + 1 for a in range(len(pos[0])))
    with warnings.catch_warnings():
        warnings.simplefilter("ignore")
        try:
            got = {"mean": real.mean(), "median": real.median(), "variance": real.variance(), "std": real.std()}
            cis = {pm_of(ci): (real.compute_ci(level_value(pm_of(ci))), real.ci_width(level_value(pm_of(ci)))) for ci in stats[0]["ci"]}
            for ci in stats[0]["ci"]:
                ctx.facets["level/%s/%s" % (pstr(pm_of(ci)), natural_form(pm_of(ci)))] = \
                    ctx.facets.get("level/%s/%s" % (pstr(pm_of(ci)), natural_form(pm_of(ci))), 0) + 1
        except Exception as ex:      # noqa: BLE001
            ctx.mismatch("stats_raise/" + sig0, case, "a statistic of an array-valued sample set raised: %r" % (ex,))
            return
    ctx.case(("stats", ck, okey(o), member), facet="stats")
    check_views(ctx, ck, c, real, node, shape)
    for name, arr in got.items():
        if np.shape(arr) != shape:
            ctx.mismatch("stats_shape/%s/%s" % (name, sig0), case, "statistic is not per coordinate over the sample axis "
                         "(shape differs from the shape of one sample)", expected=list(shape), observed=list(np.shape(arr)))
            return
    for s in stats:
        p = tuple(s["pos"])
        exp = {"mean": float(frac(s["mean"])), "median": float(frac(s["med"])), "variance": float(frac(s["var"])),
               "std": math.sqrt(float(frac(s["var"])))}
        sc = stat_scale(s)
        for name in ("mean", "median", "variance", "std"):
            if not _close(float(got[name][p]), exp[name], lay, sc * sc if name == "variance" else sc):
                ctx.mismatch("stats/%s/%s/pos=%s" % (name, sig0, "x".join(map(str, p))), case,
                             "%s differs from the exact statistic of the stored chain" % name, exp[name], float(got[name][p]))
        for ci in s["ci"]:
            (lohi, width) = cis[pm_of(ci)]
            if np.shape(lohi) != (2,) + shape or np.shape(width) != shape:
                ctx.mismatch("stats_shape/ci/%s/pct=%s" % (sig0, pstr(pm_of(ci))), case, "credible interval bounds are not "
                             "(lower, upper) per coordinate", [2] + list(shape), list(np.shape(lohi)))
                return
            lo, hi, w = float(lohi[0][p]), float(lohi[1][p]), float(width[p])
            elo, ehi, ew = float(frac(ci["lo"])), float(frac(ci["hi"])), float(frac(ci["width"]))
            tag = "%s/pct=%s/pos=%s" % (sig0, pstr(pm_of(ci)), "x".join(map(str, p)))
            if not (_close(lo, elo, lay, sc) and _close(hi, ehi, lay, sc)):
                ctx.mismatch("stats/ci/" + tag, case, "credible interval bounds differ from the percentiles "
                             "(100-p)/2 and 100-(100-p)/2 with linear interpolation", [elo, ehi], [lo, hi])
            if not _close(w, ew, lay, sc):
                ctx.mismatch("stats/ci_width/" + tag, case, "interval width is not upper - lower bound", ew, w)
            med = float(got["median"][p])
            slack = F32_SLACK * EPS32 * sc if is_f32(lay) else 1e-9 * max(1, abs(med))
            if not (lo <= med + slack and med <= hi + slack):
                ctx.mismatch("stats/lomedhi/" + tag, case, "lower bound <= median <= upper bound fails", [elo, exp["median"], ehi],
                             [lo, med, hi])


# ---------------------------------------------------------------------------------------------------------------
# views of the stored array (Ns, shape, iteration), default / keyword forms of the interval methods, statistic plots
class _PltStub:
    """stands in for matplotlib.pyplot inside cuqi.samples._samples while a statistic plot is intercepted"""
    def __getattr__(self, name):
        return lambda *a, **k: None


@contextlib.contextmanager
def _plot_capture(geom, calls, envelopes=None):
    """geometry.plot of THIS geometry object records what it is handed; pyplot of the samples module is a stub"""
    from cuqiverif.core import MachineryError
    import cuqi.samples._samples as S
    if not hasattr(S, "plt") or not callable(getattr(type(geom), "plot", None)):
        raise MachineryError("interception points of the statistic plots disappeared (cuqi.samples._samples.plt / Geometry.plot)")

    def rec(values, *a, **k):
        calls.append((np.array(values, dtype=float, copy=True), a, dict(k)))
        return ["plotted"]

    def rec_env(*a, **k):
        if envelopes is not None:
            envelopes.append((a, dict(k)))
        return ["envelope"]
    old = S.plt
    S.plt = _PltStub()
    geom.plot = rec                         # instance attribute shadows the method for the duration of the call
    if envelopes is not None:
        if not callable(getattr(type(geom), "plot_envelope", None)):
            raise MachineryError("interception point of plot_ci disappeared (Geometry.plot_envelope)")
        geom.plot_envelope = rec_env
    try:
        yield
    finally:
        del geom.plot
        if envelopes is not None:
            del geom.plot_envelope
        S.plt = old


def check_views(ctx, ck, c, real, node, shape):
    """Ns, shape, iteration order; compute_ci / ci_width with percent by keyword and omitted (documented default 95);
    plot_mean / plot_median / plot_variance / plot_std / plot_ci_width hand the exact statistic (as function values when the
    samples are function values in vector form) and is_par of the object to geometry.plot."""
    o = node["obj"]
    if "ns" not in node:
        return
    sig0 = "%s/%s" % (cstr(c), ostr(o))
    case = {"kind": "node", "c": c, "obj": o}
    stats = node["stats"]
    lay = clay(c)
    n = len(o["cols"])
    exp = expected_array(stats, n)
    ctx.case(("views", ck, okey(o)), facet="views")
    try:
        got = {"Ns": real.Ns, "shape": list(real.shape)}
    except Exception as ex:      # noqa: BLE001
        got = {"raised": repr(ex)}
    if got != {"Ns": node["ns"], "shape": list(node["shape"])}:
        ctx.mismatch("views/shape/" + sig0, case, "Ns / shape are not the number of stored samples / the shape of one sample followed by Ns",
                     {"Ns": node["ns"], "shape": list(node["shape"])}, got)
    try:
        items = [np.array(x, dtype=float) for x in real]
    except Exception as ex:      # noqa: BLE001
        items = repr(ex)
    if isinstance(items, str) or len(items) != n or any(x.shape != exp.shape[:-1] or not np.array_equal(x, exp[..., i]) for i, x in enumerate(items)):
        ctx.mismatch("views/iter/" + sig0, case, "iterating the sample set does not yield the stored samples in order",
                     [exp[..., i] for i in range(n)], items)
    # --- FlagsLegal at the constructor / the is_vec setter: (is_par, not is_vec) does not exist (refused or corrected)
    if o["par"]:
        from cuqi.samples import Samples
        for how in ("constructor", "setter"):
            try:
                if how == "constructor":
                    s2 = Samples(np.array(real.samples, copy=True), geometry=real.geometry, is_par=True, is_vec=False)
                else:
                    s2 = Samples(np.array(real.samples, copy=True), geometry=real.geometry, is_par=True, is_vec=True)
                    s2.is_vec = False
            except Exception:        # noqa: BLE001  (a refusal; the type is not asserted)
                continue
            if bool(s2.is_par) and not bool(s2.is_vec):
                ctx.mismatch("flags/illegal/%s/%s" % (how, sig0), case, "a sample set of parameters that is not in vector form "
                             "was created (FlagsLegal: is_par => is_vec)", [True, True], [s2.is_par, s2.is_vec])
    # --- percent by keyword / omitted
    with warnings.catch_warnings():
        warnings.simplefilter("ignore")
        _LEVEL_COUNTER[0] += 1
        for k0, ci0 in enumerate(stats[0]["ci"]):
            pm = pm_of(ci0)
            # by keyword, in a number type other than the one of the positional call (rotating over the number types the
            # spec lists for the level: the percentile rule takes the VALUE of the level)
            r_ = _LEVEL_COUNTER[0] + k0
            nt = rotated_form(ci0, r_ // 2)
            pv = level_value(pm, nt)
            # (with more than three levels the two methods alternate from level to level and from object to object)
            if len(stats[0]["ci"]) <= 3:
                forms = [("kw", nt, lambda pv=pv: (real.compute_ci(percent=pv), real.ci_width(percent=pv)))]
            elif r_ % 2 == 0:
                forms = [("kw", nt, lambda pv=pv: (real.compute_ci(percent=pv), None))]
            else:
                forms = [("kw", nt, lambda pv=pv: (None, real.ci_width(percent=pv)))]
            if pm == node.get("default_pm", 10 * node.get("default_pct", -1)):
                forms.append(("default", None, lambda: (real.compute_ci(), real.ci_width())))
            for form, nt, fn in forms:
                ctx.facets["call_form_percent_" + form] = ctx.facets.get("call_form_percent_" + form, 0) + 1
                if nt is not None:
                    ctx.facets["level/%s/%s" % (pstr(pm), nt)] = ctx.facets.get("level/%s/%s" % (pstr(pm), nt), 0) + 1
                tag = "%s/pct=%s/form=%s%s" % (sig0, pstr(pm), form, "" if nt in (None, natural_form(pm)) else "/type=" + nt)
                # a level held in single precision: the percentile position carries its rounding (as for single precision chains)
                lay_ = "f32" if nt == "npfloat32" and not is_f32(lay) else lay
                try:
                    lohi, width = fn()
                    lohi = None if lohi is None else np.asarray(lohi, dtype=float)
                    width = None if width is None else np.asarray(width, dtype=float)
                except Exception as ex:      # noqa: BLE001
                    ctx.mismatch("stats_raise/ci/" + tag, case, "compute_ci / ci_width raised: %r" % (ex,))
                    continue
                if (lohi is not None and lohi.shape != (2,) + shape) or (width is not None and width.shape != shape):
                    ctx.mismatch("stats_shape/ci/" + tag, case, "credible interval bounds are not (lower, upper) per coordinate",
                                 [2] + list(shape), list((lohi if lohi is not None else width).shape))
                    continue
                for s in stats:
                    q = tuple(s["pos"])
                    ci = [x for x in s["ci"] if pm_of(x) == pm][0]
                    elo, ehi, ew = float(frac(ci["lo"])), float(frac(ci["hi"])), float(frac(ci["width"]))
                    sc = stat_scale(s)
                    if lohi is not None and not (_close(float(lohi[0][q]), elo, lay_, sc) and _close(float(lohi[1][q]), ehi, lay_, sc)):
                        ctx.mismatch("stats/ci/%s/pos=%s" % (tag, "x".join(map(str, q))), case, "credible interval bounds differ from the "
                                     "percentiles (100-p)/2 and 100-(100-p)/2 (percent %s)" % (
                                         "omitted: documented default 95" if form == "default" else "= %r by keyword" % (pv,)),
                                     [elo, ehi], [float(lohi[0][q]), float(lohi[1][q])])
                    if width is not None and not _close(float(width[q]), ew, lay_, sc):
                        ctx.mismatch("stats/ci_width/%s/pos=%s" % (tag, "x".join(map(str, q))), case, "interval width is not upper - lower bound",
                                     ew, float(width[q]))
    # --- statistic plots
    pstats = node["plot"]["stats"] or stats
    ppos = [tuple(s["pos"]) for s in pstats]
    pshape = tuple(max(q[a] for q in ppos) + 1 for a in range(len(ppos[0])))

    def arr(fn):
        A = np.empty(pshape)
        for s in pstats:
            A[tuple(s["pos"])] = fn(s)
        return A
    psc = max(stat_scale(s) for s in pstats)
    patol = {True: F32_SLACK * EPS32 * psc * psc, False: F32_SLACK * EPS32 * psc} if is_f32(lay) else {True: 0.0, False: 0.0}
    plots = [("plot_mean", (), arr(lambda s: float(frac(s["mean"]))), "", None), ("plot_median", (), arr(lambda s: float(frac(s["med"]))), "", None),
             ("plot_variance", (), arr(lambda s: float(frac(s["var"]))), "", None),
             ("plot_std", (), arr(lambda s: math.sqrt(float(frac(s["var"])))), "", None)]
    for k, ci0 in enumerate(pstats[0]["ci"]):
        # the level positionally, in a number type that rotates over all those the spec lists for it (with more than three
        # levels: every second level, alternating from object to object)
        r_ = _LEVEL_COUNTER[0] + k
        if len(pstats[0]["ci"]) > 3 and r_ % 2:
            continue
        nt = level_forms(ci0)[(r_ // 2) % len(level_forms(ci0))]
        ctx.facets["level/%s/%s" % (pstr(pm_of(ci0)), nt)] = ctx.facets.get("level/%s/%s" % (pstr(pm_of(ci0)), nt), 0) + 1
        plots.append(("plot_ci_width", (level_value(pm_of(ci0), nt),), arr(lambda s, k=k: float(frac(s["ci"][k]["width"]))),
                      "/pct=%s%s" % (pstr(pm_of(ci0)), "" if nt == natural_form(pm_of(ci0)) else "/type=" + nt), nt))
    for name, args, want, ptag, nt in plots:
        tag = "%s/%s%s" % (name, sig0, ptag)
        calls = []
        ctx.facets["statistic_plots"] = ctx.facets.get("statistic_plots", 0) + 1
        try:
            with warnings.catch_warnings(), contextlib.redirect_stdout(io.StringIO()), _plot_capture(real.geometry, calls):
                warnings.simplefilter("ignore")
                getattr(real, name)(*args)
        except Exception as ex:      # noqa: BLE001
            from cuqiverif.core import MachineryError
            if isinstance(ex, MachineryError):
                raise
            ctx.mismatch("plot_raise/" + tag, case, "a statistic plot of an array-valued sample set raised: %r" % (ex,))
            continue
        if not calls:
            ctx.mismatch("plot_handover/" + tag, case, "the statistic plot did not hand anything to geometry.plot", want, None)
            continue
        vals, _a, kw = calls[0]
        atol = patol[name == "plot_variance"]
        if nt == "npfloat32" and not is_f32(lay):
            atol = F32_SLACK * EPS32 * psc
        if name == "plot_ci_width":          # a difference of two bounds of the magnitude of the stored values (small levels: tiny)
            atol = max(atol, RTOL * psc)
        if vals.shape != want.shape or not np.allclose(vals, want, rtol=RTOL, atol=atol):
            ctx.mismatch("plot_handover/" + tag, case, "the values handed to geometry.plot are not the exact statistic of the stored chain "
                         "(as function values for function samples in vector form)", want, vals)
        elif bool(kw.get("is_par", True)) != bool(node["plot"]["is_par"]):
            ctx.mismatch("plot_handover/%s/is_par" % tag, case, "geometry.plot is told the wrong representation of the statistic",
                         node["plot"]["is_par"], kw.get("is_par", "omitted (True)"))
    # --- plot_ci(p) of PARAMETER samples: whatever is handed to geometry.plot_envelope is the pair (lower, upper) of exact bounds of
    # level p, whatever is handed to geometry.plot as parameter values is the exact mean, lower bound, upper bound or width.  How
    # the figure is composed (which of them, in which order, on which axes) is not asserted; function samples: not asserted
    # (bounds of vector-form function samples are handed over unconverted - undocumented).
    if o["par"]:
        mean = arr(lambda s: float(frac(s["mean"])))
        for k, ci0 in enumerate(stats[0]["ci"]):
            pm = pm_of(ci0)
            r_ = _LEVEL_COUNTER[0] + k
            if len(stats[0]["ci"]) > 3 and r_ % 4 != 1:      # every fourth level, rotating from object to object
                continue
            nt = level_forms(ci0)[(r_ // 4) % len(level_forms(ci0))]
            ctx.facets["level/%s/%s" % (pstr(pm), nt)] = ctx.facets.get("level/%s/%s" % (pstr(pm), nt), 0) + 1
            tag = "plot_ci/%s/pct=%s%s" % (sig0, pstr(pm), "" if nt == natural_form(pm) else "/type=" + nt)
            lo, hi = arr(lambda s, k=k: float(frac(s["ci"][k]["lo"]))), arr(lambda s, k=k: float(frac(s["ci"][k]["hi"])))
            wd = arr(lambda s, k=k: float(frac(s["ci"][k]["width"])))
            atol = F32_SLACK * EPS32 * psc if (is_f32(lay) or nt == "npfloat32") else RTOL * psc
            calls, envs = [], []
            try:
                with warnings.catch_warnings(), contextlib.redirect_stdout(io.StringIO()), _plot_capture(real.geometry, calls, envs):
                    warnings.simplefilter("ignore")
                    real.plot_ci(level_value(pm, nt))
            except Exception as ex:      # noqa: BLE001
                from cuqiverif.core import MachineryError
                if isinstance(ex, MachineryError):
                    raise
                ctx.observations.setdefault("plot_ci_raised", {}).setdefault(c["g"], repr(ex))
                continue
            ctx.facets["plot_ci_calls"] = ctx.facets.get("plot_ci_calls", 0) + 1

            def same(a, b):
                try:
                    a = np.asarray(a, dtype=float)
                except Exception:        # noqa: BLE001
                    return False
                return a.shape == b.shape and np.allclose(a, b, rtol=RTOL, atol=atol)
            judged = 0
            for a_, kw_ in envs:
                if not kw_.get("is_par", True):
                    continue
                pair = list(a_[:2]) if len(a_) >= 2 else [kw_.get("lo_values"), kw_.get("hi_values")]
                if pair[0] is None or pair[1] is None:
                    continue
                judged += 1
                if not (same(pair[0], lo) and same(pair[1], hi)):
                    ctx.mismatch("plot_handover/%s/envelope" % tag, case, "the envelope handed to geometry.plot_envelope by plot_ci(p) is not "
                                 "(lower, upper) = the percentiles (100-p)/2 and 100-(100-p)/2 of the stored chain", [lo, hi],
                                 [np.asarray(pair[0], dtype=float), np.asarray(pair[1], dtype=float)])
                    break
            else:
                for vals, _a, kw_ in calls:
                    if not kw_.get("is_par", True) or vals.shape != mean.shape:
                        continue
                    judged += 1
                    if not any(same(vals, w_) for w_ in (mean, lo, hi, wd)):
                        ctx.mismatch("plot_handover/%s/values" % tag, case, "parameter values handed to geometry.plot by plot_ci(p) are neither the "
                                     "mean nor the lower bound, upper bound or width of the interval of level p",
                                     {"mean": mean, "lo": lo, "hi": hi, "width": wd}, vals)
                        break
            if judged:
                ctx.facets["plot_ci_judged"] = ctx.facets.get("plot_ci_judged", 0) + 1
            if envs:
                ctx.facets["plot_ci_envelopes"] = ctx.facets.get("plot_ci_envelopes", 0) + 1


# ---------------------------------------------------------------------------------------------------------------
# arviz hand-over
class _ArvizProxy:
    def __init__(self, real, log):
        self._real, self._log = real, log

    def __getattr__(self, name):
        return getattr(self._real, name)

    def ess(self, data, **kw):
        out = self._real.ess(data, **kw)
        self._log.append(("ess", data, kw, out))
        return out

    def rhat(self, data, **kw):
        out = self._real.rhat(data, **kw)
        self._log.append(("rhat", data, kw, out))
        return out


@contextlib.contextmanager
def intercept_arviz(log):
    from cuqiverif.core import MachineryError
    import cuqi.samples._samples as sm
    real = getattr(sm, "arviz", None)
    if real is None or not hasattr(real, "ess") or not hasattr(real, "rhat"):
        raise MachineryError("cuqi.samples._samples.arviz (module with ess/rhat) not found: interception point disappeared")
    sm.arviz = _ArvizProxy(real, log)
    try:
        yield
    finally:
        sm.arviz = real


def _name(digits):
    return "v" + "".join(str(d) for d in digits)


def check_arviz(ctx, ck, c, real, node, geom):
    from cuqiverif.core import MachineryError
    from cuqi.samples import Samples
    az = node["arviz"]
    o = node["obj"]
    if not az["defined"] or len(o["cols"]) < 4:
        return
    sig0 = "%s/%s" % (cstr(c), ostr(o))
    case = {"kind": "node", "c": c, "obj": o}
    stats = node["stats"]
    names = [_name(h["name"]) for h in az["handover"]]
    lay = clay(c)
    den = [float(stats[h["row"]].get("den", 1)) for h in az["handover"]]
    rows = [np.array(stats[h["row"]]["vals"], dtype=float) / den[i] for i, h in enumerate(az["handover"])]
    ret = az["returned"]
    d = len(names)

    def run(kind, call, exp_rows):
        log = []
        with intercept_arviz(log), warnings.catch_warnings():
            warnings.simplefilter("ignore")
            try:
                val = call()
            except Exception as ex:   # noqa: BLE001
                ctx.mismatch("arviz_raise/%s/%s" % (kind, sig0), case, "%s raised for vector-form samples: %r" % (kind, ex))
                return
        calls = [l for l in log if l[0] == kind]
        if len(calls) != 1:
            raise MachineryError("compute_%s did not call arviz.%s exactly once (%d calls): interception point moved"
                                 % (kind, kind, len(calls)))
        _, data, kw, out = calls[0]
        if not hasattr(data, "keys"):
            raise MachineryError("compute_%s hands %r to arviz (expected a mapping name -> chain)" % (kind, type(data)))
        ctx.case(("arviz", kind, ck, okey(o), tuple(sorted(kw.items()))), facet="arviz_" + kind)
        keys = [str(k) for k in data.keys()]
        if sorted(keys) != sorted(names):
            ctx.mismatch("arviz_names/%s/%s" % (kind, sig0), case, "variable names handed to arviz differ", names, keys)
            return
        bykey = {str(k): np.asarray(v, dtype=float) for k, v in data.items()}
        for i, nm in enumerate(names):
            if bykey[nm].shape != exp_rows[i].shape or not np.array_equal(bykey[nm], exp_rows[i]):
                ctx.mismatch("arviz_handover/%s/%s/var=%d" % (kind, sig0, i), case,
                             "variable %d (%s) is handed to arviz with a chain that is not row %d of the samples" % (i, nm, i),
                             exp_rows[i], bykey[nm])
                return
        val = np.asarray(val, dtype=float).ravel()
        if val.shape != (d,):
            ctx.mismatch("arviz_result_shape/%s/%s" % (kind, sig0), case, "one value per variable expected", d, list(val.shape))
            return
        ref = np.array([float(np.asarray(out[nm])) for nm in names])
        for k in range(d):
            a, b = val[k], ref[ret[k]]
            if not ((np.isnan(a) and np.isnan(b)) or a == b):
                ctx.mismatch("arviz_order/%s/%s/pos=%d" % (kind, sig0, k), case,
                             "position %d of the returned array is not the value arviz computed for variable %d (%s)"
                             % (k, ret[k], names[ret[k]]), float(b), float(a))
                return
        ctx.facets["arviz_%s_distinct_values" % kind] = max(ctx.facets.get("arviz_%s_distinct_values" % kind, 0),
                                                            len(set(np.round(ref[~np.isnan(ref)], 9))))

    run("ess", lambda: real.compute_ess(), rows)
    run("ess", lambda: real.compute_ess(method="mean"), rows)
    nch = len(stats[0]["chains"])
    if nch:
        from cuqiverif.c19_trace import in_layout, representable
        chains = []
        for j in range(nch):
            A = np.array([np.array(stats[h["row"]]["chains"][j], dtype=float) / den[i] for i, h in enumerate(az["handover"])], dtype=float)
            # the other chains in the layout of the source (function values that are not integers: reference layout)
            chains.append(Samples(in_layout(A, lay if representable(A, lay) else REF_LAYOUT), geometry=geom, is_par=o["par"], is_vec=o["vec"]))
        exp = [np.vstack([rows[i]] + [np.array(stats[az["handover"][i]["row"]]["chains"][j], dtype=float) / den[i] for j in range(nch)])
               for i in range(d)]
        run("rhat", lambda: real.compute_rhat(chains), exp)


# ---------------------------------------------------------------------------------------------------------------
def build_source(graph, ck):
    from cuqi.samples import Samples, JointSamples
    from cuqiverif.c19_trace import in_layout
    g, N, joint, lay = ck
    sk = graph.init_key(ck)
    node = graph.nodes.get((ck,) + sk)
    if node is None:
        from cuqiverif.core import MachineryError
        raise MachineryError("no node emitted for the initial state of %r" % (ck,))
    G1 = make_geometry(g)
    # the SAME exact values in every layout of the source array
    x = Samples(in_layout(expected_array(node["stats"], N), lay), geometry=G1)
    bases = [(x.samples.base, np.array(x.samples.base, copy=True))] if isinstance(x.samples.base, np.ndarray) else []
    if not joint:
        return Live(x, [(x, snapshot(x))], bases), [G1, None], sk
    G2 = make_geometry("imgF")
    y = Samples(in_layout(expected_array(node["stats2"], N + 1), lay), geometry=G2, is_par=False, is_vec=False)
    if isinstance(y.samples.base, np.ndarray):
        bases.append((y.samples.base, np.array(y.samples.base, copy=True)))
    js = JointSamples({"x": x, "y": y})
    return Live(js, [(x, snapshot(x)), (y, snapshot(y))], bases), [G1, G2], sk


def replay_config(ctx, graph, ck, n_walks, rng):
    c = graph.configs[ck]
    live0, geoms, sk0 = build_source(graph, ck)
    rep = {sk0: (live0, [])}
    queue = [sk0]
    n_edges = 0
    while queue:
        sk = queue.pop(0)
        live, ops = rep[sk]
        node = graph.nodes[(ck,) + sk]
        if not c["joint"]:
            check_stats(ctx, ck, c, live.real, node)
            check_arviz(ctx, ck, c, live.real, node, geoms[0])
        else:
            # statistics of every member of the joint set (y: multi-dimensional function values held in the source's layout)
            check_stats(ctx, ck, c, live.real["x"], {"obj": node["obj"], "stats": node["stats"]}, member="x")
            if node["stats2"]:
                check_stats(ctx, ck, c, live.real["y"], {"obj": node["obj2"], "stats": node["stats2"]}, member="y")
        for e in graph.out_edges(ck, sk):
            n_edges += 1
            new = step(ctx, graph, ck, geoms, live, e, ops)
            pk = (okey(e["post"]), okey(e["post2"]))
            if new is not None and pk not in rep and not e["err"]:
                rep[pk] = (new, ops + [e["op"]])
                queue.append(pk)
    missing = [k for (cc, a, b) in graph.nodes if cc == ck for k in [(a, b)] if k not in rep]
    if missing and not ctx.violations:
        from cuqiverif.core import MachineryError
        raise MachineryError("states of %r emitted by TLC were not reached by the replay: %r" % (ck, missing[:3]))
    # seeded random chains of three operations, every object produced by the previous real call
    walks = 0
    for _ in range(n_walks):
        live, sk, ops = live0, sk0, []
        for _depth in range(3):
            out = graph.out_edges(ck, sk)
            if not out:
                break
            e = out[rng.randrange(len(out))]
            new = step(ctx, graph, ck, geoms, live, e, ops)
            if new is None:
                break
            ops = ops + [e["op"]]
            if not e["err"]:
                live, sk = new, (okey(e["post"]), okey(e["post2"]))
        walks += 1
    return n_edges, walks


def run_deviations(ctx):
    import os
    from concurrent.futures import ThreadPoolExecutor
    from cuqiverif.core import MachineryError
    from cuqiverif import tlc as _t

    def one(dev):                # runs of the same module started together need their own work directories
        return ctx.tlc("SamplesOps", cfg="SamplesOps.dev_%s.cfg" % dev, workers=2, timeout=300, expect_violation=True,
                       workdir=os.path.join(_t.WORK, "SamplesOps-dev_%s-%d" % (dev, os.getpid())))
    with ThreadPoolExecutor(max_workers=4) as pool:
        results = list(pool.map(one, [dev for dev, _ in DEVIATIONS]))
    for (dev, inv), res in zip(DEVIATIONS, results):
        if res.ok or res.violated != inv:
            raise MachineryError("deviation %s must violate %s on the specification (vacuity test), got %r" % (dev, inv, res.violated))
        ctx.observations.setdefault("deviations_violating", {})[dev] = inv
        _t.cleanup(res)


# ---------------------------------------------------------------------------------------------------------------
# FRAME MACHINE of SamplesOps.tla (FInit / FNext): every operation is a function of <<receiver, arguments>> and alters
# neither.  TLC emits the graph over <<heap of objects, the caller's list of chains>>; the harness keeps ONE real heap
# and ONE real Python list per walk and, around every real call, takes a deep fingerprint of every live object and of
# every argument (the list: length and element identities in order; index array: values) - independent of the spec -
# and compares the result of every call (first, immediately repeated, repeated after all other operations) with the
# value the spec determines for the state.
FRAME_OPS = ("stat", "ess", "toarviz", "rhat", "burnthin", "conv", "thinlist", "swaplist")


def fokey(o):
    return (int(o["ch"]), tuple(o["cols"]), bool(o["par"]), bool(o["vec"]), o["geom"])


def fckey(c):
    return (c["g"], int(c["N"]), int(c["lst"]), clay(c))


def fskey(fo, fl):
    return (tuple(fokey(o) for o in fo), tuple(int(i) for i in fl))


def fopkey(op):
    return (op["name"], int(op["r"]), int(op["b"]), int(op["t"]), op["arg"])


def rows_array(rows):
    """exact array of an object from the spec's rows [pos, vals]"""
    return expected_array(rows, len(rows[0]["vals"]))


class FrameGraph:
    def __init__(self, cases):
        self.configs, self.nodes, self.edges, self.rows, self.stats, self.init = {}, {}, {}, {}, {}, {}
        for k in cases:
            if k["kind"] == "fnode":
                ck = fckey(k["c"])
                self.configs.setdefault(ck, k["c"])
                self.nodes[(ck, fskey(k["fo"], k["fl"]))] = k
                if k["init"]:
                    self.init[ck] = fskey(k["fo"], k["fl"])
                for o, r in zip(k["fo"], k["rows"]):
                    self.rows.setdefault(fokey(o), r)
                self.stats.setdefault(fokey(k["fo"][k["statsof"] - 1]), k["stats"])
            elif k["kind"] == "fedge":
                ck = fckey(k["c"])
                self.edges.setdefault(ck, {}).setdefault(fskey(k["pre"]["fo"], k["pre"]["fl"]), {})[fopkey(k["op"])] = k
                res = k["res"]
                if k["op"]["name"] in ("burnthin", "conv"):
                    self.rows.setdefault(fokey(res["new"]), res["rows"])
                elif k["op"]["name"] == "thinlist":
                    for o, r in zip(res["new"], res["rows"]):
                        self.rows.setdefault(fokey(o), r)

    def init_key(self, ck):
        if ck not in self.init:
            from cuqiverif.core import MachineryError
            raise MachineryError("no initial state emitted for frame configuration %r" % (ck,))
        return self.init[ck]

    def out_edges(self, ck, sk):
        d = self.edges.get(ck, {}).get(sk, {})
        return [d[k] for k in sorted(d)]

    @staticmethod
    def post_key(sk, e):
        return (sk[0] + tuple(fokey(o) for o in e["post"]["app"]), tuple(int(i) for i in e["post"]["fl"]))


def fcstr(c):
    return "g=%s/N=%d/lst=%s%s" % (c["g"], c["N"], c["lst"], "" if clay(c) == REF_LAYOUT else "/lay=" + clay(c))


def fopname(op):
    return op["arg"] if op["name"] == "conv" else op["name"]


def fsite(sk, op):
    """call site: the list as it is, the receiver's abstract object, the arguments"""
    lst = "list=%d" % len(sk[1])
    if op["name"] == "thinlist":
        return "%s/b=%d/t=%d" % (lst, op["b"], op["t"])
    if op["name"] == "swaplist":
        return lst
    ch, cols, par, vec, _ = sk[0][op["r"] - 1]
    recv = "recv=n%dp%dv%d" % (len(cols), par, vec)
    if op["name"] == "burnthin":
        return "%s/%s/b=%d/t=%d" % (lst, recv, op["b"], op["t"])
    if op["name"] == "rhat":
        return "%s/%s/mode=%s" % (lst, recv, op["arg"])
    if op["name"] == "toarviz":
        return "%s/%s/sel=%s" % (lst, recv, op["arg"])
    return "%s/%s" % (lst, recv)


class World:
    """the real objects of one walk: heap (position = identity in the spec), the caller's list, the index argument"""

    def __init__(self, graph, ck):
        from cuqi.samples import Samples
        from cuqiverif.c19_trace import in_layout
        self.geom = make_geometry(ck[0])
        self.lay = ck[3]
        self.sk = graph.init_key(ck)
        # the stored chains of the configuration ("self" and the caller's chains) hold the spec's exact values in the layout
        self.heap = [Samples(in_layout(rows_array(graph.rows[ok]), self.lay), geometry=self.geom) for ok in self.sk[0]]
        self.bases = [(h.samples.base, np.array(h.samples.base, copy=True)) for h in self.heap if isinstance(h.samples.base, np.ndarray)]
        self.lst = [self.heap[i - 1] for i in self.sk[1]]
        self.idx = np.array([2, 0])             # FIdx of the spec
        self.ops = []
        self.results, self.counts = {}, {}      # last result / number of calls per action (same receiver, same arguments)

    def ncall(self, op):
        return self.counts.get(fopkey(op), 0)

    def fingerprint(self):
        return {"heap": [snapshot(s) for s in self.heap], "list": [id(x) for x in self.lst],
                "list_obj": list(self.lst), "idx": np.array(self.idx, copy=True)}

    def oid(self, obj):
        for i, h in enumerate(self.heap):
            if h is obj:
                return i + 1
        return 0


def _same_snapshot(s, snap):
    arr, par, vec, geom = snap
    return (isinstance(s.samples, np.ndarray) and s.samples.shape == arr.shape and np.array_equal(s.samples, arr, equal_nan=True)
            and bool(s.is_par) == par and bool(s.is_vec) == vec and s.geometry is geom)


def frame_diff(world, before, op, caller_list_change=False):
    """what a call altered: list of (site, expected, observed); spec independent"""
    out = []
    r = op["r"]
    in_list = {id(x) for x in before["list_obj"]}
    for i, (s, snap) in enumerate(zip(world.heap, before["heap"])):
        if not _same_snapshot(s, snap):
            where = "receiver" if i + 1 == r else ("arg_chain=%d" % [id(x) for x in before["list_obj"]].index(id(s)) if id(s) in in_list
                                                   else "other=%d" % (i + 1))
            out.append((where, {"samples": snap[0], "is_par": snap[1], "is_vec": snap[2]},
                        {"samples": s.samples, "is_par": s.is_par, "is_vec": s.is_vec}))
    if not caller_list_change and [id(x) for x in world.lst] != before["list"]:
        out.append(("arg_list", {"len": len(before["list"]), "ids": [world.oid(x) for x in before["list_obj"]]},
                    {"len": len(world.lst), "ids": [world.oid(x) if hasattr(x, "samples") else repr(x) for x in world.lst]}))
    if not (isinstance(world.idx, np.ndarray) and world.idx.shape == before["idx"].shape and np.array_equal(world.idx, before["idx"])):
        out.append(("arg_idx", before["idx"], world.idx))
    for big, cp in world.bases:
        if not np.array_equal(big, cp):
            out.append(("base", cp, big))
    return out


def _val_equal(a, b):
    """results of two calls: same values (types are not compared)"""
    if hasattr(a, "samples") and hasattr(b, "samples"):
        return (_val_equal(a.samples, b.samples) and bool(a.is_par) == bool(b.is_par) and bool(a.is_vec) == bool(b.is_vec)
                and (a.geometry is b.geometry or a.geometry == b.geometry))
    if isinstance(a, dict) and isinstance(b, dict):
        return sorted(map(str, a)) == sorted(map(str, b)) and all(_val_equal(a[k], b[k]) for k in a)
    if isinstance(a, (list, tuple)) and isinstance(b, (list, tuple)):
        return len(a) == len(b) and all(_val_equal(x, y) for x, y in zip(a, b))
    if isinstance(a, Exception) or isinstance(b, Exception):
        return isinstance(a, Exception) and isinstance(b, Exception)
    try:
        A, B = np.asarray(a, dtype=float), np.asarray(b, dtype=float)
    except Exception:       # noqa: BLE001
        return True
    return A.shape == B.shape and np.array_equal(A, B, equal_nan=True)


_REF = {}


def _arviz_ref(kind, arrays, lay=REF_LAYOUT):
    """reference: arviz applied directly to the spec's arrays (chains stacked in the spec's order), one variable at a time;
    arrays that are representable in the number type of the layout are handed to arviz in that number type"""
    import arviz
    from cuqiverif.c19_trace import LAYOUT_DTYPE, representable
    if lay != REF_LAYOUT and all(representable(a, lay) for a in arrays):
        arrays = [np.ascontiguousarray(a, dtype=LAYOUT_DTYPE[lay]) for a in arrays]
    key = (kind, str(arrays[0].dtype), tuple(a.tobytes() for a in arrays), arrays[0].shape)
    if key not in _REF:
        d = arrays[0].shape[0]
        with warnings.catch_warnings():
            warnings.simplefilter("ignore")
            fn = arviz.ess if kind == "ess" else arviz.rhat
            _REF[key] = np.array([float(fn(np.stack([a[i] for a in arrays]))) for i in range(d)])
    return _REF[key]


def _num_close(a, b, lay=REF_LAYOUT, scale=1.0):
    a, b = np.asarray(a, dtype=float).ravel(), np.asarray(b, dtype=float).ravel()
    if a.shape != b.shape:
        return False
    tol = F32_SLACK * EPS32 * max(1.0, scale) if is_f32(lay) else RTOL * np.maximum(1.0, np.abs(b))
    return bool(np.all((np.isnan(a) & np.isnan(b)) | (np.abs(a - b) <= tol)))


def frame_call(world, op, pcts):
    """the real call(s) of one action; returns the result or the exception"""
    name = op["name"]
    import logging
    logging.getLogger("arviz").setLevel(logging.ERROR)       # "Shape validation failed" for chains arviz refuses: not asserted
    try:
        with warnings.catch_warnings():
            warnings.simplefilter("ignore")
            if name == "thinlist":
                out = []
                for k in range(len(world.lst)):
                    world.lst[k] = world.lst[k].burnthin(op["b"], op["t"])
                    out.append(world.lst[k])
                return out
            if name == "swaplist":
                return None
            real = world.heap[op["r"] - 1]
            if name == "stat":
                out = {"mean": real.mean(), "median": real.median(), "variance": real.variance(), "std": real.std()}
                for k_, (p_, forms_) in enumerate(pcts):
                    # the level in a number type that rotates with the number of calls of the walk (LevelForms of the spec)
                    nt = forms_[(len(world.ops) + k_) % len(forms_)]
                    out["ci/%s" % pstr(p_)] = real.compute_ci(level_value(p_, nt))
                    out["ci_width/%s" % pstr(p_)] = real.ci_width(level_value(p_, nt))
                    out["type/%s" % pstr(p_)] = nt
                return out
            if name == "ess":
                return real.compute_ess()
            if name == "toarviz":
                return real.to_arviz_inferencedata(None if op["arg"] == "all" else world.idx)
            if name == "rhat":
                return real.compute_rhat(world.lst if op["arg"] == "list" else world.lst[0])
            if name == "burnthin":
                return real.burnthin(op["b"], op["t"])
            if name == "conv":
                return getattr(real, op["arg"])
    except Exception as ex:          # noqa: BLE001  (exception types are not asserted)
        return ex
    from cuqiverif.core import MachineryError
    raise MachineryError("unknown frame action %r emitted by the spec" % name)


def frame_compare(ctx, graph, world, e, got, tag, case):
    """the value of one call against the value the spec determines; returns False after a mismatch"""
    op, res = e["op"], e["res"]
    name = op["name"]
    failed = isinstance(got, Exception)

    def stored(sig, real, ab, rows):
        exp = rows_array(rows)
        if bool(real.is_par) != ab["par"] or bool(real.is_vec) != ab["vec"]:
            ctx.mismatch("flags/" + sig, case, "representation flags (is_par, is_vec) differ from the specification",
                         [ab["par"], ab["vec"]], [real.is_par, real.is_vec])
            return False
        if not (real.geometry is world.geom or real.geometry == world.geom):
            ctx.mismatch("geometry/" + sig, case, "geometry of the result is not the geometry of the source", repr(world.geom), repr(real.geometry))
            return False
        a = real.samples
        if not isinstance(a, np.ndarray) or a.shape != exp.shape or not np.array_equal(np.asarray(a, dtype=float), exp):
            ctx.mismatch("indices/" + sig, case, "stored samples of the result are not the columns the specification selects",
                         {"cols": ab["cols"], "array": exp}, a)
            return False
        return True

    if name == "stat":
        if failed:
            ctx.mismatch("stats_raise/" + tag, case, "a statistic of an array-valued sample set raised: %r" % (got,))
            return False
        ok = True
        stats = graph.stats.get(fokey(res["obj"]))
        if stats is None:
            from cuqiverif.core import MachineryError
            raise MachineryError("no statistics emitted for object %r" % (res["obj"],))
        for s in stats:
            p = tuple(s["pos"])
            sc = stat_scale(s)
            exp = {"mean": float(frac(s["mean"])), "median": float(frac(s["med"])), "variance": float(frac(s["var"])),
                   "std": math.sqrt(float(frac(s["var"])))}
            for ci in s["ci"]:
                exp["ci/%s" % pstr(pm_of(ci))] = [float(frac(ci["lo"])), float(frac(ci["hi"]))]
                exp["ci_width/%s" % pstr(pm_of(ci))] = float(frac(ci["width"]))
            for nm, ex_ in exp.items():
                # a level handed over in single precision: tolerance of the single precision layouts
                lay_ = "f32" if got.get("type/" + nm.split("/")[-1]) == "npfloat32" and not is_f32(world.lay) else world.lay
                arr = np.asarray(got[nm], dtype=float)
                try:
                    val = [float(arr[0][p]), float(arr[1][p])] if nm.startswith("ci/") else float(arr[p])
                except Exception:       # noqa: BLE001
                    ctx.mismatch("stats_shape/%s/%s" % (nm, tag), case, "statistic is not per coordinate over the sample axis",
                                 list(p), list(arr.shape))
                    return False
                if not _num_close(val, ex_, lay_, sc * sc if nm == "variance" else sc):
                    ctx.mismatch("stats/%s/%s/pos=%s" % (nm, tag, "x".join(map(str, p))), case,
                                 "%s differs from the exact statistic of the stored chain" % nm, ex_, val)
                    ok = False
        return ok
    if name == "ess":
        if not res["defined"]:
            return True
        if failed:
            ctx.mismatch("arviz_raise/ess/" + tag, case, "compute_ess raised for vector-form samples: %r" % (got,))
            return False
        ref = _arviz_ref("ess", [rows_array(graph.rows[fokey(res["obj"])])], world.lay)
        if not _num_close(got, ref, world.lay, float(np.nanmax(np.abs(ref))) if np.any(np.isfinite(ref)) else 1.0):
            ctx.mismatch("arviz_value/ess/" + tag, case, "ESS is not arviz.ess of the stored chain, variable by variable", ref, got)
            return False
        return True
    if name == "rhat":
        if not res["defined"]:
            return True
        if failed:
            ctx.mismatch("arviz_raise/rhat/" + tag, case, "compute_rhat raised for chains of equal shape and geometry: %r" % (got,))
            return False
        sk = world.sk
        arrays = [rows_array(graph.rows[sk[0][i - 1]]) for i in res["chains"]]
        ref = _arviz_ref("rhat", arrays, world.lay)
        if not _num_close(got, ref, world.lay, float(np.nanmax(np.abs(ref))) if np.any(np.isfinite(ref)) else 1.0):
            ctx.mismatch("arviz_value/rhat/" + tag, case, "R-hat is not arviz.rhat of <<receiver>> followed by the caller's chains "
                         "in the caller's order (chains %r)" % (res["chains"],), ref, got)
            return False
        return True
    if name == "toarviz":
        if not res["defined"]:
            return True
        if failed:
            ctx.mismatch("arviz_raise/toarviz/" + tag, case, "to_arviz_inferencedata raised for vector-form samples: %r" % (got,))
            return False
        if not hasattr(got, "keys"):
            ctx.observations["toarviz_result_not_a_mapping"] = repr(type(got))
            return True
        A = rows_array(graph.rows[fokey(res["obj"])])
        names = [_name(h["name"]) for h in res["items"]]
        keys = [str(k) for k in got.keys()]
        if sorted(keys) != sorted(names):
            ctx.mismatch("arviz_names/toarviz/" + tag, case, "variable names of the mapping differ", names, keys)
            return False
        by = {str(k): np.asarray(v, dtype=float) for k, v in got.items()}
        for h, nm in zip(res["items"], names):
            if by[nm].shape != A[h["row"]].shape or not np.array_equal(by[nm], A[h["row"]]):
                ctx.mismatch("arviz_handover/toarviz/%s/var=%d" % (tag, h["row"]), case,
                             "variable %s is not mapped to row %d of the samples" % (nm, h["row"]), A[h["row"]], by[nm])
                return False
        return True
    if name == "burnthin":
        if res["err"]:
            if not failed:
                ctx.mismatch("refusal/burnthin/" + tag, case, "burn-in >= number of samples must be refused; the call returned", "an exception",
                             getattr(getattr(got, "samples", None), "shape", None))
                return False
            return True
        if failed:
            ctx.mismatch("raises/burnthin/" + tag, case, "the call raised although the specification defines a result: %r" % (got,))
            return False
        return stored("burnthin/" + tag, got, res["new"], res["rows"])
    if name == "conv":
        if failed:
            ctx.mismatch("raises/%s/%s" % (op["arg"], tag), case, "the conversion raised although the specification defines a result: %r" % (got,))
            return False
        return stored("%s/%s" % (op["arg"], tag), got, res["new"], res["rows"])
    if name == "thinlist":
        if failed:
            ctx.mismatch("raises/burnthin/" + tag, case, "burnthin of a list element raised: %r" % (got,))
            return False
        return all(stored("burnthin/%s/elem=%d" % (tag, k), g_, ab, rw) for k, (g_, ab, rw) in enumerate(zip(got, res["new"], res["rows"])))
    return True


def frame_step(ctx, graph, ck, world, e, pcts, calls=1, check=True):
    """One action of the frame machine on the real world: fingerprint, call, compare, fingerprint; `calls` > 1 repeats the
    call immediately with the same receiver and the same argument objects.  Returns False after a mismatch."""
    c = graph.configs[ck]
    op = e["op"]
    name = op["name"]
    pname = fopname(op)
    site = "%s/%s" % (fcstr(c), fsite(world.sk, op))
    case = {"kind": "frame", "c": c, "ops": world.ops + [op]}
    changes_state = bool(e["post"]["app"]) or tuple(e["post"]["fl"]) != world.sk[1]
    first = None
    for n in range(calls if not changes_state else 1):
        before = world.fingerprint()
        got = frame_call(world, op, pcts)
        if name == "swaplist":                  # the caller's own assignment lst[0] = other (no library call)
            world.lst[0] = world.heap[e["res"]["spare"] - 1]
        if not check:
            first = got
            break
        ctx.case(("frame", name, ck, world.sk, fopkey(op)), facet="frame_" + name)
        ctx.facets["frame_calls"] = ctx.facets.get("frame_calls", 0) + 1
        tag = "frame/%s/call=%d" % (site, world.ncall(op) + 1)
        for where, exp, obs in frame_diff(world, before, op, caller_list_change=(name in ("thinlist", "swaplist"))):
            ctx.mismatch("frame/%s/%s/%s" % (pname, site, where), case,
                         "the call altered %s: every operation of a sample set leaves its receiver and its arguments unchanged"
                         % {"receiver": "its receiver", "arg_list": "the caller's list of chains", "arg_idx": "the index array passed in",
                            "base": "the array a stored chain is a (non-contiguous) view of"}.get(
                             where, "a chain passed in" if where.startswith("arg_chain") else "an unrelated sample set"), exp, obs)
            return False
        if not frame_compare(ctx, graph, world, e, got, tag, case):
            return False
        prev = world.results.get(fopkey(op))
        if prev is not None and not changes_state and not _val_equal(prev, got):
            ctx.mismatch("repeat/%s/%s" % (pname, site), case, "a repeated call with the same receiver and the same argument objects "
                         "returned a different result (call %d)" % (world.ncall(op) + 1), prev, got if not hasattr(got, "samples") else got.samples)
            return False
        if prev is not None and not changes_state:
            ctx.facets["frame_repeated_calls"] = ctx.facets.get("frame_repeated_calls", 0) + 1
        world.results[fopkey(op)] = got
        world.counts[fopkey(op)] = world.ncall(op) + 1
        if name == "rhat" and e["res"]["defined"]:
            ctx.facets["frame_rhat_defined/%s=%d" % (op["arg"], len(world.lst))] = \
                ctx.facets.get("frame_rhat_defined/%s=%d" % (op["arg"], len(world.lst)), 0) + 1
            if any(len(world.sk[0][i - 1][1]) < c["N"] for i in e["res"]["chains"]):
                ctx.facets["frame_rhat_on_thinned"] = ctx.facets.get("frame_rhat_on_thinned", 0) + 1
            if any(o["name"] == "swaplist" for o in world.ops):
                ctx.facets["frame_rhat_after_swap"] = ctx.facets.get("frame_rhat_after_swap", 0) + 1
        first = got if first is None else first
    # the abstract post state: objects the spec keeps are appended to the real heap; the list must be the spec's list
    if changes_state:
        news = first if name == "thinlist" else ([] if name == "swaplist" else [first])
        if isinstance(first, Exception) or len(news) != len(e["post"]["app"]):
            from cuqiverif.core import MachineryError
            raise MachineryError("frame replay lost track of the heap at %s" % site)
        world.heap.extend(news)
        world.sk = FrameGraph.post_key(world.sk, e)
        if name in ("thinlist", "swaplist"):    # the caller changed its list: earlier R-hat results are no longer comparable
            world.results, world.counts = {}, {}
    if check:
        obs = [world.oid(x) for x in world.lst]
        if obs != [int(i) for i in e["post"]["fl"]]:
            ctx.mismatch("frame/%s/%s/arg_list" % (pname, site), case, "after the call the caller's list does not hold the objects "
                         "the specification says (identities, in order)", list(e["post"]["fl"]), obs)
            return False
    world.ops = world.ops + [op]
    return True


def warm_edges(graph, ck, sk, e):
    """the non state-changing actions (statistics, ESS, mapping, R-hat with the list) on the receiver of the state-changing
    action e (receiver 1 for the caller's own step): called BEFORE e, so that anything an implementation remembers from a
    first use is in place when the result of e, or the altered list, is used"""
    r = e["op"]["r"] or 1
    kinds = (("stat", ""), ("ess", ""), ("toarviz", "all"), ("rhat", "list")) if e["op"]["r"] else (("rhat", "list"),)
    return [x for x in graph.out_edges(ck, sk) if x["op"]["r"] == r and fopkey(x["op"])[0::4] in kinds]


def new_world(graph, ck, path=(), pcts=(), warm=False):
    """a fresh real world in the state reached by `path` (edges; re-executed by real calls, not compared again - they were
    compared when the path was found); warm: every state-changing call is preceded by the warm-up calls on its receiver"""
    w = World(graph, ck)
    for e in path:
        for x in (warm_edges(graph, ck, w.sk, e) if warm else ()):
            frame_step(None, graph, ck, w, x, pcts, check=False)
        frame_step(None, graph, ck, w, e, pcts, check=False)
    return w


def frame_selftest(graph, ck):
    """the fingerprints must notice an inserted list element, a changed sample and a changed flag (machinery guard)"""
    from cuqiverif.core import MachineryError
    from cuqiverif.c19_trace import READONLY_LAYOUTS
    if ck[3] in READONLY_LAYOUTS:           # the planted alteration below writes into the stored chain
        return
    w = new_world(graph, ck)
    op = {"name": "rhat", "r": 1, "b": 0, "t": 1, "arg": "list"}
    b = w.fingerprint()
    w.lst.insert(0, w.heap[0])
    d1 = [x[0] for x in frame_diff(w, b, op)]
    w = new_world(graph, ck)
    b = w.fingerprint()
    w.heap[0].samples[0, 0] += 1
    w.heap[w.sk[1][0] - 1].samples = w.heap[w.sk[1][0] - 1].samples[:, ::-1]
    w.idx.sort()
    d2 = [x[0] for x in frame_diff(w, b, op) if x[0] != "base"]
    if d1 != ["arg_list"] or d2 != ["receiver", "arg_chain=0", "arg_idx"]:
        raise MachineryError("frame fingerprints do not detect planted alterations: %r %r" % (d1, d2))


def replay_frame_config(ctx, graph, ck, n_walks, rng, pcts):
    """BFS over the states of one configuration (each state reached in a fresh real world by real calls): in every state
    every non-state-changing action is called, called again immediately, and called a third time after all the others;
    every state-changing action is taken once from a fresh world after the statistics / ESS / mapping / R-hat calls on its
    receiver and a seeded choice of two other calls.  Then seeded random walks of four actions."""
    sk0 = graph.init_key(ck)
    paths = {sk0: []}
    queue = [sk0]
    n_edges = n_states = 0
    while queue:
        sk = queue.pop(0)
        out = graph.out_edges(ck, sk)
        pure = [e for e in out if FrameGraph.post_key(sk, e) == sk]
        moving = [e for e in out if FrameGraph.post_key(sk, e) != sk]
        w = new_world(graph, ck, paths[sk], pcts, warm=True)
        for e in pure:                                # first call and immediate repetition (arviz: in every third state)
            n_edges += 1
            if not frame_step(ctx, graph, ck, w, e, pcts, calls=2 if e["op"]["name"] not in ("ess", "rhat") or n_states % 3 == 0 else 1):
                return n_edges, 0
        n_states += 1
        # again, after every other operation has run on the same objects (not repeated in the configurations that differ
        # from another one by the data layout only)
        for e in (pure if ck[3] == REF_LAYOUT else ()):
            if not frame_step(ctx, graph, ck, w, e, pcts, calls=1):
                return n_edges, 0
        for e in moving:
            n_edges += 1
            w = new_world(graph, ck, paths[sk], pcts)
            for e0 in warm_edges(graph, ck, sk, e) + rng.sample(pure, min(2, len(pure))):
                if not frame_step(ctx, graph, ck, w, e0, pcts):
                    return n_edges, 0
            if not frame_step(ctx, graph, ck, w, e, pcts):
                return n_edges, 0
            pk = w.sk
            if pk not in paths:
                paths[pk] = paths[sk] + [e]
                queue.append(pk)
    missing = [s for (cc, s) in graph.nodes if cc == ck and s not in paths]
    if missing:
        from cuqiverif.core import MachineryError
        raise MachineryError("frame states of %r emitted by TLC were not reached by the replay: %r" % (ck, missing[:2]))
    walks = 0
    for _ in range(n_walks):
        w = new_world(graph, ck)
        for _depth in range(4):
            out = graph.out_edges(ck, w.sk)
            # half of the steps repeat an earlier action of the walk when it is still enabled in the state
            again = [e for e in out if any(fopkey(e["op"]) == fopkey(o) for o in w.ops)]
            e = again[rng.randrange(len(again))] if again and rng.random() < 0.4 else out[rng.randrange(len(out))]
            if not frame_step(ctx, graph, ck, w, e, pcts):
                return n_edges, walks
        walks += 1
    return n_edges, walks


_FGRAPHS = {}
# thorough: all lists and geometries with one kept result, and a deep instance (two kept results, chains of 10 samples)
FRAME_CFGS = {"quick": ["frame_quick"], "thorough": ["frame_thorough", "frame_deep"]}


def _fgraph(ctx, tier):
    from cuqiverif import tlc as _t
    from cuqiverif.core import MachineryError
    if tier not in _FGRAPHS:
        cases = []
        import os
        for cfg in FRAME_CFGS[tier]:
            res = ctx.tlc("SamplesOps", cfg="SamplesOps.%s.cfg" % cfg, workers=8, timeout=1500, heap="8g",
                          workdir=os.path.join(_t.WORK, "SamplesOps-%s-%d" % (cfg, os.getpid())))
            ctx.model_must_hold(res, "SamplesOps." + cfg)
            cases += res.cases
            _t.cleanup(res)
        g = FrameGraph(cases)
        # number types of the level used by the frame replay: those with exactly the float64 value of the level, so that a
        # repeated call in another number type must return bit-identical bounds (single precision: main replay only)
        pcts = sorted({(pm_of(ci), tuple(f for f in level_forms(ci) if f != "npfloat32")) for k in cases if k["kind"] == "fnode"
                       for ci in k["stats"][0]["ci"]})
        if not g.nodes or not g.edges:
            raise MachineryError("SamplesOps (frame machine) emitted no nodes / edges")
        _FGRAPHS[tier] = (g, pcts)
    return _FGRAPHS[tier]


def run_frame(ctx, only=None):
    from cuqiverif.core import MachineryError
    graph, pcts = _fgraph(ctx, ctx.tier if only is None else "quick")
    if only is not None and only not in graph.configs:
        graph, pcts = _fgraph(ctx, "thorough")
    n_walks = 25 if ctx.tier == "quick" or only is not None else 150
    tot_e = tot_w = 0
    for ck in sorted(graph.configs):
        if only is not None and ck != only:
            continue
        frame_selftest(graph, ck)
        rng = random.Random("frame/%s/%r" % (ctx.seed, ck[:3] if ck[3] == REF_LAYOUT else ck))
        with contextlib.redirect_stdout(io.StringIO()):
            # every edge in every layout; fewer seeded walks in the configurations that differ from another one by the layout only
            ne, nw = replay_frame_config(ctx, graph, ck, n_walks if ck[3] == REF_LAYOUT else max(5, n_walks // 5), rng, pcts)
        ctx.facets["frame_layout_" + ck[3]] = ctx.facets.get("frame_layout_" + ck[3], 0) + ne
        tot_e += ne
        tot_w += nw
    if only is None and not ctx.violations:
        need = ["frame_" + n for n in FRAME_OPS] + ["frame_repeated_calls", "frame_rhat_on_thinned", "frame_rhat_after_swap", "frame_rhat_defined/single=1"] + \
               ["frame_rhat_defined/list=%d" % n for n in (1, 2, 3)]
        need += ["frame_layout_" + k[3] for k in graph.configs]
        miss = [n for n in need if not ctx.facets.get(n)]
        if miss:
            raise MachineryError("vacuous frame replay: no case for %r" % (miss,))
    return tot_e, tot_w


# ---------------------------------------------------------------------------------------------------------------
# code -> spec: recorded executions validated by TLC against TraceSamplesOps.tla
def validate_events(ctx, events, source):
    """All events must be transitions of the spec; returns the number of accepted events."""
    import json, os, re
    from cuqiverif import tlc as _t
    from cuqiverif.core import MachineryError
    accepted = 0
    rest = list(events)
    for _round in range(6):
        if not rest:
            break
        os.makedirs(_t.WORK, exist_ok=True)
        path = os.path.join(_t.WORK, "c19-trace-%d-%d.json" % (os.getpid(), _round))
        json.dump(rest, open(path, "w"))
        try:
            res = ctx.tlc("TraceSamplesOps", cfg="TraceSamplesOps.cfg", workers=1, timeout=900, env={"TRACE_FILE": path})
        finally:
            os.remove(path)
        if res.ok:
            if res.distinct != len(rest) + 1:
                raise MachineryError("trace validation explored %d states for %d events" % (res.distinct, len(rest)))
            accepted += len(rest)
            _t.cleanup(res)
            break
        if res.violated != "Conforms":
            raise MachineryError("trace validation failed with %r" % (res.violated,))
        idx = [int(x) for x in re.findall(r"^/?\\?\s*i = (\d+)", res.stdout, re.M)] or [int(x) for x in re.findall(r"\bi = (\d+)", res.stdout)]
        _t.cleanup(res)
        if not idx:
            raise MachineryError("cannot locate the rejected event in TLC's output")
        k = idx[-1] - 1
        e = rest[k]
        accepted += k
        fr = e.get("frame", {})
        framed = fr.get("recv", True) and fr.get("ids", True) and fr.get("args", True) and fr.get("nl_pre") == fr.get("nl_post")
        ctx.mismatch("trace/%s/%s/n=%d/par=%d/vec=%d/b=%d/t=%d%s%s" % (source, e["op"], e["pre"]["n"], e["pre"]["par"], e["pre"]["vec"], e["b"], e["t"],
                                                                  "/list=%d" % fr.get("nl_pre", 0) if e["op"] == "rhat" else "",
                                                                  "" if framed else "/frame"),
                     {"kind": "trace", "source": source, "event": {k2: (v if k2 != "cols" else v[:50]) for k2, v in e.items()}},
                     "a recorded call is not a transition of SamplesOps (TraceSamplesOps rejects the event%s)"
                     % ("" if framed else ": the call altered its receiver or its arguments, frame " + repr(fr)),
                     expected="IsEvent", observed={k2: (v if k2 != "cols" else v[:50]) for k2, v in e.items()})
        rest = rest[k + 1:]
    return accepted


def run_traces(ctx):
    import json, os, subprocess, sys
    from cuqiverif import c19_trace as T
    from cuqiverif import tlc as _t
    from cuqiverif.core import MachineryError
    if not T.install():
        raise MachineryError("Samples.burnthin / funvals / vector / parameters / compute_rhat not found: recorder targets disappeared")
    try:
        del T.EVENTS[:]
        with contextlib.redirect_stdout(io.StringIO()):
            T.random_driver(ctx.seed, 300 if ctx.tier == "quick" else 3000)
        events = list(T.EVENTS)
    finally:
        T.uninstall()
    if not events:
        raise MachineryError("the random driver recorded no events")
    n_rhat = {k: sum(1 for e in events if e["op"] == "rhat" and not e.get("single") and e["frame"]["nl_pre"] == k) for k in (1, 2, 3)}
    n_rhat["single"] = sum(1 for e in events if e["op"] == "rhat" and e.get("single"))
    if not all(n_rhat.values()):
        raise MachineryError("the random driver recorded no compute_rhat event for some argument form: %r" % (n_rhat,))
    acc = validate_events(ctx, events, "driver")
    ctx.observe("trace_events_random_driver", len(events))
    ctx.observe("trace_events_rhat_by_list_length", n_rhat)
    if ctx.tier == "thorough":
        import cuqi
        repo = os.path.dirname(os.path.dirname(os.path.realpath(cuqi.__file__)))
        os.makedirs(_t.WORK, exist_ok=True)
        out = os.path.join(_t.WORK, "c19-pytest-events-%d.json" % os.getpid())
        env = dict(os.environ, C19_TRACE_OUT=out, MPLBACKEND="Agg",
                   PYTHONPATH=os.pathsep.join([repo, os.path.join(_t.ROOT, "harness")]), PYTHONDONTWRITEBYTECODE="1")
        p = subprocess.run([sys.executable, "-m", "pytest", "-q", "-p", "no:cacheprovider", "-p", "cuqiverif.c19_trace", "-W", "ignore",
                            "tests/test_samples.py", "tests/test_geometry.py"], cwd=repo, env=env, stdout=subprocess.PIPE,
                           stderr=subprocess.STDOUT, text=True, timeout=1800)
        if not os.path.exists(out):
            raise MachineryError("recording the repository tests produced no event file:\n" + p.stdout[-1500:])
        data = json.load(open(out))
        os.remove(out)
        if "error" in data:
            raise MachineryError(data["error"])
        ev2 = data["events"]
        ctx.observe("trace_events_repo_tests", {"events": len(ev2), "skipped": data["skipped"], "pytest_exit": p.returncode})
        if not ev2:
            raise MachineryError("the repository tests recorded no Samples events")
        acc += validate_events(ctx, ev2, "repo_tests")
    return acc


def _replay_event(e):
    """Re-execute a recorded (rejected) call on a fresh random object of the recorded size and re-record it."""
    import cuqi
    from cuqi.samples import Samples
    from cuqiverif import c19_trace as T
    from cuqiverif.core import MachineryError
    n = e["pre"]["n"]
    if e["pre"]["par"]:
        s = Samples(np.random.RandomState(1).standard_normal((3, n)))
    elif e["pre"]["fun1d"]:
        s = Samples(np.random.RandomState(1).standard_normal((3, n)), is_par=False, is_vec=True)
    else:
        s = Samples(np.random.RandomState(1).standard_normal((2, 3, n)), geometry=cuqi.geometry.Image2D((2, 3)), is_par=False,
                    is_vec=e["pre"]["vec"])
    if not T.install():
        raise MachineryError("recorder targets disappeared")
    try:
        del T.EVENTS[:]
        try:
            if e["op"] == "rhat":
                nl = max(1, e.get("frame", {}).get("nl_pre", 1))
                others = [Samples(np.random.RandomState(2 + k).standard_normal(s.samples.shape), geometry=s.geometry, is_par=s.is_par,
                                  is_vec=s.is_vec) for k in range(nl)]
                s.compute_rhat(others[0] if e.get("single") else others)
            else:
                s.burnthin(e["b"], e["t"]) if e["op"] == "burnthin" else getattr(s, e["op"])
        except Exception:       # noqa: BLE001
            pass
        return T.EVENTS[0]
    finally:
        T.uninstall()


_GRAPHS = {}


def _graph(ctx, tier):
    """TLC run of one tier, cached within the process (a replay file holds several cases)."""
    from cuqiverif import tlc as _t
    from cuqiverif.core import MachineryError
    if tier not in _GRAPHS:
        import os
        res = ctx.tlc("SamplesOps", cfg="SamplesOps.%s.cfg" % tier, workers=16, timeout=1500, heap="8g",
                      workdir=os.path.join(_t.WORK, "SamplesOps-%s-%d" % (tier, os.getpid())))
        ctx.model_must_hold(res, "SamplesOps")
        _GRAPHS[tier] = Graph(res.cases)
        _t.cleanup(res)
        if not _GRAPHS[tier].nodes or not _GRAPHS[tier].edges:
            raise MachineryError("SamplesOps emitted no nodes / edges")
    return _GRAPHS[tier]


def result_is_new_object(ctx):
    """burnthin "returns the burnthinned samples as a new Samples object" (JointSamples: "a copy") - also when nothing is removed
    (Nb = 0, Nt = 1): the result is another object, and assigning to the attributes of the result leaves the source as it was."""
    import cuqi
    for gname, geom, n in (("c1d3", cuqi.geometry.Continuous1D(3), 3), ("disc2", cuqi.geometry.Discrete(2), 2), ("none", None, 3)):
        for Ns in (1, 2, 5):
            for Nb, Nt in ((0, 1), (0, 2), (1, 1), (0, None)):
                if Nb >= Ns:
                    continue
                A = np.arange(1.0, n * Ns + 1).reshape(n, Ns)
                src = cuqi.samples.Samples(A.copy(), geometry=geom) if geom is not None else cuqi.samples.Samples(A.copy())
                case = {"kind": "new_object", "g": gname, "Ns": Ns, "Nb": Nb, "Nt": Nt}
                ctx.case(("new_object", gname, Ns, Nb, Nt))
                for holder in ("samples", "joint"):
                    obj = src if holder == "samples" else cuqi.samples.JointSamples({"x": src})
                    res = obj.burnthin(Nb) if Nt is None else obj.burnthin(Nb, Nt)
                    inner = res if holder == "samples" else res["x"]
                    sig = "new_object/%s/burnthin/g=%s/Ns=%d/b=%d/t=%s" % (holder, gname, Ns, Nb, Nt)
                    ctx.facets["new_object/" + holder] = ctx.facets.get("new_object/" + holder, 0) + 1
                    if res is obj or inner is src:
                        ctx.mismatch(sig + "/same_object", case, "burnthin handed back the source object itself, not a new Samples object")
                        continue
                    geo_before = repr(src.geometry)
                    inner.samples = np.zeros((n, 1))
                    inner.geometry = cuqi.geometry.Discrete(n)
                    if not np.array_equal(np.asarray(src.samples), A) or repr(src.geometry) != geo_before:
                        ctx.mismatch(sig + "/source_follows_result", case, "assigning samples / geometry of the result of burnthin changed the source",
                                     A, np.asarray(src.samples))


def run(ctx, only=None):
    if only is None:
        # the three groups of TLC runs (main machine, frame machine, deviations) are independent: started together, each
        # in its own work directory
        from concurrent.futures import ThreadPoolExecutor
        with ThreadPoolExecutor(max_workers=3) as pool:
            jobs = [pool.submit(_graph, ctx, ctx.tier), pool.submit(_fgraph, ctx, ctx.tier), pool.submit(run_deviations, ctx)]
            graph = jobs[0].result()
            jobs[1].result()
            jobs[2].result()
    else:
        graph = _graph(ctx, "quick")
        if only not in graph.configs:
            graph = _graph(ctx, "thorough")
    # the frame machine first: its violations stand even if a wrapper of the main replay gives up afterwards
    fr_e, fr_w = run_frame(ctx) if only is None else (0, 0)
    rng = random.Random(ctx.seed)
    n_walks = 150 if ctx.tier == "quick" or only is not None else 1500
    tot_e = tot_w = 0
    for ck in sorted(graph.configs):
        if only is not None and ck != only:
            continue
        with contextlib.redirect_stdout(io.StringIO()):
            # every edge in every layout; fewer seeded chains in the configurations that differ from another one by the layout only
            ne, nw = replay_config(ctx, graph, ck, n_walks if ck[3] == REF_LAYOUT else n_walks // 5, rng)
        tot_e += ne
        tot_w += nw
    if only is None and not ctx.violations:
        from cuqiverif.core import MachineryError
        miss = sorted({k[3] for k in graph.configs if not ctx.facets.get("stats_layout_" + k[3])})
        if miss or len({k[3] for k in graph.configs}) < 2:
            raise MachineryError("vacuous layout dimension: no statistics replayed for the layouts %r" % (miss,))
        # credibility levels: every level of the cfg in every number type the spec lists for it; the boundary and the small
        # levels (0, 0.5, 1 percent: the levels a reading as "fraction of one" would alter) must be among them
        want = {(pm_of(ci), f) for nd in graph.nodes.values() for ci in nd["stats"][0]["ci"] for f in level_forms(ci)}
        miss = sorted(k for k in want if not ctx.facets.get("level/%s/%s" % (pstr(k[0]), k[1])))
        pms = {k[0] for k in want}
        if miss or not {0, 1000} <= pms or not any(0 < m < 10 for m in pms) or 10 not in pms or not ctx.facets.get("plot_ci_judged"):
            raise MachineryError("vacuous level dimension: levels (tenths of a percent) %r, not replayed %r, plot_ci judged %r"
                                 % (sorted(pms), miss, ctx.facets.get("plot_ci_judged")))
        ctx.observe("levels_replayed", {k[6:]: ctx.facets[k] for k in sorted(ctx.facets) if k.startswith("level/")})
        ctx.observe("layouts_replayed", {k: ctx.facets[k] for k in sorted(ctx.facets) if k.startswith("stats_layout_") or k.startswith("frame_layout_")})
    if only is None:
        result_is_new_object(ctx)
    n_trace = run_traces(ctx) if only is None else 0
    cand = [k for k in sorted(graph.nodes) if k[1][3] == "imgF" and not k[1][1] and not k[1][2] and len(k[1][0]) == 3]
    some = cand[0] if cand else sorted(graph.nodes)[len(graph.nodes) // 2]
    nd = graph.nodes[some]
    ctx.sample({"node": {"c": nd["c"], "obj": nd["obj"], "stats[0]": nd["stats"][0], "arviz": nd["arviz"]}})
    for ck in sorted(graph.edges):
        es = [e for sk in graph.edges[ck] for e in graph.edges[ck][sk].values() if e["op"]["name"].endswith("burnthin") and not e["err"]
              and len(e["post"]["cols"]) > 1 and e["op"]["t"] > 1]
        if es:
            ctx.sample({"edge": {k: es[len(es) // 2][k] for k in ("c", "pre", "op", "err", "post")}})
            break
    if only is None:
        fg = _fgraph(ctx, ctx.tier)[0]
        for ck in sorted(fg.edges):
            es = [e for sk in sorted(fg.edges[ck]) for e in fg.out_edges(ck, sk) if e["op"]["name"] == "rhat" and e["res"]["defined"]
                  and e["op"]["arg"] == "list" and len(sk[0]) > 4 and len(sk[1]) == 2]
            if es:
                ctx.sample({"frame_edge": {"c": es[-1]["c"], "pre": es[-1]["pre"], "op": es[-1]["op"], "res": es[-1]["res"], "post": es[-1]["post"]}})
                break
    ctx.rule = ("one case per (configuration, pre-object, action with its arguments) emitted by TLC from SamplesOps.tla, per "
                "(configuration, object) for statistics and per (configuration, object, arviz entry point, kwargs) for the "
                "hand-over; every transition of the reachable graph is replayed from a real object reached by real calls; "
                "frame machine: one case per (configuration, state <<heap, list>>, action with receiver and arguments), every "
                "edge of its graph replayed (non state-changing ones three times on the same objects)")
    ctx.exhaustive = True
    ctx.traces = tot_e + tot_w + fr_e + fr_w + n_trace
    ctx.observe("frame_edges_replayed", fr_e)
    ctx.observe("frame_random_walks_of_4", fr_w)
    ctx.observe("trace_events_accepted", n_trace)
    ctx.observe("edges_replayed", tot_e)
    ctx.observe("random_chains_of_3", tot_w)
    ctx.assumptions += ["chain lengths, burn-in / thinning boxes, geometry kinds and credibility levels bounded by the cfg",
                        "frame machine: chains of 8 (10) samples, lists of 1..3 chains, at most 1 (2) results of library calls "
                        "kept as further receivers; R-hat / ESS values: arviz applied to the spec's arrays is the reference",
                        "arviz's own association name -> value in the Dataset it returns (trusted base)",
                        "numpy float64 evaluation of TLC's exact rationals (comparison rtol 1e-12; float32 layouts: 64 * 2^-23 * "
                        "largest stored magnitude, squared for the variance)",
                        "data layouts: non-reference layouts with chains of 4 (2, 5) samples, burnthin box b<=4, t<=2 (5, 3)"]
    ctx.trusted_base.append("arviz (ess / rhat numerics; only the hand-over and the order are checked)")


def replay(ctx, case):
    if case.get("kind") == "model":
        return run(ctx)
    if case.get("kind") == "frame":
        return run_frame(ctx, only=fckey(case["c"]))
    if case.get("kind") == "trace":
        return validate_events(ctx, [_replay_event(case["event"])], case.get("source", "replay"))
    return run(ctx, only=ckey(case["c"]))
