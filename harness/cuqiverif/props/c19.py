"""C19 - sample statistics and burn-in / thinning are exact functions of the stored chain.

Spec: specs/SamplesOps.tla.  TLC explores the state graph of sample-set objects <<cols, is_par, is_vec, geometry>> under
Burnthin(b, t) / Funvals / Vector / Parameters / JointBurnthin(b, t), checks Indices, NonEmpty, FlagsLegal,
SourceUntouched, UnpermutedInv, Node (LoMedHi, FunStats) and the action properties FlagsPreserved,
ConversionsKeepColumns, StepIndices, and emits every transition (edge) and, per reachable object (node), the exact
expected columns, rational statistics and the variable <-> row mapping handed to arviz.  This module drives real
cuqi.samples.Samples / JointSamples objects along every edge (objects are reached through real calls only) and along
seeded random chains of three operations, comparing after every action.
"""
META = {
    "claimed": True,
    "engine": "SamplesOps.tla",
    "text": ("TLC explores every reachable sample-set object <<columns, is_par, is_vec, geometry>> for chains of N<=5/12 "
             "(quick) or N<=7/12 (thorough) samples under burnthin(b<=5/8, t<=4/8), funvals / vector / parameters and "
             "JointSamples.burnthin, checks Indices (closed form b, b+t, ...), NonEmpty, FlagsLegal, FlagsPreserved, "
             "ConversionsKeepColumns, StepIndices, SourceUntouched, LoMedHi, FunStats and Unpermuted on the specification "
             "(six named deviations must each violate their invariant), and emits every transition plus exact rational "
             "statistics; the harness replays every transition and seeded chains of three operations on real Samples / "
             "JointSamples objects (columns encode their index; arrays compared exactly, statistics to rtol 1e-12) and "
             "intercepts arviz.ess / arviz.rhat to compare the dictionary handed over and the order of the result. Code -> "
             "spec: calls recorded from a seeded random driver (chains up to 200 samples) and, in the thorough tier, from "
             "tests/test_samples.py and tests/test_geometry.py are validated by TLC against TraceSamplesOps.tla."),
    "note": ("Bounded chain lengths, burn-in / thinning boxes, eight fixed small geometries and a finite set of credibility "
             "levels; statistics are compared on integer-valued chains with distinct entries per coordinate. "
             "Samples.vector for Continuous2D function values (not implemented by the library) and ESS/R-hat of "
             "function-value samples whose dimension differs from the parameter dimension are outside the asserted "
             "behaviour. Exception types of refused burn-in values are not asserted."),
    "technique": "TLA+ spec (SamplesOps) model-checked with TLC; TLC-emitted transitions and exact statistics replayed "
                 "into cuqi.samples.Samples / JointSamples; arviz entry points wrapped in the harness process; recorded "
                 "calls validated by TLC against TraceSamplesOps.tla",
}

import contextlib, io, math, random, warnings
from fractions import Fraction

import numpy as np

DEVIATIONS = [("offbyone", "Indices"), ("boundary", "NonEmpty"), ("dropflag", "FlagsPreserved"),
              ("inplace", "SourceUntouched"), ("lexorder", "UnpermutedInv"), ("jointnothin", "Indices")]

RTOL = 1e-12


# ---------------------------------------------------------------------------------------------------------------
# abstract keys
def okey(o):
    return (tuple(o["cols"]), bool(o["par"]), bool(o["vec"]), o["geom"])


def ckey(c):
    return (c["g"], int(c["N"]), bool(c["joint"]))


def cstr(c):
    return "g=%s/N=%d%s" % (c["g"], c["N"], "/joint" if c["joint"] else "")


def ostr(o):
    return "n=%d/par=%d/vec=%d" % (len(o["cols"]), o["par"], o["vec"])


def frac(q):
    return Fraction(int(q[0]), int(q[1]))


# ---------------------------------------------------------------------------------------------------------------
# realisation of the geometry kinds of the spec
def make_geometry(g):
    import cuqi
    G = cuqi.geometry
    if g == "c1d1":
        return G.Continuous1D(1)
    if g == "c1d3":
        return G.Continuous1D(3)
    if g == "wide":
        return G.Continuous1D(12)
    if g == "imgC":
        return G.Image2D((2, 3), order="C")
    if g == "imgF":
        return G.Image2D((2, 3), order="F")
    if g == "c2d":
        return G.Continuous2D((2, 3))
    if g == "mapsq":
        return G.MappedGeometry(G.Continuous1D(2), map=lambda x: x ** 2, imap=np.sqrt)
    if g == "step":
        return G.StepExpansion(np.linspace(0, 1, 4), n_steps=2)
    from cuqiverif.core import MachineryError
    raise MachineryError("unknown geometry kind %r emitted by the spec" % g)


def expected_array(stats, ncols):
    pos = [tuple(s["pos"]) for s in stats]
    shape = tuple(max(p[a] for p in pos) + 1 for a in range(len(pos[0])))
    A = np.full(shape + (ncols,), np.nan)
    for s in stats:
        A[tuple(s["pos"])] = s["vals"]
    return A


class Graph:
    """TLC's emitted transition graph, per configuration."""

    def __init__(self, cases):
        self.configs = {}
        self.nodes = {}
        self.edges = {}
        for k in cases:
            ck = ckey(k["c"])
            self.configs.setdefault(ck, k["c"])
            if k["kind"] == "node":
                self.nodes[(ck, okey(k["obj"]), okey(k["obj2"]))] = k
            elif k["kind"] == "edge":
                d = self.edges.setdefault(ck, {}).setdefault((okey(k["pre"]), okey(k["pre2"])), {})
                d[(k["op"]["name"], k["op"]["b"], k["op"]["t"])] = k

    def init_key(self, ck):
        g, N, joint = ck
        o1 = (tuple(range(N)), True, True, g)
        o2 = (tuple(range(N + 1)), False, False, "imgF") if joint else ((), True, True, "none")
        return (o1, o2)

    def out_edges(self, ck, sk):
        # TLC's workers emit in arbitrary order: fixed order, so that VERIF_SEED alone determines the random chains
        d = self.edges.get(ck, {}).get(sk, {})
        return [d[k] for k in sorted(d)]


# ---------------------------------------------------------------------------------------------------------------
# real world
class Live:
    """A real object (Samples or JointSamples) reached through real calls, with snapshots of its ancestors."""

    def __init__(self, real, ancestors):
        self.real = real
        self.ancestors = ancestors          # list of (samples object, snapshot)


def snapshot(s):
    return (np.array(s.samples, copy=True), bool(s.is_par), bool(s.is_vec), s.geometry)


def members(real):
    from cuqi.samples import JointSamples
    if isinstance(real, JointSamples):
        return [real["x"], real["y"]]
    return [real]


def check_untouched(ctx, sig, case, live):
    for s, (arr, par, vec, geom) in live.ancestors:
        same = (isinstance(s.samples, np.ndarray) and s.samples.shape == arr.shape and np.array_equal(s.samples, arr)
                and bool(s.is_par) == par and bool(s.is_vec) == vec and s.geometry is geom)
        if not same:
            ctx.mismatch("source/" + sig, case, "an operation altered a sample set it was called on (or an ancestor of it)",
                         expected={"samples": arr, "is_par": par, "is_vec": vec},
                         observed={"samples": s.samples, "is_par": s.is_par, "is_vec": s.is_vec})
            return False
    return True


def compare_object(ctx, sig, case, real, abstract, node, geom, which="stats"):
    """real Samples vs the abstract object and the node's exact columns."""
    ok = True
    if bool(real.is_par) != abstract["par"] or bool(real.is_vec) != abstract["vec"]:
        ctx.mismatch("flags/" + sig, case, "representation flags (is_par, is_vec) differ from the specification",
                     expected=[abstract["par"], abstract["vec"]], observed=[real.is_par, real.is_vec])
        ok = False
    if not (real.geometry is geom or real.geometry == geom):
        ctx.mismatch("geometry/" + sig, case, "geometry of the result is not the geometry of the source",
                     expected=repr(geom), observed=repr(real.geometry))
        ok = False
    exp = expected_array(node[which], len(abstract["cols"]))
    got = real.samples
    if not isinstance(got, np.ndarray) or got.shape != exp.shape or not np.array_equal(np.asarray(got, dtype=float), exp):
        ctx.mismatch("indices/" + sig, case, "stored samples of the result are not the columns the specification selects",
                     expected={"cols": abstract["cols"], "array": exp}, observed=got)
        ok = False
    return ok


def apply_op(real, op):
    name = op["name"]
    if name == "burnthin" or name == "jointburnthin":
        return real.burnthin(op["b"], op["t"])
    if name == "funvals":
        return real.funvals
    if name == "vector":
        return real.vector
    if name == "parameters":
        return real.parameters
    from cuqiverif.core import MachineryError
    raise MachineryError("unknown action %r emitted by the spec" % name)


def step(ctx, graph, ck, geoms, live, e, chain_ops):
    """Apply edge e to the real object; compare with the spec; returns the new Live (or `live` itself when the
    action is refused) or None after a mismatch."""
    from cuqi.samples import JointSamples
    c = graph.configs[ck]
    op = e["op"]
    sig = "%s/%s/%s/b=%d/t=%d" % (op["name"], cstr(c), ostr(e["pre"]), op["b"], op["t"])
    case = {"kind": "chain", "c": c, "ops": chain_ops + [op]}
    ctx.case((op["name"], ck, okey(e["pre"]), op["b"], op["t"]), facet=op["name"])
    try:
        with warnings.catch_warnings():
            warnings.simplefilter("ignore")
            res = apply_op(live.real, op)
        raised = None
    except Exception as ex:          # noqa: BLE001  (exception *types* are not asserted)
        res, raised = None, ex
    if e["err"]:
        if raised is None:
            ctx.mismatch("refusal/" + sig, case, "burn-in >= number of samples must be refused; the call returned",
                         expected="an exception", observed=[m.samples.shape for m in members(res)] if res is not None else None)
            return None
        check_untouched(ctx, sig, case, live)
        return live
    if raised is not None:
        ctx.mismatch("raises/" + sig, case, "the call raised although the specification defines a result: %r" % (raised,),
                     expected=e["post"], observed=repr(raised))
        return None
    node = graph.nodes.get((ck, okey(e["post"]), okey(e["post2"])))
    if node is None:
        from cuqiverif.core import MachineryError
        raise MachineryError("edge leads to a state without emitted node: %r" % (e,))
    ok = True
    if c["joint"]:
        if not isinstance(res, JointSamples) or sorted(res.keys()) != ["x", "y"]:
            ctx.mismatch("joint/" + sig, case, "JointSamples.burnthin must return the same members", ["x", "y"], repr(res))
            return None
        ok &= compare_object(ctx, sig + "/member=x", case, res["x"], e["post"], node, geoms[0], "stats")
        ok &= compare_object(ctx, sig + "/member=y", case, res["y"], e["post2"], node, geoms[1], "stats2")
    else:
        ok &= compare_object(ctx, sig, case, res, e["post"], node, geoms[0], "stats")
    ok &= check_untouched(ctx, sig, case, live)
    if not ok:
        return None
    anc = list(live.ancestors)
    known = {id(s) for s, _ in anc}
    for m in members(res):
        if id(m) not in known:
            anc.append((m, snapshot(m)))
    return Live(res, anc)


# ---------------------------------------------------------------------------------------------------------------
# statistics of a node
def _close(a, b):
    return abs(a - b) <= RTOL * max(1.0, abs(b))


def check_stats(ctx, ck, c, real, node):
    o = node["obj"]
    sig0 = "%s/%s" % (cstr(c), ostr(o))
    case = {"kind": "node", "c": c, "obj": o}
    stats = node["stats"]
    pos = [tuple(s["pos"]) for s in stats]
    shape = tuple(max(p[a] for p in pos) + 1 for a in range(len(pos[0])))
    with warnings.catch_warnings():
        warnings.simplefilter("ignore")
        try:
            got = {"mean": real.mean(), "median": real.median(), "variance": real.variance(), "std": real.std()}
            cis = {ci["pct"]: (real.compute_ci(ci["pct"]), real.ci_width(ci["pct"])) for ci in stats[0]["ci"]}
        except Exception as ex:      # noqa: BLE001
            ctx.mismatch("stats_raise/" + sig0, case, "a statistic of an array-valued sample set raised: %r" % (ex,))
            return
    ctx.case(("stats", ck, okey(o)), facet="stats")
    for name, arr in got.items():
        if np.shape(arr) != shape:
            ctx.mismatch("stats_shape/%s/%s" % (name, sig0), case, "statistic is not per coordinate over the sample axis "
                         "(shape differs from the shape of one sample)", expected=list(shape), observed=list(np.shape(arr)))
            return
    for s in stats:
        p = tuple(s["pos"])
        exp = {"mean": float(frac(s["mean"])), "median": float(frac(s["med"])), "variance": float(frac(s["var"])),
               "std": math.sqrt(float(frac(s["var"])))}
        for name in ("mean", "median", "variance", "std"):
            if not _close(float(got[name][p]), exp[name]):
                ctx.mismatch("stats/%s/%s/pos=%s" % (name, sig0, "x".join(map(str, p))), case,
                             "%s differs from the exact statistic of the stored chain" % name, exp[name], float(got[name][p]))
        for ci in s["ci"]:
            (lohi, width) = cis[ci["pct"]]
            if np.shape(lohi) != (2,) + shape or np.shape(width) != shape:
                ctx.mismatch("stats_shape/ci/%s/pct=%d" % (sig0, ci["pct"]), case, "credible interval bounds are not "
                             "(lower, upper) per coordinate", [2] + list(shape), list(np.shape(lohi)))
                return
            lo, hi, w = float(lohi[0][p]), float(lohi[1][p]), float(width[p])
            elo, ehi, ew = float(frac(ci["lo"])), float(frac(ci["hi"])), float(frac(ci["width"]))
            tag = "%s/pct=%d/pos=%s" % (sig0, ci["pct"], "x".join(map(str, p)))
            if not (_close(lo, elo) and _close(hi, ehi)):
                ctx.mismatch("stats/ci/" + tag, case, "credible interval bounds differ from the percentiles "
                             "(100-p)/2 and 100-(100-p)/2 with linear interpolation", [elo, ehi], [lo, hi])
            if not _close(w, ew):
                ctx.mismatch("stats/ci_width/" + tag, case, "interval width is not upper - lower bound", ew, w)
            med = float(got["median"][p])
            if not (lo <= med + 1e-9 * max(1, abs(med)) and med <= hi + 1e-9 * max(1, abs(med))):
                ctx.mismatch("stats/lomedhi/" + tag, case, "lower bound <= median <= upper bound fails", [elo, exp["median"], ehi],
                             [lo, med, hi])


# ---------------------------------------------------------------------------------------------------------------
# arviz hand-over
class _ArvizProxy:
    def __init__(self, real, log):
        self._real, self._log = real, log

    def __getattr__(self, name):
        return getattr(self._real, name)

    def ess(self, data, **kw):
        out = self._real.ess(data, **kw)
        self._log.append(("ess", data, kw, out))
        return out

    def rhat(self, data, **kw):
        out = self._real.rhat(data, **kw)
        self._log.append(("rhat", data, kw, out))
        return out


@contextlib.contextmanager
def intercept_arviz(log):
    from cuqiverif.core import MachineryError
    import cuqi.samples._samples as sm
    real = getattr(sm, "arviz", None)
    if real is None or not hasattr(real, "ess") or not hasattr(real, "rhat"):
        raise MachineryError("cuqi.samples._samples.arviz (module with ess/rhat) not found: interception point disappeared")
    sm.arviz = _ArvizProxy(real, log)
    try:
        yield
    finally:
        sm.arviz = real


def _name(digits):
    return "v" + "".join(str(d) for d in digits)


def check_arviz(ctx, ck, c, real, node, geom):
    from cuqiverif.core import MachineryError
    from cuqi.samples import Samples
    az = node["arviz"]
    o = node["obj"]
    if not az["defined"] or len(o["cols"]) < 4:
        return
    sig0 = "%s/%s" % (cstr(c), ostr(o))
    case = {"kind": "node", "c": c, "obj": o}
    stats = node["stats"]
    names = [_name(h["name"]) for h in az["handover"]]
    rows = [np.array(stats[h["row"]]["vals"], dtype=float) for h in az["handover"]]
    ret = az["returned"]
    d = len(names)

    def run(kind, call, exp_rows):
        log = []
        with intercept_arviz(log), warnings.catch_warnings():
            warnings.simplefilter("ignore")
            try:
                val = call()
            except Exception as ex:   # noqa: BLE001
                ctx.mismatch("arviz_raise/%s/%s" % (kind, sig0), case, "%s raised for vector-form samples: %r" % (kind, ex))
                return
        calls = [l for l in log if l[0] == kind]
        if len(calls) != 1:
            raise MachineryError("compute_%s did not call arviz.%s exactly once (%d calls): interception point moved"
                                 % (kind, kind, len(calls)))
        _, data, kw, out = calls[0]
        if not hasattr(data, "keys"):
            raise MachineryError("compute_%s hands %r to arviz (expected a mapping name -> chain)" % (kind, type(data)))
        ctx.case(("arviz", kind, ck, okey(o), tuple(sorted(kw.items()))), facet="arviz_" + kind)
        keys = [str(k) for k in data.keys()]
        if sorted(keys) != sorted(names):
            ctx.mismatch("arviz_names/%s/%s" % (kind, sig0), case, "variable names handed to arviz differ", names, keys)
            return
        bykey = {str(k): np.asarray(v, dtype=float) for k, v in data.items()}
        for i, nm in enumerate(names):
            if bykey[nm].shape != exp_rows[i].shape or not np.array_equal(bykey[nm], exp_rows[i]):
                ctx.mismatch("arviz_handover/%s/%s/var=%d" % (kind, sig0, i), case,
                             "variable %d (%s) is handed to arviz with a chain that is not row %d of the samples" % (i, nm, i),
                             exp_rows[i], bykey[nm])
                return
        val = np.asarray(val, dtype=float).ravel()
        if val.shape != (d,):
            ctx.mismatch("arviz_result_shape/%s/%s" % (kind, sig0), case, "one value per variable expected", d, list(val.shape))
            return
        ref = np.array([float(np.asarray(out[nm])) for nm in names])
        for k in range(d):
            a, b = val[k], ref[ret[k]]
            if not ((np.isnan(a) and np.isnan(b)) or a == b):
                ctx.mismatch("arviz_order/%s/%s/pos=%d" % (kind, sig0, k), case,
                             "position %d of the returned array is not the value arviz computed for variable %d (%s)"
                             % (k, ret[k], names[ret[k]]), float(b), float(a))
                return
        ctx.facets["arviz_%s_distinct_values" % kind] = max(ctx.facets.get("arviz_%s_distinct_values" % kind, 0),
                                                            len(set(np.round(ref[~np.isnan(ref)], 9))))

    run("ess", lambda: real.compute_ess(), rows)
    run("ess", lambda: real.compute_ess(method="mean"), rows)
    nch = len(stats[0]["chains"])
    if nch:
        chains = []
        for j in range(nch):
            A = np.array([stats[h["row"]]["chains"][j] for h in az["handover"]], dtype=float)
            chains.append(Samples(A, geometry=geom, is_par=o["par"], is_vec=o["vec"]))
        exp = [np.vstack([rows[i]] + [np.array(stats[az["handover"][i]["row"]]["chains"][j], dtype=float) for j in range(nch)])
               for i in range(d)]
        run("rhat", lambda: real.compute_rhat(chains), exp)


# ---------------------------------------------------------------------------------------------------------------
def build_source(graph, ck):
    from cuqi.samples import Samples, JointSamples
    g, N, joint = ck
    sk = graph.init_key(ck)
    node = graph.nodes.get((ck,) + sk)
    if node is None:
        from cuqiverif.core import MachineryError
        raise MachineryError("no node emitted for the initial state of %r" % (ck,))
    G1 = make_geometry(g)
    x = Samples(expected_array(node["stats"], N), geometry=G1)
    if not joint:
        return Live(x, [(x, snapshot(x))]), [G1, None], sk
    G2 = make_geometry("imgF")
    y = Samples(expected_array(node["stats2"], N + 1), geometry=G2, is_par=False, is_vec=False)
    js = JointSamples({"x": x, "y": y})
    return Live(js, [(x, snapshot(x)), (y, snapshot(y))]), [G1, G2], sk


def replay_config(ctx, graph, ck, n_walks, rng):
    c = graph.configs[ck]
    live0, geoms, sk0 = build_source(graph, ck)
    rep = {sk0: (live0, [])}
    queue = [sk0]
    n_edges = 0
    while queue:
        sk = queue.pop(0)
        live, ops = rep[sk]
        node = graph.nodes[(ck,) + sk]
        if not c["joint"]:
            check_stats(ctx, ck, c, live.real, node)
            check_arviz(ctx, ck, c, live.real, node, geoms[0])
        for e in graph.out_edges(ck, sk):
            n_edges += 1
            new = step(ctx, graph, ck, geoms, live, e, ops)
            pk = (okey(e["post"]), okey(e["post2"]))
            if new is not None and pk not in rep and not e["err"]:
                rep[pk] = (new, ops + [e["op"]])
                queue.append(pk)
    missing = [k for (cc, a, b) in graph.nodes if cc == ck for k in [(a, b)] if k not in rep]
    if missing and not ctx.violations:
        from cuqiverif.core import MachineryError
        raise MachineryError("states of %r emitted by TLC were not reached by the replay: %r" % (ck, missing[:3]))
    # seeded random chains of three operations, every object produced by the previous real call
    walks = 0
    for _ in range(n_walks):
        live, sk, ops = live0, sk0, []
        for _depth in range(3):
            out = graph.out_edges(ck, sk)
            if not out:
                break
            e = out[rng.randrange(len(out))]
            new = step(ctx, graph, ck, geoms, live, e, ops)
            if new is None:
                break
            ops = ops + [e["op"]]
            if not e["err"]:
                live, sk = new, (okey(e["post"]), okey(e["post2"]))
        walks += 1
    return n_edges, walks


def run_deviations(ctx):
    from cuqiverif.core import MachineryError
    for dev, inv in DEVIATIONS:
        res = ctx.tlc("SamplesOps", cfg="SamplesOps.dev_%s.cfg" % dev, workers=4, timeout=300, expect_violation=True)
        if res.ok or res.violated != inv:
            raise MachineryError("deviation %s must violate %s on the specification (vacuity test), got %r" % (dev, inv, res.violated))
        ctx.observations.setdefault("deviations_violating", {})[dev] = inv
        from cuqiverif import tlc as _t
        _t.cleanup(res)


# ---------------------------------------------------------------------------------------------------------------
# code -> spec: recorded executions validated by TLC against TraceSamplesOps.tla
def validate_events(ctx, events, source):
    """All events must be transitions of the spec; returns the number of accepted events."""
    import json, os, re
    from cuqiverif import tlc as _t
    from cuqiverif.core import MachineryError
    accepted = 0
    rest = list(events)
    for _round in range(6):
        if not rest:
            break
        os.makedirs(_t.WORK, exist_ok=True)
        path = os.path.join(_t.WORK, "c19-trace-%d-%d.json" % (os.getpid(), _round))
        json.dump(rest, open(path, "w"))
        try:
            res = ctx.tlc("TraceSamplesOps", cfg="TraceSamplesOps.cfg", workers=1, timeout=900, env={"TRACE_FILE": path})
        finally:
            os.remove(path)
        if res.ok:
            if res.distinct != len(rest) + 1:
                raise MachineryError("trace validation explored %d states for %d events" % (res.distinct, len(rest)))
            accepted += len(rest)
            _t.cleanup(res)
            break
        if res.violated != "Conforms":
            raise MachineryError("trace validation failed with %r" % (res.violated,))
        idx = [int(x) for x in re.findall(r"^/?\\?\s*i = (\d+)", res.stdout, re.M)] or [int(x) for x in re.findall(r"\bi = (\d+)", res.stdout)]
        _t.cleanup(res)
        if not idx:
            raise MachineryError("cannot locate the rejected event in TLC's output")
        k = idx[-1] - 1
        e = rest[k]
        accepted += k
        ctx.mismatch("trace/%s/%s/n=%d/par=%d/vec=%d/b=%d/t=%d" % (source, e["op"], e["pre"]["n"], e["pre"]["par"], e["pre"]["vec"], e["b"], e["t"]),
                     {"kind": "trace", "source": source, "event": {k2: (v if k2 != "cols" else v[:50]) for k2, v in e.items()}},
                     "a recorded call is not a transition of SamplesOps (TraceSamplesOps rejects the event)",
                     expected="IsEvent", observed={k2: (v if k2 != "cols" else v[:50]) for k2, v in e.items()})
        rest = rest[k + 1:]
    return accepted


def run_traces(ctx):
    import json, os, subprocess, sys
    from cuqiverif import c19_trace as T
    from cuqiverif import tlc as _t
    from cuqiverif.core import MachineryError
    if not T.install():
        raise MachineryError("Samples.burnthin / funvals / vector / parameters not found: recorder targets disappeared")
    try:
        del T.EVENTS[:]
        with contextlib.redirect_stdout(io.StringIO()):
            T.random_driver(ctx.seed, 300 if ctx.tier == "quick" else 3000)
        events = list(T.EVENTS)
    finally:
        T.uninstall()
    if not events:
        raise MachineryError("the random driver recorded no events")
    acc = validate_events(ctx, events, "driver")
    ctx.observe("trace_events_random_driver", len(events))
    if ctx.tier == "thorough":
        import cuqi
        repo = os.path.dirname(os.path.dirname(os.path.realpath(cuqi.__file__)))
        os.makedirs(_t.WORK, exist_ok=True)
        out = os.path.join(_t.WORK, "c19-pytest-events-%d.json" % os.getpid())
        env = dict(os.environ, C19_TRACE_OUT=out, MPLBACKEND="Agg",
                   PYTHONPATH=os.pathsep.join([repo, os.path.join(_t.ROOT, "harness")]), PYTHONDONTWRITEBYTECODE="1")
        p = subprocess.run([sys.executable, "-m", "pytest", "-q", "-p", "no:cacheprovider", "-p", "cuqiverif.c19_trace", "-W", "ignore",
                            "tests/test_samples.py", "tests/test_geometry.py"], cwd=repo, env=env, stdout=subprocess.PIPE,
                           stderr=subprocess.STDOUT, text=True, timeout=1800)
        if not os.path.exists(out):
            raise MachineryError("recording the repository tests produced no event file:\n" + p.stdout[-1500:])
        data = json.load(open(out))
        os.remove(out)
        if "error" in data:
            raise MachineryError(data["error"])
        ev2 = data["events"]
        ctx.observe("trace_events_repo_tests", {"events": len(ev2), "skipped": data["skipped"], "pytest_exit": p.returncode})
        if not ev2:
            raise MachineryError("the repository tests recorded no Samples events")
        acc += validate_events(ctx, ev2, "repo_tests")
    return acc


def _replay_event(e):
    """Re-execute a recorded (rejected) call on a fresh random object of the recorded size and re-record it."""
    import cuqi
    from cuqi.samples import Samples
    from cuqiverif import c19_trace as T
    from cuqiverif.core import MachineryError
    n = e["pre"]["n"]
    if e["pre"]["par"]:
        s = Samples(np.random.RandomState(1).standard_normal((3, n)))
    elif e["pre"]["fun1d"]:
        s = Samples(np.random.RandomState(1).standard_normal((3, n)), is_par=False, is_vec=True)
    else:
        s = Samples(np.random.RandomState(1).standard_normal((2, 3, n)), geometry=cuqi.geometry.Image2D((2, 3)), is_par=False,
                    is_vec=e["pre"]["vec"])
    if not T.install():
        raise MachineryError("recorder targets disappeared")
    try:
        del T.EVENTS[:]
        try:
            s.burnthin(e["b"], e["t"]) if e["op"] == "burnthin" else getattr(s, e["op"])
        except Exception:       # noqa: BLE001
            pass
        return T.EVENTS[0]
    finally:
        T.uninstall()


_GRAPHS = {}


def _graph(ctx, tier):
    """TLC run of one tier, cached within the process (a replay file holds several cases)."""
    from cuqiverif import tlc as _t
    from cuqiverif.core import MachineryError
    if tier not in _GRAPHS:
        res = ctx.tlc("SamplesOps", cfg="SamplesOps.%s.cfg" % tier, workers=16, timeout=1500, heap="8g")
        ctx.model_must_hold(res, "SamplesOps")
        _GRAPHS[tier] = Graph(res.cases)
        _t.cleanup(res)
        if not _GRAPHS[tier].nodes or not _GRAPHS[tier].edges:
            raise MachineryError("SamplesOps emitted no nodes / edges")
    return _GRAPHS[tier]


def run(ctx, only=None):
    if only is None:
        graph = _graph(ctx, ctx.tier)
        run_deviations(ctx)
    else:
        graph = _graph(ctx, "quick")
        if only not in graph.configs:
            graph = _graph(ctx, "thorough")
    rng = random.Random(ctx.seed)
    n_walks = 150 if ctx.tier == "quick" or only is not None else 1500
    tot_e = tot_w = 0
    for ck in sorted(graph.configs):
        if only is not None and ck != only:
            continue
        with contextlib.redirect_stdout(io.StringIO()):
            ne, nw = replay_config(ctx, graph, ck, n_walks, rng)
        tot_e += ne
        tot_w += nw
    n_trace = run_traces(ctx) if only is None else 0
    cand = [k for k in sorted(graph.nodes) if k[1][3] == "imgF" and not k[1][1] and not k[1][2] and len(k[1][0]) == 3]
    some = cand[0] if cand else sorted(graph.nodes)[len(graph.nodes) // 2]
    nd = graph.nodes[some]
    ctx.sample({"node": {"c": nd["c"], "obj": nd["obj"], "stats[0]": nd["stats"][0], "arviz": nd["arviz"]}})
    for ck in sorted(graph.edges):
        es = [e for sk in graph.edges[ck] for e in graph.edges[ck][sk].values() if e["op"]["name"].endswith("burnthin") and not e["err"]
              and len(e["post"]["cols"]) > 1 and e["op"]["t"] > 1]
        if es:
            ctx.sample({"edge": {k: es[len(es) // 2][k] for k in ("c", "pre", "op", "err", "post")}})
            break
    ctx.rule = ("one case per (configuration, pre-object, action with its arguments) emitted by TLC from SamplesOps.tla, per "
                "(configuration, object) for statistics and per (configuration, object, arviz entry point, kwargs) for the "
                "hand-over; every transition of the reachable graph is replayed from a real object reached by real calls")
    ctx.exhaustive = True
    ctx.traces = tot_e + tot_w + n_trace
    ctx.observe("trace_events_accepted", n_trace)
    ctx.observe("edges_replayed", tot_e)
    ctx.observe("random_chains_of_3", tot_w)
    ctx.assumptions += ["chain lengths, burn-in / thinning boxes, geometry kinds and credibility levels bounded by the cfg",
                        "arviz's own association name -> value in the Dataset it returns (trusted base)",
                        "numpy float64 evaluation of TLC's exact rationals (comparison rtol 1e-12)"]
    ctx.trusted_base.append("arviz (ess / rhat numerics; only the hand-over and the order are checked)")


def replay(ctx, case):
    if case.get("kind") == "model":
        return run(ctx)
    if case.get("kind") == "trace":
        return validate_events(ctx, [_replay_event(case["event"])], case.get("source", "replay"))
    return run(ctx, only=ckey(case["c"]))
