"""C06 - Linear RTO draws are exact Gaussian posterior draws; UGLA draws are exact draws from the local Gaussian.

Spec: specs/LinGauss.tla, parts "rto" and "ugla".  TLC enumerates the configurations (sizes, 1..2 likelihoods, every
Gaussian input form for noise and prior, GMRF and stacked priors, scalar / vector means, matrix / function models),
checks on the specification that the stacked whitened operator satisfies M^T M = Lambda, M^T b~ = Lambda mu_post,
that one RTO transition from EVERY current state equals mu_post + Lambda^-1 M^T e and reproduces Lambda^-1, and emits
the exact integers / rationals.  This module builds the real posteriors, scripts the standard-normal perturbation
to 0 and to the unit vectors, performs ONE transition of the real samplers from different current states and compares
offset and covariance with TLC's numbers; it also applies the stacked operator the sampler built, in both directions.
"""
META = {
    "claimed": True,
    "engine": "LinGauss.tla",
    "text": ("TLC checks on every configuration of the bounded instance (A up to 3x3 under/over-determined, 1-2 likelihoods, "
             "16 input forms of each Gaussian, GMRF order 0-2 and stacked sqrt-precision priors, scalar/vector means) that the "
             "stacked whitened least-squares problem has normal matrix Lambda and right-hand side Lambda*mu_post, that one RTO "
             "transition from every reachable state (two successive draws) is mu_post + Lambda^-1 M^T e, that its covariance is "
             "Lambda^-1, and for UGLA that the draw is the documented local Gaussian N(Lambda(x_k)^-1 rhs, Lambda(x_k)^-1) on "
             "perfect-square lattices; named deviations are refuted by TLC.  The harness replays every emitted configuration "
             "into cuqi.experimental.mcmc.LinearRTO/UGLA and cuqi.sampler.LinearRTO/UGLA (incl. the 5-tuple form) with "
             "scripted normals 0, e_i from two current states and compares offset / covariance / stacked operator (rtol 1e-8).  "
             "Sequences (LinGaussSeq.tla, pairs of configurations): ONE sampler object whose target is replaced as HybridGibbs does "
             "(target = other posterior; reinitialize(); set_state()), whose maxit / tol / beta / x0 are assigned between transitions "
             "and which makes several transitions from wherever it is: every transition is the exact draw of the posterior installed NOW "
             "(invariant SeqDrawIsTargetDraw, deviation ReinitKeepsOperator refuted); the legacy 5-tuple is not modified and can be used again."),
    "note": ("Bounded sizes (n, m <= 3), precisions on an integer/dyadic lattice; inner CGLS run with maxit=60, tol=1e-13 "
             "('run to convergence'); RegularizedLinearRTO not covered (not a Gaussian draw); GMRF priors with zero boundary "
             "condition only (the others are documented as inexact); point at which UGLA evaluates its weights (x_k or x_k - "
             "location) is not documented: either is accepted and recorded as an observation."),
    "technique": "TLA+ spec (LinGauss) model-checked with TLC; TLC-emitted cases replayed into the real samplers with scripted normals",
}

import numpy as np

MAXIT, TOL = 60, 1e-13
RTOL = 1e-8


def _L():
    from cuqiverif import lingauss_common as L
    return L


def _sig(case, iface, what):
    L = _L()
    if case["kind"] == "rto":
        return "rto/%s/%s/nl=%d/n=%d/m=%s/noise=%s/prior=%s/mean=%s/model=%s/A=%d" % (
            iface, what, case["nl"], case["n"], "+".join(str(v) for v in case["m"]),
            "+".join(L.form_tag(s) for s in case["noise"]), L.form_tag(case["prior"]), case["mk"], case["mdl"], case["av"])
    s = case["scale_q"]
    return "ugla/%s/%s/loc=%s/scale=%s/n=%d/m=%d/noise=%s/beta=%d_%d/xk=%d" % (
        iface, what, case["lk"], ("%d" % s[0]) if s[1] == 1 else "%d_%d" % tuple(s), case["n"], case["m"],
        L.form_tag(case["noise"]), case["beta_q"][0], case["beta_q"][1], case["u"])


# --------------------------------------------------------------------------------------------------------------
# drivers: one transition of each interface with scripted normals
# --------------------------------------------------------------------------------------------------------------
def _exp_sampler(cls, target, x0, **kw):
    s = cls(target, initial_point=np.array(x0, dtype=float), maxit=MAXIT, tol=TOL, **kw)
    s.initialize()
    return s


def _exp_draw(s, x0):
    L = _L()
    name = type(s).__name__

    def draw(items, reset=True):
        if reset:
            s.set_state({"metadata": {"sampler_type": name}, "state": {"current_point": np.array(x0, dtype=float)}})
        with L.scripted({"normal": list(items)}):
            s.step()
        return np.array(s.current_point, dtype=float)
    return draw


def _legacy_draw(s, x0):
    L = _L()

    def draw(items, reset=True):
        s.x0 = np.array(x0, dtype=float)
        with L.scripted({"normal": list(items)}), L.quiet():
            out = s.sample(1 + len(items))
        return np.array(out.samples[:, -1], dtype=float)
    return draw


def _check_affine(ctx, case, iface, draw, mu, cov, state_tag, offsets):
    L = _L()
    try:
        off, T, N = L.affine_readoff(draw)
    except L.ScriptError as e:
        ctx.mismatch(_sig(case, iface, "draws"), case, "transition does not consume exactly one standard-normal vector: %s" % e)
        return None
    ctx.case((case["kind"], iface, state_tag, _sig(case, iface, "")), facet="%s/%s" % (case["kind"], iface))
    if L.rel_err(off, mu) > RTOL:
        ctx.mismatch(_sig(case, iface, "offset"), case, "next state for perturbation 0 is not the mean of the Gaussian the step "
                     "must draw from (current state %s)" % state_tag, expected=mu, observed=off)
    if L.rel_err(T @ T.T, cov, scale=1e-3) > RTOL:
        ctx.mismatch(_sig(case, iface, "cov"), case, "linear part T of the step (next = offset + T e) does not reproduce the "
                     "covariance: T T^T != Lambda^-1 (current state %s)" % state_tag, expected=cov, observed=T @ T.T)
    offsets.append((state_tag, off, T))
    return off, T, N


def _check_state_independence(ctx, case, iface, offsets):
    L = _L()
    if len(offsets) < 2:
        return
    (t0, o0, T0), (t1, o1, T1) = offsets[0], offsets[-1]
    if L.rel_err(o1, o0) > RTOL or T0.shape != T1.shape or L.rel_err(T1, T0) > 1e-7:
        ctx.mismatch(_sig(case, iface, "state"), case, "the draw depends on the current state (%s vs %s)" % (t0, t1),
                     expected={"offset": o0, "T": T0}, observed={"offset": o1, "T": T1})


# --------------------------------------------------------------------------------------------------------------
# Linear RTO
# --------------------------------------------------------------------------------------------------------------
def _states(n):
    return [("zero", np.zeros(n)), ("int", np.array([3.0 * (i + 1) - 5 for i in range(n)]))]


def _check_stacked_operator(ctx, case, iface, s):
    """The operator M the sampler built: flag 2 must be the exact transpose of flag 1; M^T M = Lambda; M^T b~ = rhs."""
    L = _L()
    M = L.require_attr(s, "M")
    bt = np.asarray(L.require_attr(s, "b_tild"), dtype=float)
    n, N = case["n"], len(bt)
    if callable(M):
        fwd = np.array([np.asarray(M(e, 1), dtype=float) for e in np.eye(n)]).T          # N x n
        adj = np.array([np.asarray(M(e, 2), dtype=float) for e in np.eye(N)]).T          # n x N
        apply1, apply2 = (lambda v: np.asarray(M(v, 1), dtype=float)), (lambda v: np.asarray(M(v, 2), dtype=float))
    else:
        fwd = np.asarray(M.todense() if hasattr(M, "todense") else M, dtype=float)
        adj = fwd.T.copy()
        apply1, apply2 = (lambda v: fwd @ v), (lambda v: fwd.T @ v)
    ctx.case(("rto-operator", iface, _sig(case, iface, "")), facet="rto/operator")
    scale = max(1.0, np.abs(fwd).max())
    # exact in floating point when the whitening matrices are dyadic; rounding of a Cholesky / inverse otherwise
    if fwd.shape != (N, n) or adj.shape != (n, N) or np.max(np.abs(adj - fwd.T)) > 1e-12 * scale:
        ctx.mismatch(_sig(case, iface, "adjoint"), case, "stacked operator: flag 2 is not the transpose of flag 1", expected=fwd.T, observed=adj)
    xi = np.array([(2 * i + 1) % 5 - 2 for i in range(n)], dtype=float)
    yi = np.array([(3 * i + 2) % 7 - 3 for i in range(N)], dtype=float)
    lhs, rhs = float(apply1(xi) @ yi), float(xi @ apply2(yi))
    if abs(lhs - rhs) > 1e-12 * max(1.0, abs(lhs), abs(rhs)):
        ctx.mismatch(_sig(case, iface, "adjoint"), case, "<M(x,1), y> != <x, M(y,2)> on integer vectors", expected=lhs, observed=rhs)
    Lam, r = L.inp(case["Lam"]), L.inp(case["rhs"])
    if L.rel_err(fwd.T @ fwd, Lam) > 1e-9:
        ctx.mismatch(_sig(case, iface, "normal"), case, "stacked operator: M^T M is not the posterior precision Lambda", expected=Lam, observed=fwd.T @ fwd)
    if L.rel_err(fwd.T @ bt, r) > 1e-9 and L.rel_err(fwd.T @ fwd, Lam) <= 1e-9:
        ctx.mismatch(_sig(case, iface, "rhs"), case, "stacked data: M^T b~ is not Lambda mu_post", expected=r, observed=fwd.T @ bt)


def check_rto(ctx, case):
    import cuqi
    L = _L()
    mu, cov = L.qnp(case["mu_q"]), L.qnp(case["LamInv_q"])
    n = case["n"]
    try:
        post = L.build_rto_posterior(case)
    except Exception as e:
        ctx.mismatch(_sig(case, "build", "error"), case, "posterior of a documented linear-Gaussian configuration cannot be built: %r" % (e,))
        return
    ifaces = [("experimental", lambda x0: _exp_sampler(cuqi.experimental.mcmc.LinearRTO, post, x0), _exp_draw),
              ("legacy", lambda x0: cuqi.sampler.LinearRTO(post, x0=np.array(x0, dtype=float), maxit=MAXIT, tol=TOL), _legacy_draw)]
    pr = case["prior"]
    if case["nl"] == 1 and pr["kind"] not in ("gmrf", "joint"):
        # 5-tuple input form (data, model, L_sqrtprec, P_mean, P_sqrtprec) of the legacy interface, matrix or LinearModel
        A = L.inp(case["A"][0])
        mdl = A if case["mdl"] == "matrix" else L.linear_model(A, "func")
        tup = (L.inp(case["y"][0]), mdl, L.inp(case["Ln"][0]), L.inp(pr["blocks"][0]["mu"]), L.inp(pr["blocks"][0]["L"]))
        ifaces.append(("legacy5", lambda x0: cuqi.sampler.LinearRTO(tup, x0=np.array(x0, dtype=float), maxit=MAXIT, tol=TOL), _legacy_draw))
    for iface, make, mkdraw in ifaces:
        offsets = []
        try:
            for tag, x0 in _states(n):
                s = make(x0)
                draw = mkdraw(s, x0)
                got = _check_affine(ctx, case, iface, draw, mu, cov, tag, offsets)
                if got is None:
                    break
                if tag == "zero":
                    _check_stacked_operator(ctx, case, iface, s)
                else:
                    # two successive draws: the second one is again mu_post + T e, whatever the first one was
                    off, T, N = got
                    if N >= 2:
                        if iface == "experimental":
                            draw([L.Unit(0)])
                            second = draw([L.Unit(N - 1)], reset=False)
                        else:
                            second = draw([L.Unit(0), L.Unit(N - 1)])
                        if L.rel_err(second, off + T[:, N - 1]) > RTOL:
                            ctx.mismatch(_sig(case, iface, "state"), case, "second of two successive draws depends on the first",
                                         expected=off + T[:, N - 1], observed=second)
            _check_state_independence(ctx, case, iface, offsets)
        except L.MachineryError:
            raise
        except Exception as e:
            ctx.mismatch(_sig(case, iface, "error"), case, "sampler refuses / crashes on a documented linear-Gaussian configuration: %r" % (e,))


# --------------------------------------------------------------------------------------------------------------
# UGLA
# --------------------------------------------------------------------------------------------------------------
def _ugla_key(c):
    return (c["n"], c["m"], c["i1"], c["lk"], c["u"], c["si"], c["bi"])


def check_ugla(ctx, variants):
    """variants: TLC cases of one configuration, one per point at which the weights may be evaluated (wv = 0: x_k,
    wv = 1: x_k - location; the documentation does not say which)."""
    import cuqi
    L = _L()
    case = variants[0]
    n = case["n"]
    xk = L.inp(case["xk"])
    beta = float(L.qval(case["beta_q"]))
    scale = float(L.qval(case["scale_q"]))
    loc = {"zero": 0.0, "scalar": float(case["loc"][0]), "vec": L.inp(case["loc"])}[case["lk"]]
    try:
        x = cuqi.distribution.LMRF(loc, scale, bc_type="zero", geometry=n, name="x")
        model = L.linear_model(case["A"], "matrix" if (case["u"] + case["si"]) % 2 else "func")
        y = cuqi.distribution.Gaussian(model(x), name="y", **L.gauss_kwargs(case["noise"]))
        post = cuqi.distribution.JointDistribution(x, y)(y=L.inp(case["y"]))
    except Exception as e:
        ctx.mismatch(_sig(case, "build", "error"), case, "posterior with LMRF prior cannot be built: %r" % (e,))
        return
    D = np.asarray(x._diff_op.get_matrix().todense(), dtype=float) if hasattr(x, "_diff_op") else None
    if D is not None and not np.array_equal(D, L.inp(case["D"])):
        raise L.MachineryError("LMRF difference operator is not the zero-boundary first-order stencil assumed by the spec (see C20)")
    # the samplers are CONSTRUCTED at another point (other differences D z, hence other weights) and only then moved to
    # x_k: the local Gaussian must be the one "at the current state", not the one at the initial point
    x_init = xk + np.arange(1.0, n + 1.0)
    ifaces = [("experimental", lambda: _exp_sampler(cuqi.experimental.mcmc.UGLA, post, x_init, beta=beta), _exp_draw),
              ("legacy", lambda: cuqi.sampler.UGLA(post, x0=x_init.copy(), maxit=MAXIT, tol=TOL, beta=beta), _legacy_draw)]
    for iface, make, mkdraw in ifaces:
        try:
            s = make()
            off, T, N = L.affine_readoff(mkdraw(s, xk))
        except L.ScriptError as e:
            ctx.mismatch(_sig(case, iface, "draws"), case, "transition does not consume exactly one standard-normal vector: %s" % e)
            continue
        except Exception as e:
            ctx.mismatch(_sig(case, iface, "error"), case, "UGLA refuses / crashes on a documented configuration: %r" % (e,))
            continue
        ctx.case(("ugla", iface, _sig(case, iface, "")), facet="ugla/%s" % iface)
        C = T @ T.T
        chosen = None
        for v in variants:
            if L.rel_err(C, L.qnp(v["LamInv_q"]), scale=1e-3) <= RTOL:
                chosen = v
                break
        if chosen is None:
            ctx.mismatch(_sig(case, iface, "cov"), case, "covariance of the UGLA step is not the covariance (A^T P A + D^T W D / s)^-1 of the "
                         "local Gaussian approximation at the current state", expected=[L.qnp(v["LamInv_q"]) for v in variants], observed=C)
            chosen = variants[0]
        else:
            ctx.observations.setdefault("ugla_weights_evaluated_at", {})["x_k - location" if chosen["wv"] == 1 and len(variants) > 1 else "x_k"] = True
        mu = L.qnp(chosen["mu_q"])
        if L.rel_err(off, mu) > RTOL:
            ctx.mismatch(_sig(case, iface, "offset"), case, "UGLA step for perturbation 0 is not the mean of the local Gaussian approximation "
                         "(likelihood x N(location, s (D^T W D)^-1)) at the current state", expected=mu, observed=off)


# --------------------------------------------------------------------------------------------------------------
def _deviations(ctx, names):
    """Named deviations: TLC must refute each one on the specification (non-vacuity of the invariants)."""
    from cuqiverif.core import MachineryError
    from cuqiverif import tlc
    for name, inv in names:
        res = ctx.tlc("LinGauss", cfg="LinGauss.dev_%s.cfg" % name, workers=1, timeout=600, expect_violation=True)
        if res.violated != inv:
            raise MachineryError("deviation %s: expected TLC to violate %s, got %r (vacuous invariant?)" % (name, inv, res.violated))
        ctx.observations.setdefault("deviations_refuted_by_tlc", {})[name] = inv
        tlc.cleanup(res)


def run(ctx):
    from cuqiverif import c06_seq
    seq_jobs = c06_seq.start_tlc(ctx)          # LinGaussSeq (pairs of configurations, one sampler object), in background threads
    try:
        _run(ctx, seq_jobs)
    except BaseException:
        c06_seq.discard_tlc(seq_jobs)          # (no-op for runs already collected)
        raise


def _run(ctx, seq_jobs):
    from cuqiverif.core import MachineryError
    from cuqiverif import tlc, c06_seq
    res = ctx.tlc("LinGauss", cfg="LinGauss.rto.%s.cfg" % ctx.tier, workers=16, timeout=1500)
    ctx.model_must_hold(res, "LinGauss.rto")
    rto_cases = res.cases
    tlc.cleanup(res)
    res = ctx.tlc("LinGauss", cfg="LinGauss.ugla.%s.cfg" % ctx.tier, workers=16, timeout=1500)
    ctx.model_must_hold(res, "LinGauss.ugla")
    ugla_cases = res.cases
    tlc.cleanup(res)
    if not rto_cases or not ugla_cases:
        raise MachineryError("no cases emitted by LinGauss (rto %d, ugla %d)" % (len(rto_cases), len(ugla_cases)))
    devs = [("UglaRhsUnscaled", "UglaStepIsLocalGaussianDraw"), ("PriorMeanNotWhitened", "RtoNormalEquations")]
    if ctx.tier == "thorough":
        devs += [("NoiseSqrtNotTransposed", "RtoNormalEquations"), ("StackOrderSwapped", "RtoStepIsPosteriorDraw")]
    _deviations(ctx, devs)
    for c in rto_cases:
        check_rto(ctx, c)
    groups = {}
    for c in ugla_cases:
        groups.setdefault(_ugla_key(c), []).append(c)
    for key in sorted(groups):
        check_ugla(ctx, sorted(groups[key], key=lambda c: c["wv"]))
    ctx.traces = len(rto_cases) + len(groups)
    c06_seq.run(ctx, seq_jobs)                  # sequences on ONE sampler object (target switched, maxit / tol / beta / x0 reassigned)
    ntr = ctx.traces
    two = [c for c in rto_cases if c["nl"] == 2]
    for c in (rto_cases[0], two[0] if two else rto_cases[-1]):
        ctx.sample({"case": {k: c[k] for k in ("kind", "n", "m", "A", "y", "noise", "prior", "Lam", "rhs", "mu_q", "LamInv_q")}})
    c = ugla_cases[len(ugla_cases) // 2]
    ctx.sample({"case": {k: c[k] for k in ("kind", "n", "m", "A", "y", "noise", "xk", "loc", "beta_q", "scale_q", "w_q", "mu_q", "LamInv_q")}})
    ctx.rule = ("one case per configuration emitted by TLC from LinGauss.tla (parts rto, ugla) with exact Lambda, rhs, mu_post, Lambda^-1; "
                "non-trivial = distinct (configuration, sampler interface, current state) affine read-off or stacked-operator check")
    ctx.exhaustive = True
    ctx.traces = ntr
    ctx.assumptions += ["inner CGLS with maxit=%d, tol=%g counts as 'run to convergence'" % (MAXIT, TOL),
                        "sqrtcov convention cov = S S^T (code and tests/test_distribution.py; the docstring says S^T S)",
                        "sizes and the integer/dyadic lattice bounded by LinGauss.*.cfg",
                        "UGLA local Gaussian: prior block N(location, scale (D^T W D)^-1), W from the UGLA paper / Lk_fun docstring comment"]


def replay(ctx, case):
    if case.get("kind") == "model":
        return run(ctx)
    if case.get("kind") in ("rtoseq", "uglaseq"):
        from cuqiverif import c06_seq
        return c06_seq.replay(ctx, case)
    if case.get("kind") == "rto":
        return check_rto(ctx, case)
    if case.get("kind") == "ugla":
        # re-emit the sibling variant (other evaluation point of the weights) from TLC to stay spec-driven
        from cuqiverif import tlc
        res = ctx.tlc("LinGauss", cfg="LinGauss.ugla.thorough.cfg", workers=16, timeout=1500)
        vs = [c for c in res.cases if _ugla_key(c) == _ugla_key(case)] or [case]
        tlc.cleanup(res)
        return check_ugla(ctx, sorted(vs, key=lambda c: c["wv"]))
