"""C06 - Linear RTO draws are exact Gaussian posterior draws; UGLA draws are exact draws from the local Gaussian.

Spec: specs/LinGauss.tla, parts "rto" and "ugla".  TLC enumerates the configurations (sizes, 1..2 likelihoods, every
Gaussian input form for noise and prior, GMRF and stacked priors, scalar / vector means, matrix / function models),
checks on the specification that the stacked whitened operator satisfies M^T M = Lambda, M^T b~ = Lambda mu_post,
that one RTO transition from EVERY current state equals mu_post + Lambda^-1 M^T e and reproduces Lambda^-1, and emits
the exact integers / rationals.  This module builds the real posteriors, scripts the standard-normal perturbation
to 0 and to the unit vectors, performs ONE transition of the real samplers from different current states and compares
offset and covariance with TLC's numbers; it also applies the stacked operator the sampler built, in both directions.
Part "hard" of the spec (ill-conditioned instances on which floating-point CGLS needs more than n iterations): see the
section "ILL-CONDITIONED instances" below.
"""
META = {
    "claimed": True,
    "engine": "LinGauss.tla",
    "text": ("TLC checks on every configuration of the bounded instance (A up to 3x3 under/over-determined, 1-2 likelihoods, "
             "16 input forms of each Gaussian, GMRF order 0-2 and stacked sqrt-precision priors, scalar/vector means) that the "
             "stacked whitened least-squares problem has normal matrix Lambda and right-hand side Lambda*mu_post, that one RTO "
             "transition from every reachable state (two successive draws) is mu_post + Lambda^-1 M^T e, that its covariance is "
             "Lambda^-1, and for UGLA that the draw is the documented local Gaussian N(Lambda(x_k)^-1 rhs, Lambda(x_k)^-1) on "
             "perfect-square lattices; named deviations are refuted by TLC.  The harness replays every emitted configuration "
             "into cuqi.experimental.mcmc.LinearRTO/UGLA and cuqi.sampler.LinearRTO/UGLA (incl. the 5-tuple form) with "
             "scripted normals 0, e_i from two current states and compares offset / covariance / stacked operator (rtol 1e-8).  "
             "Sequences (LinGaussSeq.tla, pairs of configurations): ONE sampler object whose target is replaced as HybridGibbs does "
             "(target = other posterior; reinitialize(); set_state()), whose maxit / tol / beta / x0 are assigned between transitions "
             "and which makes several transitions from wherever it is: every transition is the exact draw of the posterior installed NOW "
             "(invariant SeqDrawIsTargetDraw, deviation ReinitKeepsOperator refuted); the legacy 5-tuple is not modified and can be used again.  "
             "Ill-conditioned instances (LinGauss.tla part hard: one scalar datum with noise standard deviation 2^-20 / 2^-16, prior from the same "
             "catalogue, a diagonal prior with 8 (6-12) distinct precisions, or the UGLA local Gaussian; cond(Lambda) 1e10-1e13): mean and covariance "
             "in Kalman form, polynomial identities in the noise precision checked by TLC coefficient by coefficient; the harness first demonstrates "
             "with an independent CGLS that n iterations miss the exact solution by > 1e-4 while the requested setting reaches 1e-8, then requires "
             "both interfaces of LinearRTO (current states zero and far away, successive draws) and UGLA, with maxit / tol handed to the "
             "constructor or assigned afterwards, to reproduce the exact mean / covariance (rtol 1e-6).  "
             "Nested updates (LinGaussMut.tla, EXTENDS LinGauss and reuses the two versions of every input of its part reassign): the target stays the "
             "SAME posterior object, its prior mean / prior parameter / noise parameter / data (UGLA: prior location / scale) are assigned through the "
             "public setters of the nested objects, then sampler.reinitialize() (experimental) or a new sampler for the same object (legacy): every "
             "transition is the exact draw of the values assigned NOW (invariant MutDrawIsCurrentDraw over the state machine MutSet / MutReinit / "
             "MutDraw, deviation ReinitSkipsSameTarget refuted); warm chains through all fields and back, all fields at once, single fields.  "
             "Process history (LinGaussProc.tla): lists of items of DIFFERENT configuration - GMRF on a 1-D grid with k*k nodes and on a k x k grid "
             "of every order, items that differ in ONE parameter (precision, order, n, mean, data, noise, operator, keyword under which the same matrix is "
             "handed in, model kind), bystanders with periodic / neumann boundary, LMRF, CMRF - built, prepared and drawn from in ONE process in every "
             "interleaving (Build / Prep / Draw per item); invariant ItemsIndependent (the draw of an item is the posterior of its OWN configuration), "
             "deviations StructureSharedByDimBcOrder / FactorSharedByFamilyAndSize (a table keyed by a projection of the configuration outlives the "
             "objects) refuted; every behaviour is replayed in a fresh python process and compared with the exact posterior of each item.  "
             "Both sides of the dense / sparse switch (LinGaussThr.tla, EXTENDS LinGauss): the value of the public cuqi.config.MIN_DIM_SPARSE is a "
             "dimension of the configuration - lowered to 0 / 1 / 2 (every noise and prior input form on the sparse side, noise and prior on "
             "different sides) and, untouched, with the configuration replicated block-diagonally 26 / 38 times (dimensions 52 .. 114 across the "
             "real threshold 75; replication law checked by TLC with two copies) - as is the data layout of every input array (int, float32, "
             "column-major, strided view, read-only); invariants ThrWhitening / ThrDrawIsPosteriorDraw / ThrCovariance (the draw does not depend "
             "on WHICH square root of the precision the Gaussian holds on its side), deviations AboveFactorNotTransposed / AboveDiagNotRooted "
             "refuted; the replay is the complete Linear RTO / UGLA replay above, inside the lowered threshold."),
    "note": ("Bounded sizes (n, m <= 3; ill-conditioned part n <= 12, m = 1), precisions on an integer/dyadic lattice; inner CGLS run with maxit=60, tol=1e-13 "
             "('run to convergence'; ill-conditioned part: maxit = 4n+8, tol = 1e-20, comparison 1e-6, kappa = 1/(b + sigma^2) evaluated by the harness "
             "from TLC's exact rationals); RegularizedLinearRTO not covered (not a Gaussian draw); GMRF priors with zero boundary "
             "condition only (the others are documented as inexact); point at which UGLA evaluates its weights (x_k or x_k - "
             "location) is not documented: either is accepted and recorded as an observation; what a sampler draws between an update of its target "
             "and the reinitialisation is not documented (observed only); process-history lists: n <= 4 (2-D grid 2 x 2), one likelihood; fresh process = "
             "forked child of a pristine interpreter that has only imported cuqi and the helpers; threshold part: GMRF / stacked priors do not "
             "depend on the switch (kept as they are), replication for Gaussian priors only, float32 never for the parameters of a Gaussian, "
             "python lists are not documented inputs and not used."),
    "technique": "TLA+ spec (LinGauss) model-checked with TLC; TLC-emitted cases replayed into the real samplers with scripted normals",
}

import numpy as np

MAXIT, TOL = 60, 1e-13
RTOL = 1e-8


def _L():
    from cuqiverif import lingauss_common as L
    return L


def _sig(case, iface, what):
    L = _L()
    # LinGaussThr cases carry the value of cuqi.config.MIN_DIM_SPARSE, the number of replications and the data layout
    thr = ("/thr=%s/rep=%d/lay=%s" % ("default" if case["thr"] == 75 else case["thr"], case.get("rep", 1), case.get("lay", "f64c"))) if "thr" in case else ""
    if case["kind"] == "rto":
        return "rto/%s/%s/nl=%d/n=%d/m=%s/noise=%s/prior=%s/mean=%s/model=%s/A=%d%s" % (
            iface, what, case["nl"], case["n"], "+".join(str(v) for v in case["m"]),
            "+".join(L.form_tag(s) for s in case["noise"]), L.form_tag(case["prior"]), case["mk"], case["mdl"], case["av"], thr)
    s = case["scale_q"]
    return "ugla/%s/%s/loc=%s/scale=%s/n=%d/m=%d/noise=%s/beta=%d_%d/xk=%d%s" % (
        iface, what, case["lk"], ("%d" % s[0]) if s[1] == 1 else "%d_%d" % tuple(s), case["n"], case["m"],
        L.form_tag(case["noise"]), case["beta_q"][0], case["beta_q"][1], case["u"], thr)


# --------------------------------------------------------------------------------------------------------------
# drivers: one transition of each interface with scripted normals
# --------------------------------------------------------------------------------------------------------------
def _exp_sampler(cls, target, x0, **kw):
    s = cls(target, initial_point=np.array(x0, dtype=float), maxit=MAXIT, tol=TOL, **kw)
    s.initialize()
    return s


def _exp_draw(s, x0):
    L = _L()
    name = type(s).__name__

    def draw(items, reset=True):
        if reset:
            s.set_state({"metadata": {"sampler_type": name}, "state": {"current_point": np.array(x0, dtype=float)}})
        with L.scripted({"normal": list(items)}):
            s.step()
        return np.array(s.current_point, dtype=float)
    return draw


def _legacy_draw(s, x0):
    L = _L()

    def draw(items, reset=True):
        s.x0 = np.array(x0, dtype=float)
        with L.scripted({"normal": list(items)}), L.quiet():
            out = s.sample(1 + len(items))
        return np.array(out.samples[:, -1], dtype=float)
    return draw


def _check_affine(ctx, case, iface, draw, mu, cov, state_tag, offsets):
    L = _L()
    try:
        off, T, N = L.affine_readoff(draw)
    except L.ScriptError as e:
        ctx.mismatch(_sig(case, iface, "draws"), case, "transition does not consume exactly one standard-normal vector: %s" % e)
        return None
    ctx.case((case["kind"], iface, state_tag, _sig(case, iface, "")), facet="%s/%s" % (case["kind"], iface))
    if L.rel_err(off, mu) > RTOL:
        ctx.mismatch(_sig(case, iface, "offset"), case, "next state for perturbation 0 is not the mean of the Gaussian the step "
                     "must draw from (current state %s)" % state_tag, expected=mu, observed=off)
    if L.rel_err(T @ T.T, cov, scale=1e-3) > RTOL:
        ctx.mismatch(_sig(case, iface, "cov"), case, "linear part T of the step (next = offset + T e) does not reproduce the "
                     "covariance: T T^T != Lambda^-1 (current state %s)" % state_tag, expected=cov, observed=T @ T.T)
    offsets.append((state_tag, off, T))
    return off, T, N


def _check_state_independence(ctx, case, iface, offsets):
    L = _L()
    if len(offsets) < 2:
        return
    (t0, o0, T0), (t1, o1, T1) = offsets[0], offsets[-1]
    if L.rel_err(o1, o0) > RTOL or T0.shape != T1.shape or L.rel_err(T1, T0) > 1e-7:
        ctx.mismatch(_sig(case, iface, "state"), case, "the draw depends on the current state (%s vs %s)" % (t0, t1),
                     expected={"offset": o0, "T": T0}, observed={"offset": o1, "T": T1})


# --------------------------------------------------------------------------------------------------------------
# Linear RTO
# --------------------------------------------------------------------------------------------------------------
def _states(n):
    return [("zero", np.zeros(n)), ("int", np.array([3.0 * (i + 1) - 5 for i in range(n)]))]


def _check_stacked_operator(ctx, case, iface, s):
    """The operator M the sampler built: flag 2 must be the exact transpose of flag 1; M^T M = Lambda; M^T b~ = rhs."""
    L = _L()
    M = L.require_attr(s, "M")
    bt = np.asarray(L.require_attr(s, "b_tild"), dtype=float)
    n, N = case["n"], len(bt)
    if callable(M):
        fwd = np.array([np.asarray(M(e, 1), dtype=float) for e in np.eye(n)]).T          # N x n
        adj = np.array([np.asarray(M(e, 2), dtype=float) for e in np.eye(N)]).T          # n x N
        apply1, apply2 = (lambda v: np.asarray(M(v, 1), dtype=float)), (lambda v: np.asarray(M(v, 2), dtype=float))
    else:
        fwd = np.asarray(M.todense() if hasattr(M, "todense") else M, dtype=float)
        adj = fwd.T.copy()
        apply1, apply2 = (lambda v: fwd @ v), (lambda v: fwd.T @ v)
    ctx.case(("rto-operator", iface, _sig(case, iface, "")), facet="rto/operator")
    scale = max(1.0, np.abs(fwd).max())
    # exact in floating point when the whitening matrices are dyadic; rounding of a Cholesky / inverse otherwise
    if fwd.shape != (N, n) or adj.shape != (n, N) or np.max(np.abs(adj - fwd.T)) > 1e-12 * scale:
        ctx.mismatch(_sig(case, iface, "adjoint"), case, "stacked operator: flag 2 is not the transpose of flag 1", expected=fwd.T, observed=adj)
    xi = np.array([(2 * i + 1) % 5 - 2 for i in range(n)], dtype=float)
    yi = np.array([(3 * i + 2) % 7 - 3 for i in range(N)], dtype=float)
    lhs, rhs = float(apply1(xi) @ yi), float(xi @ apply2(yi))
    if abs(lhs - rhs) > 1e-12 * max(1.0, abs(lhs), abs(rhs)):
        ctx.mismatch(_sig(case, iface, "adjoint"), case, "<M(x,1), y> != <x, M(y,2)> on integer vectors", expected=lhs, observed=rhs)
    Lam, r = L.inp(case["Lam"]), L.inp(case["rhs"])
    if L.rel_err(fwd.T @ fwd, Lam) > 1e-9:
        ctx.mismatch(_sig(case, iface, "normal"), case, "stacked operator: M^T M is not the posterior precision Lambda", expected=Lam, observed=fwd.T @ fwd)
    if L.rel_err(fwd.T @ bt, r) > 1e-9 and L.rel_err(fwd.T @ fwd, Lam) <= 1e-9:
        ctx.mismatch(_sig(case, iface, "rhs"), case, "stacked data: M^T b~ is not Lambda mu_post", expected=r, observed=fwd.T @ bt)


def check_rto(ctx, case):
    import cuqi
    L = _L()
    mu, cov = L.qnp(case["mu_q"]), L.qnp(case["LamInv_q"])
    n = case["n"]
    try:
        post = L.build_rto_posterior(case)
    except Exception as e:
        ctx.mismatch(_sig(case, "build", "error"), case, "posterior of a documented linear-Gaussian configuration cannot be built: %r" % (e,))
        return
    ifaces = [("experimental", lambda x0: _exp_sampler(cuqi.experimental.mcmc.LinearRTO, post, x0), _exp_draw),
              ("legacy", lambda x0: cuqi.sampler.LinearRTO(post, x0=np.array(x0, dtype=float), maxit=MAXIT, tol=TOL), _legacy_draw)]
    pr = case["prior"]
    if case["nl"] == 1 and pr["kind"] not in ("gmrf", "joint"):
        # 5-tuple input form (data, model, L_sqrtprec, P_mean, P_sqrtprec) of the legacy interface, matrix or LinearModel
        lay = case.get("lay")
        A = L.layout(L.inp(case["A"][0]), lay)
        mdl = A if case["mdl"] == "matrix" else L.linear_model(A, "func")
        tup = (L.layout(L.inp(case["y"][0]), lay), mdl, L.layout(L.inp(case["Ln"][0]), lay, param=True),
               L.layout(L.inp(pr["blocks"][0]["mu"]), lay), L.layout(L.inp(pr["blocks"][0]["L"]), lay, param=True))
        ifaces.append(("legacy5", lambda x0: cuqi.sampler.LinearRTO(tup, x0=np.array(x0, dtype=float), maxit=MAXIT, tol=TOL), _legacy_draw))
    for iface, make, mkdraw in ifaces:
        offsets = []
        try:
            for tag, x0 in _states(n):
                s = make(x0)
                draw = mkdraw(s, x0)
                got = _check_affine(ctx, case, iface, draw, mu, cov, tag, offsets)
                if got is None:
                    break
                if tag == "zero":
                    _check_stacked_operator(ctx, case, iface, s)
                else:
                    # two successive draws: the second one is again mu_post + T e, whatever the first one was
                    off, T, N = got
                    if N >= 2:
                        if iface == "experimental":
                            draw([L.Unit(0)])
                            second = draw([L.Unit(N - 1)], reset=False)
                        else:
                            second = draw([L.Unit(0), L.Unit(N - 1)])
                        if L.rel_err(second, off + T[:, N - 1]) > RTOL:
                            ctx.mismatch(_sig(case, iface, "state"), case, "second of two successive draws depends on the first",
                                         expected=off + T[:, N - 1], observed=second)
            _check_state_independence(ctx, case, iface, offsets)
        except L.MachineryError:
            raise
        except Exception as e:
            ctx.mismatch(_sig(case, iface, "error"), case, "sampler refuses / crashes on a documented linear-Gaussian configuration: %r" % (e,))


# --------------------------------------------------------------------------------------------------------------
# UGLA
# --------------------------------------------------------------------------------------------------------------
def _ugla_key(c):
    return (c["n"], c["m"], c["i1"], c["lk"], c["u"], c["si"], c["bi"])


def check_ugla(ctx, variants):
    """variants: TLC cases of one configuration, one per point at which the weights may be evaluated (wv = 0: x_k,
    wv = 1: x_k - location; the documentation does not say which)."""
    import cuqi
    L = _L()
    case = variants[0]
    n = case["n"]
    xk = L.inp(case["xk"])
    beta = float(L.qval(case["beta_q"]))
    scale = float(L.qval(case["scale_q"]))
    loc = {"zero": 0.0, "scalar": float(case["loc"][0]), "vec": L.inp(case["loc"])}[case["lk"]]
    try:
        x = cuqi.distribution.LMRF(loc, scale, bc_type="zero", geometry=n, name="x")
        model = L.linear_model(case["A"], "matrix" if (case["u"] + case["si"]) % 2 else "func")
        y = cuqi.distribution.Gaussian(model(x), name="y", **L.gauss_kwargs(case["noise"]))
        post = cuqi.distribution.JointDistribution(x, y)(y=L.inp(case["y"]))
    except Exception as e:
        ctx.mismatch(_sig(case, "build", "error"), case, "posterior with LMRF prior cannot be built: %r" % (e,))
        return
    D = np.asarray(x._diff_op.get_matrix().todense(), dtype=float) if hasattr(x, "_diff_op") else None
    if D is not None and not np.array_equal(D, L.inp(case["D"])):
        raise L.MachineryError("LMRF difference operator is not the zero-boundary first-order stencil assumed by the spec (see C20)")
    # the samplers are CONSTRUCTED at another point (other differences D z, hence other weights) and only then moved to
    # x_k: the local Gaussian must be the one "at the current state", not the one at the initial point
    x_init = xk + np.arange(1.0, n + 1.0)
    ifaces = [("experimental", lambda: _exp_sampler(cuqi.experimental.mcmc.UGLA, post, x_init, beta=beta), _exp_draw),
              ("legacy", lambda: cuqi.sampler.UGLA(post, x0=x_init.copy(), maxit=MAXIT, tol=TOL, beta=beta), _legacy_draw)]
    for iface, make, mkdraw in ifaces:
        try:
            s = make()
            off, T, N = L.affine_readoff(mkdraw(s, xk))
        except L.ScriptError as e:
            ctx.mismatch(_sig(case, iface, "draws"), case, "transition does not consume exactly one standard-normal vector: %s" % e)
            continue
        except Exception as e:
            ctx.mismatch(_sig(case, iface, "error"), case, "UGLA refuses / crashes on a documented configuration: %r" % (e,))
            continue
        ctx.case(("ugla", iface, _sig(case, iface, "")), facet="ugla/%s" % iface)
        C = T @ T.T
        chosen = None
        for v in variants:
            if L.rel_err(C, L.qnp(v["LamInv_q"]), scale=1e-3) <= RTOL:
                chosen = v
                break
        if chosen is None:
            ctx.mismatch(_sig(case, iface, "cov"), case, "covariance of the UGLA step is not the covariance (A^T P A + D^T W D / s)^-1 of the "
                         "local Gaussian approximation at the current state", expected=[L.qnp(v["LamInv_q"]) for v in variants], observed=C)
            chosen = variants[0]
        else:
            ctx.observations.setdefault("ugla_weights_evaluated_at", {})["x_k - location" if chosen["wv"] == 1 and len(variants) > 1 else "x_k"] = True
        mu = L.qnp(chosen["mu_q"])
        if L.rel_err(off, mu) > RTOL:
            ctx.mismatch(_sig(case, iface, "offset"), case, "UGLA step for perturbation 0 is not the mean of the local Gaussian approximation "
                         "(likelihood x N(location, s (D^T W D)^-1)) at the current state", expected=mu, observed=off)


# --------------------------------------------------------------------------------------------------------------
# ILL-CONDITIONED instances (LinGauss.tla part "hard"): floating-point CGLS needs MORE than n iterations
# --------------------------------------------------------------------------------------------------------------
# Solver setting the USER asks for on these instances: more iterations than unknowns, tiny tolerance.
#   tol:   CGLS stops on the normal residual RELATIVE to the one of the starting point, which contains the factor
#          T = sigma^-2 ~ 1e12 unless the start happens to fit the datum: with tol ~ 1e-15 the rule can be met before the
#          small eigen-directions are resolved (legitimately: the solver did what it was asked).  "Tiny" is therefore 1e-20.
#   maxit: 4 n + 8.  Measured (cuqi.solver.CGLS and the independent CGLS below, every instance / start / perturbation of
#          both tiers): convergence to 1e-8 after at most 3 (n = 2), 5 (n = 3), 10 (n = 6), 17 (n = 8), 30 (n = 12)
#          iterations, i.e. about 2.5 n.  Iterating on for hundreds of steps AFTER convergence is not harmless in floating
#          point (ratios of rounding-level residuals; one instance degraded to 4e-8 after 150 steps), so the user asks for
#          "enough", not for "as many as possible"; no degradation was seen within 40 steps after convergence.
HARD_TOL = 1e-20


def HARD_MAXIT(n):
    return 4 * n + 8


# Comparison tolerance of the ill-conditioned instances.  Measured on the unchanged tree (and with the independent CGLS
# below): a converged double-precision CGLS delivers <= 2e-9 (offset) / <= 2e-8 (T T^T) on every instance and start;
# CGLS stopped after n iterations is off by >= 1e-4.  An instance / start counts only if BOTH margins are >= HARD_GUARD.
HARD_RTOL = 1e-6
HARD_GUARD = 100.0


def _hard_sig(case, iface, what):
    L = _L()
    if case["fam"] == "rto":
        return "hard/rto/%s/%s/n=%d/prior=%s/mean=%s/model=%s/A=%d/noise=%s/se=%d" % (
            iface, what, case["n"], L.form_tag(case["prior"]), case["mk"], case["mdl"], case["av"], case["noise"][0]["form"], case["se"])
    s = case["scale_q"]
    return "hard/ugla/%s/%s/loc=%s/scale=%s/n=%d/A=%d/noise=%s/beta=%d_%d/xk=%d/se=%d" % (
        iface, what, case["lk"], ("%d" % s[0]) if s[1] == 1 else "%d_%d" % tuple(s), case["n"], case["av"],
        case["noise"]["form"], case["beta_q"][0], case["beta_q"][1], case["u"], case["se"])


def _hard_expect(case):
    """Posterior mean / covariance of a `hard` case: TLC's exact Hi = H^-1, v = Hi g, b = g.v, u0, iota and its exact
    rational sigma; only kappa = 1 / (b + sigma^2) is evaluated here (exact fractions; sigma^2 = 4^-se does not fit into
    TLC's 32-bit integers):  mu = u0 + kappa iota v,  cov = Hi - kappa v v^T  (LinGauss.tla, HardKalmanForm)."""
    from fractions import Fraction
    fr = lambda q: Fraction(q[0], q[1])          # noqa: E731
    n = case["n"]
    Hi = [[fr(t) for t in row] for row in case["Hi_q"]]
    v, u0 = [fr(t) for t in case["v_q"]], [fr(t) for t in case["u0_q"]]
    b, iota, sigma = fr(case["b_q"]), fr(case["iota_q"]), fr(case["sigma_q"])
    kappa = 1 / (b + sigma * sigma)
    mu = np.array([float(u0[i] + kappa * iota * v[i]) for i in range(n)])
    cov = np.array([[float(Hi[i][j] - kappa * v[i] * v[j]) for j in range(n)] for i in range(n)])
    return mu, cov


def _hard_stacked(case):
    """The stacked whitened least-squares problem (M, b~) of a `hard` case, assembled from the SPEC's data (never from the
    sampler): data row tau g / tau y, then the prior rows."""
    L = _L()
    tau = float(case["tau"])
    g = L.inp(case["g"])
    if case["fam"] == "rto":
        rows = [np.atleast_2d(L.inp(b["L"])) for b in case["prior"]["blocks"]]
        rhs = [np.atleast_2d(L.inp(b["L"])) @ L.inp(b["mu"]) for b in case["prior"]["blocks"]]
    else:
        f = np.sqrt(1.0 / float(L.qval(case["scale_q"])))
        Dw = f * np.sqrt(L.qnp(case["w_q"]))[:, None] * L.inp(case["D"])
        rows, rhs = [Dw], [Dw @ L.inp(case["loc"])]
    return np.vstack([tau * g[None, :]] + rows), np.concatenate([[tau * float(case["yv"])]] + rhs)


def _plain_cgls(M, b, x0, maxit, tol):
    """Independent Hestenes-Stiefel CGLS (dense numpy), used ONLY by the vacuity guard.  Returns the list of iterates."""
    x = np.array(x0, dtype=float)
    r = b - M @ x
    s = M.T @ r
    p = s.copy()
    norms0 = np.linalg.norm(s)
    gamma = norms0 ** 2
    its = []
    for _ in range(int(maxit)):
        q = M @ p
        delta = float(q @ q)
        if delta == 0 or gamma == 0:
            break
        alpha = gamma / delta
        x = x + alpha * p
        r = r - alpha * q
        s = M.T @ r
        g1, gamma = gamma, float(s @ s)
        p = s + (gamma / g1) * p
        its.append(x.copy())
        if np.sqrt(gamma) <= tol * norms0:
            break
    return its


def _hard_guard(ctx, case, x0, mu, cov, maxit, tag):
    """Vacuity guard for one (instance, starting point).  Runs the independent CGLS on the spec's stacked system for the
    perturbations 0, e_1 .. e_N and returns True iff (a) stopped after n = len(x0) iterations it misses the exact offset by
    more than HARD_GUARD * HARD_RTOL, and (b) run with the user's setting it reaches offset and covariance to better than
    HARD_RTOL / HARD_GUARD.  (a) false: the instance is not hard (nothing to learn); (b) false: double precision cannot
    deliver the comparison tolerance (asserting it would be a false alarm)."""
    L = _L()
    M, bt = _hard_stacked(case)
    N, n = M.shape
    fam = case["fam"] + ("/" + case["pk"] if case["fam"] == "rto" else "")
    obs = ctx.observations.setdefault("hard_guard", {}).setdefault(fam, {"counted": 0, "not_hard": 0, "not_attainable": 0, "n": [], "iterations_needed": [],
                                                                         "err_after_n_min": None, "err_converged_max": 0.0, "cov_err_converged_max": 0.0})
    sols_n, sols_c, need = [], [], None
    for q in range(N + 1):
        e = np.zeros(N)
        if q:
            e[q - 1] = 1.0
        its = _plain_cgls(M, bt + e, x0, maxit, HARD_TOL)
        if len(its) <= n:
            sols_n.append(its[-1] if its else np.array(x0, dtype=float)); sols_c.append(sols_n[-1])
        else:
            sols_n.append(its[n - 1]); sols_c.append(its[-1])
        if q == 0:
            errs = [L.rel_err(t, mu) for t in its]
            need = next((i + 1 for i, v in enumerate(errs) if v <= HARD_RTOL / HARD_GUARD), None)
    err_n = L.rel_err(sols_n[0], mu)
    err_c = L.rel_err(sols_c[0], mu)
    Tc = np.array([t - sols_c[0] for t in sols_c[1:]]).T
    cov_c = L.rel_err(Tc @ Tc.T, cov, scale=1e-3)
    if not (err_c <= HARD_RTOL / HARD_GUARD and cov_c <= HARD_RTOL / HARD_GUARD):
        obs["not_attainable"] += 1
        return False
    if not (err_n > HARD_GUARD * HARD_RTOL and need is not None and need > n):
        obs["not_hard"] += 1
        return False
    obs["counted"] += 1
    if n not in obs["n"]:
        obs["n"].append(n)
    if need not in obs["iterations_needed"]:
        obs["iterations_needed"] = sorted(obs["iterations_needed"] + [need])
    obs["err_after_n_min"] = err_n if obs["err_after_n_min"] is None else min(obs["err_after_n_min"], err_n)
    obs["err_converged_max"] = max(obs["err_converged_max"], err_c)
    obs["cov_err_converged_max"] = max(obs["cov_err_converged_max"], cov_c)
    return True


def maxit_of(case):
    return HARD_MAXIT(case["n"])


def _hard_far(n):
    return np.array([50.0 * (-1) ** i * ((i % 3) + 1) for i in range(n)])


def _hard_measured(ctx, fam, e_off, e_cov):
    """largest deviation of the implementation from the exact values on the counted instances (evidence: distance to HARD_RTOL)"""
    m = ctx.observations.setdefault("hard_measured_max_rel_err", {}).setdefault(fam, {"offset": 0.0, "cov": 0.0})
    m["offset"], m["cov"] = max(m["offset"], float(e_off)), max(m["cov"], float(e_cov))


def _hard_compare(ctx, case, iface, draw, mu, cov, tag, offsets):
    L = _L()
    try:
        off, T, N = L.affine_readoff(draw)
    except L.ScriptError as e:
        ctx.mismatch(_hard_sig(case, iface, "draws"), case, "transition does not consume exactly one standard-normal vector: %s" % e)
        return None
    ctx.case(("hard", iface, tag, _hard_sig(case, iface, "")), facet="hard/%s/%s" % (case["fam"], iface.split(".")[0]))
    _hard_measured(ctx, "rto", L.rel_err(off, mu), L.rel_err(T @ T.T, cov, scale=1e-3))
    if L.rel_err(off, mu) > HARD_RTOL:
        ctx.mismatch(_hard_sig(case, iface, "offset"), case, "ill-conditioned instance, inner solver asked to converge (maxit = %d, tol = %g): next state for "
                     "perturbation 0 is not the posterior mean (current state %s)" % (maxit_of(case), HARD_TOL, tag), expected=mu, observed=off)
    if L.rel_err(T @ T.T, cov, scale=1e-3) > HARD_RTOL:
        ctx.mismatch(_hard_sig(case, iface, "cov"), case, "ill-conditioned instance, inner solver asked to converge (maxit = %d, tol = %g): linear part T of "
                     "the step does not reproduce the covariance, T T^T != Lambda^-1 (current state %s)" % (maxit_of(case), HARD_TOL, tag),
                     expected=cov, observed=T @ T.T)
    offsets.append((tag, off, T))
    return off, T, N


def check_hard_rto(ctx, case):
    """Linear RTO on an ill-conditioned posterior.  Both interfaces, solver setting handed to the constructor and assigned to
    the public attributes of an existing sampler; current states zero and far away; successive transitions."""
    import cuqi
    L = _L()
    mu, cov = _hard_expect(case)
    n = case["n"]
    maxit = HARD_MAXIT(n)
    states = [(tag, x0) for tag, x0 in (("zero", np.zeros(n)), ("far", _hard_far(n))) if _hard_guard(ctx, case, x0, mu, cov, maxit, tag)]
    if not states:
        return 0
    try:
        post = L.build_rto_posterior(case)
    except Exception as e:
        ctx.mismatch(_hard_sig(case, "build", "error"), case, "posterior of a documented linear-Gaussian configuration cannot be built: %r" % (e,))
        return 0

    def exp_ctor(x0):
        s = cuqi.experimental.mcmc.LinearRTO(post, initial_point=np.array(x0, dtype=float), maxit=maxit, tol=HARD_TOL)
        s.initialize()
        return s

    def exp_assigned(x0):
        s = cuqi.experimental.mcmc.LinearRTO(post, initial_point=np.array(x0, dtype=float))      # default maxit / tol
        s.initialize()
        s.maxit, s.tol = maxit, HARD_TOL                                                             # public attributes
        return s

    def leg_ctor(x0):
        return cuqi.sampler.LinearRTO(post, x0=np.array(x0, dtype=float), maxit=maxit, tol=HARD_TOL)

    def leg_assigned(x0):
        s = cuqi.sampler.LinearRTO(post, x0=np.array(x0, dtype=float))
        s.maxit, s.tol = maxit, HARD_TOL
        return s

    for iface, make, mkdraw in (("experimental", exp_ctor, _exp_draw), ("experimental.assigned", exp_assigned, _exp_draw),
                                ("legacy", leg_ctor, _legacy_draw), ("legacy.assigned", leg_assigned, _legacy_draw)):
        offsets = []
        try:
            for tag, x0 in states:
                if iface.endswith(".assigned") and tag != states[-1][0]:
                    continue
                s = make(x0)
                draw = mkdraw(s, x0)
                got = _hard_compare(ctx, case, iface, draw, mu, cov, tag, offsets)
                if got is None:
                    break
                off, T, N = got
                if tag == states[-1][0] and N >= 2 and not iface.endswith(".assigned"):
                    # two successive transitions of one object, the second one from wherever the first one ended
                    if iface == "experimental":
                        draw([L.Unit(0)])
                        second = draw([L.Unit(N - 1)], reset=False)
                    else:
                        second = draw([L.Unit(0), L.Unit(N - 1)])
                    if L.rel_err(second, off + T[:, N - 1]) > 2 * HARD_RTOL:
                        ctx.mismatch(_hard_sig(case, iface, "state"), case, "ill-conditioned instance: second of two successive draws depends on the first",
                                     expected=off + T[:, N - 1], observed=second)
            if len(offsets) >= 2:
                (t0, o0, T0), (t1, o1, T1) = offsets[0], offsets[-1]
                if L.rel_err(o1, o0) > 2 * HARD_RTOL or T0.shape != T1.shape or L.rel_err(T1 @ T1.T, T0 @ T0.T, scale=1e-3) > 2 * HARD_RTOL:
                    ctx.mismatch(_hard_sig(case, iface, "state"), case, "ill-conditioned instance: the draw depends on the current state (%s vs %s)" % (t0, t1),
                                 expected={"offset": o0, "TTt": T0 @ T0.T}, observed={"offset": o1, "TTt": T1 @ T1.T})
        except L.MachineryError:
            raise
        except Exception as e:
            ctx.mismatch(_hard_sig(case, iface, "error"), case, "sampler refuses / crashes on a documented linear-Gaussian configuration: %r" % (e,))
    return len(states)


def _hard_ugla_key(c):
    return (c["n"], c["av"], c["lk"], c["u"], c["si"], c["bi"], c["se"])


def check_hard_ugla(ctx, variants):
    """UGLA on an ill-conditioned local Gaussian (variants: one TLC case per point at which the weights may be evaluated)."""
    import cuqi
    L = _L()
    case = variants[0]
    n = case["n"]
    maxit = HARD_MAXIT(n)
    xk = L.inp(case["xk"])
    beta = float(L.qval(case["beta_q"]))
    scale = float(L.qval(case["scale_q"]))
    loc = {"zero": 0.0, "scalar": float(case["loc"][0]), "vec": L.inp(case["loc"])}[case["lk"]]
    exps = [_hard_expect(v) for v in variants]
    hard = [_hard_guard(ctx, v, xk, e[0], e[1], maxit, "xk") for v, e in zip(variants, exps)]
    if not any(hard):
        return 0
    try:
        x = cuqi.distribution.LMRF(loc, scale, bc_type="zero", geometry=n, name="x")
        model = L.linear_model([case["g"]], "matrix" if (case["u"] + case["si"]) % 2 else "func")
        y = cuqi.distribution.Gaussian(model(x), name="y", **L.gauss_kwargs(case["noise"]))
        post = cuqi.distribution.JointDistribution(x, y)(y=L.inp(case["y"]))
    except Exception as e:
        ctx.mismatch(_hard_sig(case, "build", "error"), case, "posterior with LMRF prior cannot be built: %r" % (e,))
        return 0
    D = np.asarray(x._diff_op.get_matrix().todense(), dtype=float) if hasattr(x, "_diff_op") else None
    if D is not None and not np.array_equal(D, L.inp(case["D"])):
        raise L.MachineryError("LMRF difference operator is not the zero-boundary first-order stencil assumed by the spec (see C20)")
    x_init = xk + np.arange(1.0, n + 1.0)        # constructed elsewhere, then moved to x_k (as check_ugla)

    def exp_ctor():
        s = cuqi.experimental.mcmc.UGLA(post, initial_point=x_init.copy(), maxit=maxit, tol=HARD_TOL, beta=beta)
        s.initialize()
        return s

    def exp_assigned():
        s = cuqi.experimental.mcmc.UGLA(post, initial_point=x_init.copy(), beta=beta)
        s.initialize()
        s.maxit, s.tol = maxit, HARD_TOL
        return s

    def leg_ctor():
        return cuqi.sampler.UGLA(post, x0=x_init.copy(), maxit=maxit, tol=HARD_TOL, beta=beta)

    def leg_assigned():
        s = cuqi.sampler.UGLA(post, x0=x_init.copy(), beta=beta)
        s.maxit, s.tol = maxit, HARD_TOL
        return s

    for iface, make, mkdraw in (("experimental", exp_ctor, _exp_draw), ("experimental.assigned", exp_assigned, _exp_draw),
                                ("legacy", leg_ctor, _legacy_draw), ("legacy.assigned", leg_assigned, _legacy_draw)):
        try:
            s = make()
            off, T, N = L.affine_readoff(mkdraw(s, xk))
        except L.ScriptError as e:
            ctx.mismatch(_hard_sig(case, iface, "draws"), case, "transition does not consume exactly one standard-normal vector: %s" % e)
            continue
        except Exception as e:
            ctx.mismatch(_hard_sig(case, iface, "error"), case, "UGLA refuses / crashes on a documented configuration: %r" % (e,))
            continue
        C = T @ T.T
        chosen = None
        for i, v in enumerate(variants):
            if L.rel_err(C, exps[i][1], scale=1e-3) <= HARD_RTOL:
                chosen = i
                break
        if chosen is not None and not hard[chosen]:
            continue                                  # the variant the implementation follows is not a hard instance: nothing asserted
        ctx.case(("hard", iface, _hard_sig(case, iface, "")), facet="hard/ugla/%s" % iface.split(".")[0])
        if chosen is None:
            ctx.mismatch(_hard_sig(case, iface, "cov"), case, "ill-conditioned instance, inner solver asked to converge (maxit = %d, tol = %g): covariance of the "
                         "UGLA step is not the covariance of the local Gaussian approximation at the current state" % (maxit_of(case), HARD_TOL),
                         expected=[e[1] for e in exps], observed=C)
            chosen = 0
        _hard_measured(ctx, "ugla", L.rel_err(off, exps[chosen][0]), L.rel_err(C, exps[chosen][1], scale=1e-3))
        if L.rel_err(off, exps[chosen][0]) > HARD_RTOL:
            ctx.mismatch(_hard_sig(case, iface, "offset"), case, "ill-conditioned instance, inner solver asked to converge (maxit = %d, tol = %g): UGLA step for "
                         "perturbation 0 is not the mean of the local Gaussian approximation at the current state" % (maxit_of(case), HARD_TOL),
                         expected=exps[chosen][0], observed=off)
    return 1


def _hard_wd(label):
    import os
    from cuqiverif import tlc
    return os.path.join(tlc.WORK, "LinGauss-c06-hard-%s-%d" % (label, os.getpid()))


def _start_hard_tlc(ctx):
    """the two TLC runs of part hard, in background threads (explicit work directories, as c06_seq.start_tlc)"""
    import concurrent.futures
    pool = concurrent.futures.ThreadPoolExecutor(max_workers=2)
    jobs = {"hard": pool.submit(ctx.tlc, "LinGauss", cfg="LinGauss.hard.%s.cfg" % ctx.tier, workers=4, timeout=1500, workdir=_hard_wd("main")),
            "dev": pool.submit(ctx.tlc, "LinGauss", cfg="LinGauss.dev_hard_PriorMeanNotWhitened.cfg", workers=1, timeout=600,
                               expect_violation=True, workdir=_hard_wd("dev"))}
    pool.shutdown(wait=False)
    return jobs


def _discard_hard_tlc(jobs):
    from cuqiverif import tlc
    for f in jobs.values():
        try:
            tlc.cleanup(f.result())
        except BaseException:      # noqa: BLE001
            pass
    for label in ("main", "dev"):
        tlc.cleanup(_hard_wd(label))


def _run_hard(ctx, jobs):
    """part `hard` of LinGauss.tla: TLC (+ one named deviation), vacuity guard, replay."""
    from cuqiverif.core import MachineryError
    from cuqiverif import tlc
    try:
        res, dev = jobs["hard"].result(), jobs["dev"].result()
    except BaseException:
        _discard_hard_tlc(jobs)
        raise
    ctx.model_must_hold(res, "LinGauss.hard")
    cases = [c for c in res.cases if c.get("kind") == "hard"]
    tlc.cleanup(res)
    tlc.cleanup(dev)
    if dev.ok or dev.violated != "HardNormalEquations":
        raise MachineryError("deviation PriorMeanNotWhitened (part hard): expected TLC to violate HardNormalEquations, got %r" % (dev.violated,))
    ctx.observations.setdefault("deviations_refuted_by_tlc", {})["hard/PriorMeanNotWhitened"] = "HardNormalEquations"
    rto = [c for c in cases if c["fam"] == "rto"]
    groups = {}
    for c in cases:
        if c["fam"] == "ugla":
            groups.setdefault(_hard_ugla_key(c), []).append(c)
    if not rto or not groups:
        raise MachineryError("no ill-conditioned cases emitted by LinGauss part hard (rto %d, ugla %d)" % (len(rto), len(groups)))
    done = 0
    for c in rto:
        done += 1 if check_hard_rto(ctx, c) else 0
    for key in sorted(groups):
        done += check_hard_ugla(ctx, sorted(groups[key], key=lambda c: c["wv"]))
    g = ctx.observations.get("hard_guard", {})
    if not ctx.violations:
        for fam in ("rto/cat", "rto/diag", "ugla"):
            if g.get(fam, {}).get("counted", 0) == 0:
                raise MachineryError("vacuous: no ill-conditioned instance of family %s passed the guard (CGLS with maxit = n misses by > %g, "
                                     "converged CGLS within %g): %r" % (fam, HARD_GUARD * HARD_RTOL, HARD_RTOL / HARD_GUARD, g.get(fam)))
        if g["rto/diag"]["iterations_needed"] and max(g["rto/diag"]["iterations_needed"]) <= 10:
            raise MachineryError("vacuous: no instance needs more than 10 CGLS iterations (the default maxit of LinearRTO): %r" % (g["rto/diag"],))
    ctx.traces += done
    big = [c for c in rto if c["pk"] == "diag"]
    for c in (rto[0], big[0] if big else rto[-1]):
        ctx.sample({"case": {k: c[k] for k in ("kind", "fam", "n", "se", "g", "yv", "sigma_q", "prior", "Hi_q", "u0_q", "v_q", "b_q", "iota_q")}})
    ctx.assumptions += ["ill-conditioned instances (part hard): 'run to convergence' = maxit = 4 n + 8 (CGLS needs about 2.5 n there), tol = %g; comparison tolerance %g relative "
                        "(converged double-precision CGLS measured <= %g, CGLS stopped after n iterations >= %g on every counted instance)"
                        % (HARD_TOL, HARD_RTOL, HARD_RTOL / HARD_GUARD, HARD_GUARD * HARD_RTOL),
                        "part hard: TLC supplies Hi, v, b, u0, iota and the rational sigma exactly; the replayer evaluates kappa = 1/(b + sigma^2) "
                        "with exact fractions (sigma^2 = 4^-se exceeds 32 bit)"]


# --------------------------------------------------------------------------------------------------------------
def _deviations(ctx, names):
    """Named deviations: TLC must refute each one on the specification (non-vacuity of the invariants)."""
    from cuqiverif.core import MachineryError
    from cuqiverif import tlc
    for name, inv in names:
        res = ctx.tlc("LinGauss", cfg="LinGauss.dev_%s.cfg" % name, workers=1, timeout=600, expect_violation=True)
        if res.violated != inv:
            raise MachineryError("deviation %s: expected TLC to violate %s, got %r (vacuous invariant?)" % (name, inv, res.violated))
        ctx.observations.setdefault("deviations_refuted_by_tlc", {})[name] = inv
        tlc.cleanup(res)


def run(ctx):
    from cuqiverif import c06_seq, c06_mut, c06_proc, c06_thr
    thr_jobs = c06_thr.start_tlc(ctx)          # LinGaussThr (both sides of cuqi.config.MIN_DIM_SPARSE, replications across 75, data layouts), in background threads
    seq_jobs = c06_seq.start_tlc(ctx)          # LinGaussSeq (pairs of configurations, one sampler object), in background threads
    hard_jobs = _start_hard_tlc(ctx)           # LinGauss part hard (ill-conditioned instances), in background threads
    proc_jobs = c06_proc.start_tlc(ctx)        # LinGaussProc (process history) + every behaviour in its own fresh process, in background threads
    mut_jobs = c06_mut.start_tlc(ctx)          # LinGaussMut (nested objects of ONE target updated through public setters), in background threads
    try:
        _run(ctx, seq_jobs, hard_jobs, mut_jobs, proc_jobs, thr_jobs)
    except BaseException:
        c06_thr.discard_tlc(thr_jobs)
        c06_seq.discard_tlc(seq_jobs)          # (no-op for runs already collected)
        _discard_hard_tlc(hard_jobs)
        c06_mut.discard_tlc(mut_jobs)
        c06_proc.discard_tlc(proc_jobs)
        raise


def _run(ctx, seq_jobs, hard_jobs, mut_jobs, proc_jobs, thr_jobs):
    from cuqiverif.core import MachineryError
    from cuqiverif import tlc, c06_seq, c06_mut, c06_proc, c06_thr
    res = ctx.tlc("LinGauss", cfg="LinGauss.rto.%s.cfg" % ctx.tier, workers=16, timeout=1500)
    ctx.model_must_hold(res, "LinGauss.rto")
    rto_cases = res.cases
    tlc.cleanup(res)
    res = ctx.tlc("LinGauss", cfg="LinGauss.ugla.%s.cfg" % ctx.tier, workers=16, timeout=1500)
    ctx.model_must_hold(res, "LinGauss.ugla")
    ugla_cases = res.cases
    tlc.cleanup(res)
    if not rto_cases or not ugla_cases:
        raise MachineryError("no cases emitted by LinGauss (rto %d, ugla %d)" % (len(rto_cases), len(ugla_cases)))
    devs = [("UglaRhsUnscaled", "UglaStepIsLocalGaussianDraw"), ("PriorMeanNotWhitened", "RtoNormalEquations")]
    if ctx.tier == "thorough":
        devs += [("NoiseSqrtNotTransposed", "RtoNormalEquations"), ("StackOrderSwapped", "RtoStepIsPosteriorDraw")]
    _deviations(ctx, devs)
    for c in rto_cases:
        check_rto(ctx, c)
    groups = {}
    for c in ugla_cases:
        groups.setdefault(_ugla_key(c), []).append(c)
    for key in sorted(groups):
        check_ugla(ctx, sorted(groups[key], key=lambda c: c["wv"]))
    ctx.traces = len(rto_cases) + len(groups)
    c06_thr.run(ctx, thr_jobs)                  # the same replay on the sparse side of the dense / sparse switch, across the real threshold, other data layouts
    c06_seq.run(ctx, seq_jobs)                  # sequences on ONE sampler object (target switched, maxit / tol / beta / x0 reassigned)
    c06_mut.run(ctx, mut_jobs)                  # ONE target object updated through the setters of its nested objects, then reinitialize() / new legacy sampler
    c06_proc.run(ctx, proc_jobs)                # several posteriors of different configuration in ONE fresh process, every order / interleaving
    _run_hard(ctx, hard_jobs)                   # ill-conditioned instances: float CGLS needs more than n iterations (part hard)
    ntr = ctx.traces
    two = [c for c in rto_cases if c["nl"] == 2]
    for c in (rto_cases[0], two[0] if two else rto_cases[-1]):
        ctx.sample({"case": {k: c[k] for k in ("kind", "n", "m", "A", "y", "noise", "prior", "Lam", "rhs", "mu_q", "LamInv_q")}})
    c = ugla_cases[len(ugla_cases) // 2]
    ctx.sample({"case": {k: c[k] for k in ("kind", "n", "m", "A", "y", "noise", "xk", "loc", "beta_q", "scale_q", "w_q", "mu_q", "LamInv_q")}})
    ctx.rule = ("one case per configuration emitted by TLC from LinGauss.tla (parts rto, ugla) with exact Lambda, rhs, mu_post, Lambda^-1; "
                "non-trivial = distinct (configuration, sampler interface, current state) affine read-off or stacked-operator check; "
                "part hard: one case per ill-conditioned configuration, counted only if the vacuity guard (independent CGLS: n iterations miss, requested setting converges) holds; "
                "LinGaussMut: one case per (configuration, path MutSet / MutReinit / MutDraw, interface, assignment reached); "
                "LinGaussProc: one case per (behaviour = order of Build / Prep / Draw events in one fresh process, item, interface)")
    ctx.exhaustive = True
    ctx.traces = ntr
    ctx.assumptions += ["inner CGLS with maxit=%d, tol=%g counts as 'run to convergence'" % (MAXIT, TOL),
                        "sqrtcov convention cov = S S^T (code and tests/test_distribution.py; the docstring says S^T S)",
                        "sizes and the integer/dyadic lattice bounded by LinGauss.*.cfg",
                        "UGLA local Gaussian: prior block N(location, scale (D^T W D)^-1), W from the UGLA paper / Lk_fun docstring comment",
                        "LinGaussMut: values are assigned to post.prior, post.likelihood.distribution, post.likelihood.data (the objects the posterior holds); "
                        "Sampler.reinitialize() 'initializes the sampler again' (docstring) = precomputes from what the target describes then; a setter that "
                        "refuses a value is an accepted outcome; draws between an update and the reinitialisation are observed, not asserted",
                        "LinGaussProc: 2-D GMRF structure [I (x) D1 ; D1 (x) I] ('differences in both horizontal and vertical directions'; C20 Kron2D), "
                        "precision delta (I (x) P1 + P1 (x) I); every behaviour runs in a child forked from a pristine interpreter (only imports done): "
                        "the state of a new interpreter right after `import cuqi`"]


def replay(ctx, case):
    if case.get("kind") == "model":
        return run(ctx)
    if case.get("kind") in ("rtoseq", "uglaseq"):
        from cuqiverif import c06_seq
        return c06_seq.replay(ctx, case)
    if case.get("kind") in ("rtomut", "uglamut"):
        from cuqiverif import c06_mut
        return c06_mut.replay(ctx, case)
    if case.get("kind") == "proc":
        from cuqiverif import c06_proc
        return c06_proc.replay(ctx, case)
    if case.get("kind") in ("rtothr", "uglathr") or (case.get("kind") in ("rto", "ugla") and "thr" in case):
        from cuqiverif import c06_thr
        return c06_thr.replay(ctx, case)
    if case.get("kind") == "rto":
        return check_rto(ctx, case)
    if case.get("kind") == "hard":
        if case["fam"] == "rto":
            return check_hard_rto(ctx, case)
        from cuqiverif import tlc
        res = ctx.tlc("LinGauss", cfg="LinGauss.hard.thorough.cfg", workers=8, timeout=1500)
        vs = [c for c in res.cases if c.get("fam") == "ugla" and _hard_ugla_key(c) == _hard_ugla_key(case)] or [case]
        tlc.cleanup(res)
        return check_hard_ugla(ctx, sorted(vs, key=lambda c: c["wv"]))
    if case.get("kind") == "ugla":
        # re-emit the sibling variant (other evaluation point of the weights) from TLC to stay spec-driven
        from cuqiverif import tlc
        res = ctx.tlc("LinGauss", cfg="LinGauss.ugla.thorough.cfg", workers=16, timeout=1500)
        vs = [c for c in res.cases if _ugla_key(c) == _ugla_key(case)] or [case]
        tlc.cleanup(res)
        return check_ugla(ctx, sorted(vs, key=lambda c: c["wv"]))
