"""C10 - conjugate and direct samplers draw from the exact conditional.

Spec: specs/Conjugate.tla (EXTENDS DiffOps).  TLC explores the state machine Build -> Validate -> ComputeShapeRate ->
Draw of every instance of the bounded model, checks `DrawnIsTarget` (symbolic-log identity between the Gamma drawn from
and the target's own documented density), the consistency of the decision table, and emits for every instance the
exact rational (shape, rate), the expected accept/reject outcome and the scripted chain.  This module realises every
emitted instance with real CUQIpy objects (posterior obtained by conditioning a real JointDistribution), runs
cuqi.experimental.mcmc.Conjugate / ConjugateApprox / Direct and the legacy cuqi.sampler.Conjugate with a scripted
numpy.random.gamma, reads the (shape, scale) arguments handed to the base generator and compares them with TLC's pair
and with the real target's own log-density along the hyper-parameter.
"""
META = {
    "claimed": True,
    "engine": "Conjugate.tla",
    "text": ("TLC checks on every instance of the bounded model (i.i.d. Gaussian dim<=3/8 with cov=1/d or prec=d, optionally "
             "through a linear model; GMRF 1-D n<=5/12 and 2-D n<=3/5, orders 0-2, zero/periodic/neumann; two data/prior "
             "variants; decision table of 6+2 dependence kinds x 5 attributes x gamma dim x occurrences; LMRF and direct rows) "
             "that the Gamma the modelled sampler draws from differs from the target's documented log-density along "
             "d in {1,2,4} by a constant (symbolic logs), that the probing validation equals the documented table, that rejected "
             "rows are exactly the non-conjugate ones, and that the chain is the sequence of generator draws; every row of the "
             "decision table reaches the sampler on four paths (constructor; SetTarget on a sampler constructed without target, "
             "constructed on a supported posterior, stepped on a supported posterior) and the decision must not depend on the "
             "path (DecisionIgnoresHistory); every accepted pair of the table (and numeric Gaussian / GMRF instances) is also "
             "written with a scalar mean broadcast over the geometry, a constant vector, a callable / linear-model mean, "
             "CUQIarray / list data and a vector / matrix scale, and FormIndependent says the Gamma is the one of the full-vector "
             "writing (shape = rank/2 + alpha whatever the length of the mean as given); pairs of configurations on one sampler "
             "(draw, replace data / mean / alpha / beta by assigning a re-conditioned posterior or through the Gamma prior's "
             "public setters, draw) must make the second draw from the second configuration's Gamma (SecondDrawIsNew); seven "
             "named deviations must violate DrawnIsTarget / DecisionIgnoresHistory / FormIndependent / SecondDrawIsNew. Every "
             "emitted instance x path is replayed into the real samplers (both interfaces; target assignment in the "
             "experimental interface, which documents it): arguments of numpy.random.gamma vs TLC's exact (shape, rate), "
             "constant-difference identity against the real target.logd at d=1,2,4, accept/reject outcome, chain values = "
             "scripted draws."),
    "note": ("Bounded sizes and a fixed family of dependence kinds. ConjugateApprox: only the documented rejections and "
             "'chain = draws' are asserted, its approximation error is recorded as an observation. Regularized (implicit) "
             "pairs are not modelled (no density of their own). Rates of periodic/neumann fields are compared up to the "
             "sqrt(eps) diagonal jitter of GMRF.sqrtprec. Legacy rows that are accepted but exact (prec = 2 d, "
             "sqrtprec = sqrt(d)) are observations, not violations. Assigning to the plain `target` attribute of the legacy "
             "classes (no documented setter) is recorded, not asserted; numeric sweep instances take the SetTarget path in the "
             "thorough tier only. Writings of the inputs other than the documented ones may be refused when the target is given "
             "(recorded); ConjugateApprox under other writings / after a change is compared with the same class on the plain "
             "writing / a fresh sampler and with the additivity of the prior parameters (its Gamma is not predicted)."),
    "technique": "TLA+ spec (Conjugate, extends DiffOps) model-checked with TLC; TLC-emitted cases replayed into cuqi samplers with scripted numpy.random.gamma",
}

import contextlib, io, math, os, warnings
from fractions import Fraction

import numpy as np

os.environ.setdefault("TQDM_DISABLE", "1")

TS = (1.0, 2.0, 4.0)          # the three hyper-parameter values of the constant-difference identity


# ----------------------------------------------------------------------------------------------------------------
# helpers
# ----------------------------------------------------------------------------------------------------------------
def _fr(p):
    return Fraction(int(p[0]), int(p[1]))


def _quiet():
    return contextlib.redirect_stdout(io.StringIO())


def _via(c):
    """Path on which the posterior reaches the sampler (Conjugate.tla `via`): ctor | set_none | set_valid | set_stepped."""
    return c.get("via") or "ctor"


def _key(c):
    k = "fam=%s/pd=%d/n=%d/bc=%s/order=%d/attr=%s/dep=%s/gdim=%d/occ=%d/model=%d/v=%d" % (
        c["fam"], c["pd"], c["n"], c["gbc"], c["gorder"], c["attr"] or "-", c["dep"] or "-", c["gdim"], c["occ"],
        c["model"], c["v"])
    # fields added in round 4 appear for the new cases only (signatures of the older cases are unchanged)
    for f, dflt in (("mform", "vector"), ("dform", "ndarray"), ("sform", "scalar")):
        if c.get(f, dflt) != dflt:
            k += "/%s=%s" % (f, c[f])
    if _chg(c) != "none":
        k += "/chg=%s/how=%s" % (c["chg"], c["how"])
    return k if _via(c) == "ctor" else k + "/via=" + _via(c)


def _chg(c):
    """What is replaced between the two draws of a pair of configurations (Conjugate.tla `chg`), 'none' for a single one."""
    return c.get("chg") or "none"


def _is_form(c):
    return c.get("mform", "vector") != "vector" or c.get("dform", "ndarray") != "ndarray" or c.get("sform", "scalar") != "scalar"


def _through_x(c):
    """The mean is a function of a second block x (linear model or callable) that the joint is conditioned on."""
    return c["model"] == 1 or c.get("mform") in ("callable", "model")


def _own_draws(c):
    """The part of the specification's chain drawn after the posterior reached the sampler."""
    return c["chain"][int(c.get("bsteps", 0)):] if c["accept"] else [2, 4]


def _dep_fn(dep):
    """The dependence f(d) as a callable whose only argument is named `d` (the name of the Gamma prior)."""
    if dep == "identity":
        return lambda d: d
    if dep == "reciprocal":
        return lambda d: 1.0 / d
    if dep == "affine":
        return lambda d: d + 1.0
    if dep == "square":
        return lambda d: d * d
    if dep == "twice":
        return lambda d: 2.0 * d
    if dep == "sqrt":
        return lambda d: np.sqrt(d)
    if dep == "rsqrt":
        return lambda d: 1.0 / np.sqrt(d)
    if dep == "none":
        return 1.0
    raise ValueError(dep)


def _geom(c):
    import cuqi
    n = c["n"]
    return cuqi.geometry.Continuous1D(n) if c["pd"] == 1 else cuqi.geometry.Image2D((n, n))


def _mean_arg(c, model=None):
    """mean of the likelihood distribution: fixed vector, linear model, or mu0 + g(d) u."""
    mu0 = np.array(c["mu0"], dtype=float)
    u = np.array(c["u"], dtype=float)
    if model is not None:
        return model
    if c.get("mform") == "scalar":
        # the mean as the specification gives it: one number, broadcast over the geometry of dimension n
        (m0,) = c["meangiven"]
        return float(m0)
    if c["attr"] == "mean":
        f = _dep_fn(c["dep"])
        if callable(f):
            return lambda d: mu0 + f(d) * u
        return mu0 + f * u
    if c["occ"] == 2:
        return lambda d: mu0 + d * u
    return mu0


def _likelihood_dist(c, name, model=None):
    import cuqi
    dim = len(c["b"])
    mean = _mean_arg(c, model)
    f = _dep_fn(c["dep"]) if c["attr"] != "mean" else 1.0
    sform = c.get("sform", "scalar")
    if sform != "scalar" and callable(f):
        # the same scale written as the vector f(d) 1 or the matrix f(d) I
        f0, E = f, (np.ones(dim) if sform == "vector" else np.eye(dim))
        f = lambda d: f0(d) * E
    if c["fam"] == "gaussian":
        attr = "cov" if c["attr"] == "mean" else c["attr"]
        kw = {attr: f, "name": name}
        if model is None or callable(model) and not hasattr(model, "range_geometry"):
            kw["geometry"] = dim
        return cuqi.distribution.Gaussian(mean, **kw)
    if c["fam"] == "gmrf":
        with _quiet():
            return cuqi.distribution.GMRF(mean, f, bc_type=c["gbc"], order=c["gorder"], geometry=_geom(c), name=name)
    if c["fam"] == "lmrf":
        loc = mean if c.get("mform") == "scalar" else np.array(c["mu0"], dtype=float)
        return cuqi.distribution.LMRF(loc, f, bc_type=c["gbc"], geometry=_geom(c), name=name)
    raise ValueError(c["fam"])


def _data_arg(c, dist):
    """The data vector in the representation `dform` of the specification."""
    import cuqi
    b = np.array(c["b"], dtype=float)
    dform = c.get("dform", "ndarray")
    if dform == "cuqiarray":
        return cuqi.array.CUQIarray(b, geometry=dist.geometry)
    if dform == "list":
        return [float(v) for v in b]
    return b


def _prior(c):
    import cuqi
    a, b = float(_fr(c["alpha"])), float(_fr(c["beta"]))
    if c["gdim"] == 1:
        return cuqi.distribution.Gamma(a, b, name="d")
    return cuqi.distribution.Gamma(a, b, geometry=c["gdim"], name="d")


def build_target(c, real):
    """Posterior in d obtained by conditioning a real JointDistribution.

    real = 'pair' : joint(likelihood distribution, d) conditioned on the data
    real = 'hier' : a hierarchical model with a linear forward model and a second hyper-parameter, conditioned on
                    everything but d (constants are folded by the joint distribution)."""
    import cuqi
    b = np.array(c["b"], dtype=float)
    d = _prior(c)
    if _through_x(c):
        Am = np.array(c["A"], dtype=float)
        A = (lambda x: Am @ x) if c.get("mform") == "callable" else cuqi.model.LinearModel(Am)
        x = cuqi.distribution.Gaussian(np.zeros(len(c["xin"])), 1.0, name="x")
        y = _likelihood_dist(c, "y", model=A)
        return cuqi.distribution.JointDistribution(d, x, y)(y=_data_arg(c, y), x=np.array(c["xin"], dtype=float))
    x = _likelihood_dist(c, "x")
    if real == "pair":
        return cuqi.distribution.JointDistribution(x, d)(x=_data_arg(c, x))
    dim = len(b)
    B = ((np.arange(3)[:, None] * 2 + np.arange(dim)[None, :]) % 3 - 1).astype(float)
    s = cuqi.distribution.Gamma(2.0, 0.5, name="s")
    y = cuqi.distribution.Gaussian(cuqi.model.LinearModel(B), prec=lambda s: s, name="y")
    return cuqi.distribution.JointDistribution(d, s, x, y)(y=np.array([1.0, -1.0, 2.0]), x=b, s=2.0)


def _logd(target, t):
    with warnings.catch_warnings():
        warnings.simplefilter("ignore")
        return float(np.asarray(target.logd(np.array([t]))).ravel()[0])


def target_coefficients(target):
    """(coefficient of log d, coefficient of d) of the real target's log-density through d = 1, 2, 4, i.e. the two
    equations of the constant-difference identity  logd(t) - [(a-1) log t - r t] = const  at three points."""
    M = np.array([[math.log(t), t, 1.0] for t in TS])
    v = np.array([_logd(target, t) for t in TS])
    co = np.linalg.solve(M, v)
    return co[0], co[1], v


def _sampler_classes():
    import cuqi
    from cuqiverif.core import MachineryError
    try:
        return {"exp": cuqi.experimental.mcmc.Conjugate, "legacy": cuqi.sampler.Conjugate,
                "exp_approx": cuqi.experimental.mcmc.ConjugateApprox, "legacy_approx": cuqi.sampler.ConjugateApprox,
                "direct": cuqi.experimental.mcmc.Direct}
    except AttributeError as e:
        raise MachineryError("sampler class missing: %s" % e)


def run_sampler(iface, target, init, draws, via="ctor", base_target=None, basedraw=5):
    """Hand `target` to a sampler on the path `via` and make len(draws) steps with numpy.random.gamma scripted to return
    `draws`.
      ctor         the constructor is given `target`
      set_none     a sampler constructed without target, then `sampler.target = target`
      set_valid    a sampler constructed on the supported posterior `base_target`, then `sampler.target = target`
      set_stepped  as set_valid with one step (draw `basedraw`) on `base_target` before the assignment
    Returns dict(stage=None|'base'|'construct'|'step', error=..., gammas=[(shape, rate)], chain=[...]); 'construct' = refused
    when the target was given (constructor or assignment); base_gammas / base_chain belong to the step on `base_target`."""
    from cuqiverif import script_rng
    from cuqiverif.core import MachineryError
    cls = _sampler_classes()[iface]
    out = {"stage": None, "error": None, "gammas": [], "chain": [], "returned": [], "base_gammas": [], "base_chain": []}
    exp = iface.startswith("exp")
    nb = 1 if via == "set_stepped" else 0
    if via != "ctor" and not exp and via == "set_none":
        raise MachineryError("the legacy samplers have no constructor without target")

    def read_log(log):
        g = []
        for fn, kind, shape, args in log:
            if kind != "gamma":
                raise MachineryError("unexpected random draw %s of kind %s in a conjugate step" % (fn, kind))
            a = np.asarray(args["shape"], dtype=float).ravel()
            sc = np.asarray(args["scale"], dtype=float).ravel()
            g.append((float(a[0]), float(1.0 / sc[0]), a.size, int(np.prod(shape)) if shape else 1))
        return g

    def mk(v):
        def f(shape):
            out["returned"].append(float(v))
            return np.full(shape, float(v))
        return f
    # draws beyond the script (a sampler drawing more than once per step) get fresh distinct values
    filler = {"gamma": lambda shape: mk(100.0 + len(out["returned"]))(shape)}
    try:
        with script_rng.scripted({"gamma": [mk(v) for v in ([basedraw] * nb + list(draws))]}, default=filler) as st:
            x = np.array([float(init)])
            s = None
            if via != "ctor":
                # the sampler object that exists before the posterior reaches it
                try:
                    if via == "set_none":
                        s = cls(initial_point=np.array([float(init)]))
                    elif exp:
                        s = cls(base_target, initial_point=np.array([float(init)]))
                    else:
                        s = cls(base_target)
                    if nb and exp:
                        s.sample(nb)
                        out["base_chain"] = [float(v) for v in np.asarray(s.get_samples().samples).ravel()]
                    elif nb:
                        x = np.atleast_1d(np.asarray(s.step(x), dtype=float))
                        out["base_chain"] = [float(x.ravel()[0])]
                except script_rng.ScriptError as e:
                    raise MachineryError("scripted generator cannot follow the sampler: %s" % e)
                except Exception as e:
                    out["stage"], out["error"] = "base", "%s: %s" % (type(e).__name__, str(e)[:160])
                    return out
                out["base_gammas"] = read_log(st.log)
            n0, r0 = len(st.log), len(out["returned"])
            try:
                if s is not None:
                    s.target = target
                elif exp:
                    s = cls(target, initial_point=np.array([float(init)]))
                else:
                    s = cls(target)
            except script_rng.ScriptError as e:
                raise MachineryError("scripted generator cannot follow the sampler: %s" % e)
            except Exception as e:
                out["stage"], out["error"] = "construct", "%s: %s" % (type(e).__name__, str(e)[:160])
                return out
            try:
                if exp:
                    s.sample(len(draws))
                    out["chain"] = [float(v) for v in np.asarray(s.get_samples().samples).ravel()][len(out["base_chain"]):]
                else:
                    for _ in draws:
                        x = np.atleast_1d(np.asarray(s.step(x), dtype=float))
                        out["chain"].append(float(x.ravel()[0]))
            except script_rng.ScriptError as e:
                raise MachineryError("scripted generator cannot follow the sampler: %s" % e)
            except Exception as e:
                out["stage"], out["error"] = "step", "%s: %s" % (type(e).__name__, str(e)[:160])
            out["gammas"] = read_log(st.log[n0:])
            out["returned"] = out["returned"][r0:]
    except script_rng.ScriptError as e:
        raise MachineryError("scripted generator cannot follow the sampler: %s" % e)
    return out


def _base_target(ctx, c):
    """The supported posterior (specification: BaseInst) a sampler holds before the posterior of case c is assigned."""
    if _via(c) in ("ctor", "set_none"):
        return None
    return build_target(c["base"], "pair")


def check_base_step(ctx, c, iface, res):
    """The step made on the base posterior before the assignment: a draw of that posterior's own conjugate update."""
    if _via(c) != "set_stepped":
        return
    sig = "%s/%s" % (iface, _key(c))
    bd = float(c["basedraw"])
    if res["base_chain"] != [bd]:
        ctx.mismatch("chain_value/base_step/" + sig, c, "the step on the first target did not record the value returned by the Gamma generator",
                     expected=[bd], observed=res["base_chain"])
    b = c["base"]
    if b["fam"] in ("gaussian", "gmrf") and res["base_gammas"]:
        a, r = res["base_gammas"][0][:2]
        sh, ra = float(_fr(b["shape"])), float(_fr(b["rate"]))
        if abs(a - sh) > 1e-9 * max(1.0, sh) or abs(r - ra) > 1e-9 * max(1.0, ra):
            ctx.mismatch("base_step_gamma/" + sig, c, "the Gamma drawn from in the step on the first (supported) target is not that "
                         "target's conjugate update", expected=(sh, ra), observed=(a, r))


# ----------------------------------------------------------------------------------------------------------------
# replay of one TLC case
# ----------------------------------------------------------------------------------------------------------------
def _jitter(c):
    """GMRF.sqrtprec of periodic/neumann fields is the Cholesky factor of P + sqrt(eps) I (code comment + warning
    'experimental'); the rate then carries sqrt(eps)/2 |Ax-b|^2."""
    return c["fam"] == "gmrf" and c["gbc"] in ("periodic", "neumann")


def _rate_tol(c, rate):
    r = np.array(c["mu0"], dtype=float) - np.array(c["b"], dtype=float)
    return 1e-9 * max(1.0, abs(rate)) + (1e-7 * (1.0 + float(r @ r)) if _jitter(c) else 0.0)


def _is_subsequence(chain, returned):
    pos = 0
    for v in chain:
        while pos < len(returned) and returned[pos] != v:
            pos += 1
        if pos == len(returned):
            return False
        pos += 1
    return True


def check_accepted(ctx, c, iface, real, target, res, draws, sigx="", coeffs=None):
    """The sampler accepted the posterior and stepped: compare with TLC's exact pair and with the real target.
    `sigx` is appended to the signatures (draw number of a pair of configurations); `coeffs` = the target's coefficients
    evaluated by the caller at the time of the draw (the target of a pair is changed afterwards) or the exception raised."""
    key = _key(c)
    sig = "%s/%s/%s" % (iface, real, key) + sigx
    shape, rate = float(_fr(c["shape"])), float(_fr(c["rate"]))
    alpha = float(_fr(c["alpha"]))
    draws = [float(v) for v in draws]
    ok = True
    if not res["gammas"]:
        # the read-off point (numpy.random.gamma behind cuqi.distribution.Gamma.sample) was never reached: the harness
        # cannot see what is drawn - machinery failure, not a verdict on the sampler
        from cuqiverif.core import MachineryError
        raise MachineryError("conjugate sampler %s made no numpy.random.gamma request on %s: cannot read off the Gamma drawn from" % (iface, key))
    if len(res["gammas"]) < len(draws):
        ctx.mismatch("no_gamma_draw/" + sig, c, "a step of the conjugate sampler did not draw from numpy.random.gamma",
                     expected=len(draws), observed=len(res["gammas"]))
        return False
    len_half = c["m"] / 2.0 + alpha
    for i, (a, r, asize, nreq) in enumerate(res["gammas"]):
        cls = "len_half" if (abs(a - len_half) < 1e-9 and c["m"] != c["k"]) else "other"
        if asize != 1 or nreq != 1:
            ctx.mismatch("gamma_not_univariate/" + sig, c, "the Gamma drawn from is not univariate", 1, (asize, nreq))
            ok = False
        if abs(a - shape) > 1e-9 * max(1.0, shape):
            ctx.mismatch("drawn_shape/%s/obs=%s" % (sig, cls), c,
                         "shape of the Gamma drawn from (step %d) is not rank/2 + alpha of the specification" % (i + 1),
                         expected=shape, observed=a)
            ok = False
        if abs(r - rate) > _rate_tol(c, rate):
            ctx.mismatch("drawn_rate/" + sig, c,
                         "rate of the Gamma drawn from (step %d, current point %s) is not |L(Ax-b)|^2/2 + beta at unit "
                         "hyper-parameter" % (i + 1, ([c["init"]] + draws)[i]), expected=rate, observed=r)
            ok = False
    if not _is_subsequence(res["chain"], res["returned"]) or len(res["chain"]) != len(draws):
        ctx.mismatch("chain_value/" + sig, c, "the chain is not made of the values returned by the Gamma generator",
                     expected=draws, observed=res["chain"])
        ok = False
    elif res["chain"] != draws:
        ctx.observe("conjugate_draws_per_step_not_one", sig)
    # the real target's own density along d
    try:
        if isinstance(coeffs, Exception):
            raise coeffs
        a_t, b_t, vals = coeffs if coeffs is not None else target_coefficients(target)
    except Exception as e:      # the posterior the sampler accepted cannot be evaluated: reported, not a crash of the check
        ctx.mismatch("target_logd_raises/" + sig, c, "target.logd raises at d = 1, 2, 4: %r" % (e,))
        return False
    a, r = res["gammas"][0][0], res["gammas"][0][1]
    cls = "len_half" if (abs(a - len_half) < 1e-9 and c["m"] != c["k"]) else "other"
    if not np.all(np.isfinite(vals)):
        ctx.mismatch("target_logd_nonfinite/" + sig, c, "target.logd is not finite at d = 1, 2, 4", observed=vals)
        return False
    if abs((a - 1.0) - a_t) > 1e-7 * max(1.0, abs(a_t)):
        ctx.mismatch("target_logcoef/%s/obs=%s" % (sig, cls), c,
                     "log-density of the drawn Gamma minus target.logd is not constant over d = 1, 2, 4: the coefficients of "
                     "log d differ (shape - 1 vs the target's)", expected=a_t + 1.0, observed=a)
        ok = False
    if abs(r + b_t) > _rate_tol(c, r) + 1e-8 * max(1.0, abs(b_t)):
        ctx.mismatch("target_dcoef/" + sig, c,
                     "log-density of the drawn Gamma minus target.logd is not constant over d = 1, 2, 4: the coefficients of "
                     "d differ (rate vs the target's)", expected=-b_t, observed=r)
        ok = False
    return ok


_VIA_TEXT = {"ctor": "by the constructor", "set_none": "sampler.target = posterior on a sampler constructed without target",
             "set_valid": "sampler.target = posterior on a sampler constructed on a supported posterior",
             "set_stepped": "sampler.target = posterior on a sampler that has stepped on a supported posterior"}


def replay_conj(ctx, c):
    """Gaussian / GMRF instance (numeric sweep or decision-table row)."""
    key = _key(c)
    reals = ["pair"]
    if c["fam"] == "gmrf" and c["gdim"] == 1 and c["occ"] == 1 and c["attr"] == "prec" and c["v"] == 2:
        reals.append("hier")
    if c["model"] == 1:
        reals = ["hier"]
    via = _via(c)
    if via != "ctor" or _is_form(c):
        reals = reals[:1]
    draws = _own_draws(c)
    for real in reals:
        try:
            target = build_target(c, real)
            base = _base_target(ctx, c)
        except Exception as e:
            if c.get("mayrefuse"):
                _form_outcome(ctx, c, "joint", "posterior cannot be formed: %s" % type(e).__name__)
                continue
            ctx.mismatch("build/%s/%s" % (real, key), c, "the posterior cannot be formed by conditioning the joint distribution: %r" % e)
            continue
        for iface in ("exp", "legacy"):
            if iface == "legacy" and via != "ctor":
                # the legacy class offers no way of replacing the target (plain attribute, validation documented for the
                # constructor only): what an assignment does is recorded for one path and never asserted
                if via == "set_valid":
                    res = run_sampler(iface, target, c["init"], draws, via, base, c["basedraw"])
                    ob = ctx.observations.setdefault("legacy_target_attribute_reassigned", {})
                    k = "%s: %s" % ("supported" if c["accept"] else "unsupported", res["stage"] or "samples")
                    ob[k] = ob.get(k, 0) + 1
                continue
            ctx.case(("conj", key, real, iface, tuple(draws)), facet="%s/%s/%s" % (iface, "accept" if c["accept"] else "reject", via))
            ctx.traces += 1
            res = run_sampler(iface, target, c["init"], draws, via, base, c.get("basedraw", 5))
            sig = "%s/%s/%s" % (iface, real, key)
            if res["stage"] == "base":
                ctx.mismatch("rejects_supported/base/" + sig, c, "the supported posterior the sampler is first constructed on is "
                             "refused / cannot be stepped: %s" % res["error"])
                continue
            check_base_step(ctx, c, iface, res)
            if c["accept"]:
                if c.get("mayrefuse") and (res["stage"] == "construct" or
                                           (iface == "legacy" and res["stage"] == "step" and not res["chain"])):
                    # another writing of a supported pair: the docstrings state the table for the scalar callable and the
                    # plain vectors only, a refusal before any value is produced is recorded
                    _form_outcome(ctx, c, iface, "refused (%s): %s" % (res["stage"], (res["error"] or "").split(":")[0]))
                    continue
                if res["stage"] is not None:
                    ctx.mismatch("rejects_supported/" + sig, c, "a documented conjugate pair is refused (%s): %s" % (res["stage"], res["error"]))
                    continue
                ok = check_accepted(ctx, c, iface, real, target, res, draws)
                if _is_form(c):
                    _form_outcome(ctx, c, iface, "draws from the conditional" if ok else "draws from another distribution")
                continue
            # expected: rejected
            if res["stage"] == "construct":
                continue
            if iface == "exp":
                # docstring of the target setter: "Runs validation of the target"
                ctx.mismatch("accepts_unsupported/" + sig, c,
                             "the conjugate sampler does not refuse, when the target is set (%s), a posterior outside the documented "
                             "conjugate structure (%s)" % (_VIA_TEXT[via], "fails later: " + res["error"] if res["stage"] else "it samples"),
                             expected="exception when the target is given", observed=res["gammas"][:1])
                continue
            # legacy interface: refused late (exception before any value is produced) is still a refusal
            if res["stage"] == "step" and not res["chain"]:
                ctx.observations.setdefault("legacy_refuses_at_step_not_construction", []).append(
                    "%s/%s/%s occ=%d" % (c["fam"], c["attr"], c["dep"], c["occ"]))
                continue
            # it produced draws: are they draws of the conditional?
            if res["stage"] is None and c["unitexact"]:
                # a row of conjugate form outside the documented table (e.g. prec = 2 d): the specification's unit-parameter
                # update is the exact conditional, so accepting is harmless provided the Gamma drawn from is that one
                check_accepted(ctx, c, iface, real, target, res, draws)
                ctx.observations.setdefault("legacy_accepts_undocumented_but_exact_rows", []).append(
                    "%s/%s/%s" % (c["fam"], c["attr"], c["dep"]))
                continue
            exact = False
            if res["gammas"]:
                try:
                    a_t, b_t, vals = target_coefficients(target)
                    a, r = res["gammas"][0][0], res["gammas"][0][1]
                    exact = bool(np.all(np.isfinite(vals)) and abs((a - 1) - a_t) < 1e-7 * max(1, abs(a_t))
                                 and abs(r + b_t) < _rate_tol(c, r) + 1e-8 * max(1, abs(b_t)))
                except Exception:
                    exact = False
            if exact:
                ctx.mismatch("unit_update_exactness/" + sig, c,
                             "the specification says the conditional of this row is not the Gamma of the unit-parameter update, "
                             "the real target says it is", expected=False, observed=True)
                continue
            ctx.mismatch("legacy_unvalidated/%s/%s/attr=%s/dep=%s/occ=%d" % (real, c["fam"], c["attr"], c["dep"], c["occ"]), c,
                         "legacy cuqi.sampler.Conjugate accepts a posterior outside the conjugate structure and draws from a Gamma "
                         "whose density is not proportional to the target's", expected="exception (rejection)",
                         observed={"gamma(shape, rate)": res["gammas"][0][:2], "chain": res["chain"]})


def _form_outcome(ctx, c, iface, what):
    """Observation: what became of a writing of the inputs other than the plain one (counts per interface and form)."""
    ob = ctx.observations.setdefault("input_forms", {})
    k = "%s/%s/%s/mform=%s/dform=%s/sform=%s: %s" % (iface, c["fam"], c["attr"], c.get("mform"), c.get("dform"), c.get("sform"), what)
    ob[k] = ob.get(k, 0) + 1


def _check_approx_form(ctx, c, iface, sig, res, draws):
    """FormIndependent for the approximate sampler, whose Gamma the specification does not predict: the Gamma is a function
    of the content, so it is the one the same sampler class draws from for the plain writing (full vectors, ndarray data)
    of the same content, handed to a fresh sampler by the constructor."""
    if not (_is_form(c) and res["gammas"]):
        return
    c0 = dict(c, mform="vector", dform="ndarray", sform="scalar", via="ctor")
    ref = run_sampler(iface, build_target(c0, "pair"), c["init"], draws[:1])
    if ref["stage"] is not None or not ref["gammas"]:
        return
    (a, r), (a0, r0) = res["gammas"][0][:2], ref["gammas"][0][:2]
    if abs(a - a0) > 1e-9 * max(1.0, abs(a0)) or abs(r - r0) > 1e-9 * max(1.0, abs(r0)):
        ctx.mismatch("approx_form/" + sig, c, "the Gamma ConjugateApprox draws from depends on how the location / the data were written "
                     "(scalar or vector location, ndarray / CUQIarray / list data), not only on their content",
                     expected=(a0, r0), observed=(a, r))
        _form_outcome(ctx, c, iface, "draws from another distribution")
    else:
        _form_outcome(ctx, c, iface, "draws as for the plain writing")


# ----------------------------------------------------------------------------------------------------------------
# pairs of configurations on one sampler object (Conjugate.tla: draw, Change, draw)
# ----------------------------------------------------------------------------------------------------------------
def _second(c):
    """The second configuration of a pair as a case record of its own (same key: the pair is the case)."""
    s = c["second"][0]
    c2 = dict(c)
    c2.update(s["rec"])
    c2.update({k: s[k] for k in ("m", "k", "nrows", "q", "l1")})
    c2.update(chg=c["chg"], how=c["how"], via=c.get("via", "ctor"), init=c["init"], second=[])
    return c2


def run_pair(iface, c, c2, draws):
    """One sampler object: constructed on the posterior of c, one step; the change of the pair through public means
    (how = set_target: the posterior of c2, conditioned afresh, is assigned; how = assign: the public setter of the Gamma
    prior's shape / rate on the target the sampler holds); one more step.
    Returns dict(stage=None|'construct'|'step1'|'change'|'step2', error, g=[gammas of draw 1, of draw 2],
    coef=[coefficients of the target's own log-density at the time of each draw], chain, returned)."""
    from cuqiverif import script_rng
    from cuqiverif.core import MachineryError
    cls = _sampler_classes()[iface]
    exp = iface.startswith("exp")
    init = c["init"]
    out = {"stage": None, "error": None, "g": [[], []], "coef": [None, None], "chain": [], "returned": [[], []]}
    ret = []

    def mk(v):
        def f(shape):
            ret.append(float(v))
            return np.full(shape, float(v))
        return f
    filler = {"gamma": lambda shape: mk(100.0 + len(ret))(shape)}

    def gammas(log):
        g = []
        for fn, kind, shape, args in log:
            if kind != "gamma":
                raise MachineryError("unexpected random draw %s of kind %s in a conjugate step" % (fn, kind))
            a = np.asarray(args["shape"], dtype=float).ravel()
            sc = np.asarray(args["scale"], dtype=float).ravel()
            g.append((float(a[0]), float(1.0 / sc[0]), a.size, int(np.prod(shape)) if shape else 1))
        return g

    def coef(t):
        try:
            return target_coefficients(t)
        except Exception as e:
            return e

    target = build_target(c, "pair")
    try:
        with script_rng.scripted({"gamma": [mk(v) for v in draws]}, default=filler) as st:
            x = np.array([float(init)])
            try:
                s = cls(target, initial_point=np.array([float(init)])) if exp else cls(target)
            except Exception as e:
                out["stage"], out["error"] = "construct", "%s: %s" % (type(e).__name__, str(e)[:160])
                return out
            for i in (0, 1):
                n0, r0 = len(st.log), len(ret)
                if i == 1:
                    try:
                        if c["how"] == "set_target":
                            target = build_target(c2, "pair")
                            s.target = target
                        else:
                            attr, val = ("shape", c2["alpha"]) if c["chg"] == "alpha" else ("rate", c2["beta"])
                            setattr(s.target.prior, attr, float(_fr(val)))
                            target = s.target
                    except Exception as e:
                        out["stage"], out["error"] = "change", "%s: %s" % (type(e).__name__, str(e)[:160])
                        return out
                try:
                    if exp:
                        s.sample(1)
                        out["chain"] = [float(v) for v in np.asarray(s.get_samples().samples).ravel()]
                    else:
                        x = np.atleast_1d(np.asarray(s.step(x), dtype=float))
                        out["chain"].append(float(x.ravel()[0]))
                except script_rng.ScriptError:
                    raise
                except Exception as e:
                    out["stage"], out["error"] = "step%d" % (i + 1), "%s: %s" % (type(e).__name__, str(e)[:160])
                    return out
                out["g"][i] = gammas(st.log[n0:])
                out["returned"][i] = ret[r0:]
                if c["fam"] != "lmrf":
                    out["coef"][i] = coef(target)
    except script_rng.ScriptError as e:
        raise MachineryError("scripted generator cannot follow the sampler: %s" % e)
    return out


def replay_pair(ctx, c):
    """A pair of configurations (c, Second(c)) of Conjugate.tla on ONE sampler object: the Gamma of the second draw must be
    the one of the second configuration (TLC's exact pair; the coefficients of the changed target's own log-density)."""
    key = _key(c)
    c2 = _second(c)
    draws = [float(v) for v in c["chain"]]
    approx = c["fam"] == "lmrf"
    for iface in (("exp_approx", "legacy_approx") if approx else ("exp", "legacy")):
        legacy = iface.startswith("legacy")
        if legacy and c["how"] == "set_target":
            # `target` of the legacy classes is a plain attribute, validation is documented for the constructor only
            # (legacy Gibbs constructs a new sampler per sweep): not exercised
            continue
        ctx.case(("pair", key, iface, tuple(draws)), facet="%s/pair/%s/%s" % (iface, c["chg"], c["how"]))
        ctx.traces += 1
        sig = "%s/pair/%s" % (iface, key)
        try:
            res = run_pair(iface, c, c2, draws)
        except Exception as e:
            from cuqiverif.core import MachineryError
            if isinstance(e, MachineryError):
                raise
            ctx.mismatch("build/pair/" + key, c, "a posterior of the pair cannot be formed by conditioning the joint distribution: %r" % (e,))
            continue
        ob = ctx.observations.setdefault("pairs_on_one_sampler", {})
        k = "%s/%s/%s/%s: %s" % (iface, c["fam"], c["chg"], c["how"], res["stage"] or "two draws")
        ob[k] = ob.get(k, 0) + 1
        if res["stage"] == "change" and c["how"] == "assign":
            continue                     # the assignment is refused: recorded, nothing is drawn from a wrong distribution
        if res["stage"] is not None:
            ctx.mismatch("rejects_supported/%s/stage=%s" % (sig, res["stage"]), c,
                         "a documented conjugate pair is refused / cannot be stepped (%s): %s" % (res["stage"], res["error"]))
            continue
        if res["chain"] != draws:
            ok = all(_is_subsequence(res["chain"][i:i + 1], res["returned"][i]) for i in (0, 1)) and len(res["chain"]) == 2
            if not ok:
                ctx.mismatch("chain_value/" + sig, c, "the chain is not made of the values returned by the Gamma generator",
                             expected=draws, observed=res["chain"])
        if not approx:
            for i, ci in enumerate((c, c2)):
                ri = {"gammas": res["g"][i], "chain": res["chain"][i:i + 1], "returned": res["returned"][i]}
                check_accepted(ctx, ci, iface, "pair", None, ri, draws[i:i + 1], sigx="/draw=%d" % (i + 1), coeffs=res["coef"][i])
            continue
        # approximate sampler: the specification predicts no (shape, rate); it states that the prior enters additively and
        # that the Gamma is a function of the configuration in force only
        if not (res["g"][0] and res["g"][1]):
            from cuqiverif.core import MachineryError
            raise MachineryError("ConjugateApprox %s made no numpy.random.gamma request on %s" % (iface, key))
        (a1, r1), (a2, r2) = res["g"][0][0][:2], res["g"][1][0][:2]
        if c["chg"] in ("alpha", "beta"):
            da = float(_fr(c2["alpha"]) - _fr(c["alpha"]))
            db = float(_fr(c2["beta"]) - _fr(c["beta"]))
            if abs((a2 - a1) - da) > 1e-9 * max(1.0, abs(a1)) or abs((r2 - r1) - db) > 1e-9 * max(1.0, abs(r1)):
                ctx.mismatch("pair_gamma/%s/draw=2" % sig, c, "after the Gamma prior's %s was replaced (%s) the second draw of the same "
                             "sampler is not made from the Gamma with the new prior parameter (shape and rate must move by the change "
                             "of alpha and beta)" % (c["chg"], c["how"]), expected=(a1 + da, r1 + db), observed=(a2, r2))
        else:
            ref = run_sampler(iface, build_target(c2, "pair"), c["init"], draws[1:])
            if ref["stage"] is None and ref["gammas"]:
                a0, r0 = ref["gammas"][0][:2]
                if abs(a2 - a0) > 1e-9 * max(1.0, abs(a0)) or abs(r2 - r0) > 1e-9 * max(1.0, abs(r0)):
                    ctx.mismatch("pair_gamma/%s/draw=2" % sig, c, "after a posterior with other data was assigned the second draw of the same "
                                 "sampler is not made from the Gamma a fresh sampler draws from for that posterior",
                                 expected=(a0, r0), observed=(a2, r2))


def replay_lmrf(ctx, c):
    key = _key(c)
    try:
        target = build_target(c, "pair")
    except Exception as e:
        if c.get("mayrefuse"):
            _form_outcome(ctx, c, "joint", "posterior cannot be formed: %s" % type(e).__name__)
            return
        ctx.mismatch("build/pair/" + key, c, "the posterior cannot be formed by conditioning the joint distribution: %r" % e)
        return
    draws = _own_draws(c)
    via = _via(c)
    base = _base_target(ctx, c)
    for iface in ("exp_approx", "legacy_approx"):
        if iface == "legacy_approx" and via != "ctor":
            continue
        ctx.case(("lmrf", key, iface, tuple(draws)), facet="%s/%s/%s" % (iface, "accept" if c["accept"] else "reject", via))
        ctx.traces += 1
        res = run_sampler(iface, target, c["init"], draws, via, base, c.get("basedraw", 5))
        sig = "%s/pair/%s" % (iface, key)
        if res["stage"] == "base":
            ctx.mismatch("rejects_supported/base/" + sig, c, "the supported (LMRF, Gamma) posterior the sampler is first constructed on "
                         "is refused / cannot be stepped: %s" % res["error"])
            continue
        check_base_step(ctx, c, iface, res)
        if iface == "legacy_approx":
            # the legacy class documents no validation: outcomes are recorded only
            ctx.observations.setdefault("legacy_approx_outcomes", {})["%s/%s/gdim=%d/v=%d" % (c["gbc"], c["dep"], c["gdim"], c["v"])] = \
                res["stage"] or "samples"
            if c["accept"] and res["stage"] is None:
                _check_approx_form(ctx, c, iface, sig, res, draws)
            elif _is_form(c):
                _form_outcome(ctx, c, iface, "refused (%s)" % res["stage"])
            continue
        if not c["accept"]:
            if res["stage"] != "construct":
                ctx.mismatch("accepts_unsupported/" + sig, c, "ConjugateApprox does not refuse (%s) a posterior outside its documented structure "
                             "(Gamma on the inverse scale, univariate, zero location)" % _VIA_TEXT[via], "exception when the target is given",
                             res["error"] or res["gammas"][:1])
            continue
        if c.get("mayrefuse") and res["stage"] == "construct":
            _form_outcome(ctx, c, iface, "refused (construct): %s" % (res["error"] or "").split(":")[0])
            continue
        if res["stage"] is not None:
            ctx.mismatch("rejects_supported/" + sig, c, "the documented (LMRF, Gamma) pair is refused (%s): %s" % (res["stage"], res["error"]))
            continue
        if not _is_subsequence(res["chain"], res["returned"]) or len(res["chain"]) != len(draws):
            ctx.mismatch("chain_value/" + sig, c, "the chain is not made of the values returned by the Gamma generator",
                         [float(v) for v in draws], res["chain"])
        _check_approx_form(ctx, c, iface, sig, res, draws)
        # approximation quality: observation only (the docstring promises "approximated by", no bound)
        exact_shape = c["nrows"] + float(_fr(c["alpha"]))
        exact_rate = c["l1"] + float(_fr(c["beta"]))
        if res["gammas"]:
            a, r = res["gammas"][0][:2]
            ob = ctx.observations.setdefault("conjugate_approx_vs_exact_conditional", {})
            ob["%s/v=%d" % (c["gbc"], c["v"])] = {"shape_minus_exact": round(a - exact_shape, 9), "rate_minus_exact": float("%.3g" % (r - exact_rate))}


class _ScriptedSample:
    """Replacement of target.sample on one instance: returns the scripted vectors (then fresh distinct ones), logs every call."""

    def __init__(self, values, filler):
        self.values, self.calls, self.filler = list(values), [], filler

    def __call__(self, *a, **k):
        v = self.values.pop(0) if self.values else self.filler(100 + len(self.calls))
        self.calls.append(v)
        return v.copy()


def _direct_target(c):
    import cuqi
    n, t = c["n"], c["tgt"]
    if t == "gamma":
        return cuqi.distribution.Gamma(2.0, 0.5, geometry=n)
    if t == "gaussian":
        return cuqi.distribution.Gaussian(np.arange(n, dtype=float), 4.0)
    if t == "gmrf":
        with _quiet():
            return cuqi.distribution.GMRF(np.zeros(n), 2.0, geometry=n)
    if t == "lmrf":
        return cuqi.distribution.LMRF(0, 1.0, geometry=n)
    if t == "posterior":
        y = cuqi.distribution.Gaussian(np.zeros(n), cov=lambda d: 1.0 / d, name="y")
        d = cuqi.distribution.Gamma(1.0, 1.0, name="d")
        return cuqi.distribution.JointDistribution(y, d)(y=np.ones(n))
    raise ValueError(t)


def replay_direct(ctx, c):
    from cuqiverif import script_rng
    from cuqiverif.core import MachineryError
    Direct = _sampler_classes()["direct"]
    via = _via(c)
    key = "direct/tgt=%s/n=%d" % (c["tgt"], c["n"]) + ("" if via == "ctor" else "/via=" + via)
    n = c["n"]
    ids = _own_draws(c)
    nb = 1 if via == "set_stepped" else 0
    # scripted draws: distinct entries; mixed signs for the targets whose support is the whole space (a sampler that
    # post-processes the draw - abs, clipping at 0 - must not go unnoticed); positive for the Gamma target
    sgn = (lambda v: np.ones(n)) if c["tgt"] not in ("gaussian", "gmrf") else \
        (lambda v: np.where((np.arange(n) + int(v) // 2) % 2 == 1, -1.0, 1.0))
    vec = lambda v: float(v) * sgn(v) * (np.arange(n, dtype=float) + 1.0) / n
    # (a) target.sample scripted on the instance
    target = _direct_target(c)
    ctx.case((key, "scripted_sample", tuple(ids)), facet="direct/%s/%s" % ("accept" if c["accept"] else "reject", via))
    ctx.traces += 1
    scr = _ScriptedSample([], vec)
    marks = []
    cb = lambda sample, idx: marks.append(len(scr.calls))
    # the sampler object that exists before the target reaches it (specification: ConstructBase, StepBase)
    s, base = None, None
    if via != "ctor":
        try:
            if via == "set_none":
                s = Direct(callback=cb)
            else:
                base = _direct_target(c["base"])
                base.sample = _ScriptedSample([], lambda i: vec(c["basedraw"]))
                s = Direct(base, callback=cb)
                if nb:
                    s.sample(nb)
        except Exception as e:
            ctx.mismatch("rejects_supported/base/" + key, c, "Direct refuses / cannot step the samplable target it is first constructed on: %r" % (e,))
            return
    if not c["accept"]:
        try:
            if s is None:
                Direct(target)
            else:
                s.target = target
        except Exception:
            return
        ctx.mismatch("accepts_unsupported/" + key, c, "Direct does not refuse (%s) a target without a sampling method" % _VIA_TEXT[via],
                     "exception", "accepted")
        return
    # validation may probe target.sample (those calls return vec(1)); the scripted draws start with sampling
    target.sample = scr
    try:
        try:
            if s is None:
                s = Direct(target, callback=cb)
            else:
                s.target = target
        except Exception as e:
            ctx.mismatch("rejects_supported/" + key, c, "Direct refuses a target that has a sampling method: %r" % e)
            return
        ctx.observations.setdefault("direct_validation_probe_calls", {})[c["tgt"]] = len(scr.calls)
        scr.values, scr.calls = [vec(v) for v in ids], []
        del marks[:]
        try:
            s.sample(len(ids))
            chain = np.asarray(s.get_samples().samples, dtype=float).reshape(n, -1)
        except Exception as e:
            ctx.mismatch("direct_raises/" + key + "/scripted_sample", c, "Direct raises while sampling a target that has a sampling method: %r" % (e,))
            return
        if nb:
            if chain.shape[1] < nb or not np.array_equal(chain[:, 0], vec(c["basedraw"])):
                ctx.mismatch("direct_chain/base_step/" + key, c, "the step on the first target did not record the value returned by that "
                             "target's sampling method", expected=vec(c["basedraw"]), observed=chain[:, :nb])
            chain = chain[:, nb:]
    finally:
        del target.sample
    exp = np.array([vec(v) for v in ids]).T
    # element i of the chain is the value returned by target.sample during step i (the callback marks the end of a step)
    bounds = [0] + marks
    per_step = [scr.calls[bounds[i]:bounds[i + 1]] for i in range(len(marks))]
    good = chain.shape == exp.shape and len(marks) == len(ids) and all(
        len(per_step[i]) >= 1 and np.array_equal(chain[:, i], per_step[i][-1]) for i in range(len(marks)))
    if not good:
        ctx.mismatch("direct_chain/" + key + "/scripted_sample", c, "an element of the chain of Direct is not the value returned by "
                     "target.sample during that step", expected=exp, observed={"chain": chain, "calls_per_step": [len(p) for p in per_step]})
    elif not np.array_equal(chain, exp):
        ctx.observe("direct_calls_per_step", [len(p) for p in per_step])
    # (b) the real sampling method with the base generator scripted (Gamma target)
    if c["tgt"] == "gamma" and via == "ctor":
        ctx.case((key, "scripted_generator", tuple(ids)))
        ctx.traces += 1
        target = _direct_target(c)
        ret = []

        def mk(v):
            def f(shape):
                a = vec(v).reshape(shape)
                ret.append(a.ravel().copy())
                return a
            return f

        def filler(shape):
            return mk(100 + len(ret))(shape)
        with script_rng.scripted({}, default={"gamma": filler}) as st:
            try:
                s = Direct(target)                            # probes made by validation draw filler values
                n0, r0 = len(st.log), len(ret)
                st.q["gamma"] = [mk(v) for v in ids]
                s.sample(len(ids))
                chain = np.asarray(s.get_samples().samples, dtype=float).reshape(n, -1)
            except (script_rng.ScriptError, MachineryError):
                raise
            except Exception as e:
                ctx.mismatch("direct_raises/" + key + "/scripted_generator", c, "Direct raises on a Gamma target: %r" % (e,))
                return
            log = st.log[n0:]
        # the chain is, in order, made of values the target's generator returned while sampling
        pos, sub = r0, chain.shape[1] == len(ids)
        for i in range(chain.shape[1]):
            while pos < len(ret) and not np.array_equal(ret[pos], chain[:, i]):
                pos += 1
            sub = sub and pos < len(ret)
            pos += 1
        if not sub:
            ctx.mismatch("direct_chain/" + key + "/scripted_generator", c, "the chain of Direct is not a sequence of draws of the "
                         "target's sampling method", expected=exp, observed=chain)
        for fn, kind, shape, args in log:
            if kind != "gamma":
                raise MachineryError("unexpected random draw %s of kind %s while Direct samples a Gamma target" % (fn, kind))
            a, sc = np.asarray(args["shape"], float).ravel(), np.asarray(args["scale"], float).ravel()
            if not np.allclose(a, 2.0) or not np.allclose(1 / sc, 0.5):
                ctx.mismatch("direct_draw_args/" + key, c, "Direct does not draw from the target's own distribution",
                             expected=("gamma", 2.0, 0.5), observed=(kind, a, 1 / sc))


# ----------------------------------------------------------------------------------------------------------------
# variant selection (multiplicity of the periodic wrap-around row is not documented: follow the real operator)
# ----------------------------------------------------------------------------------------------------------------
def _choose_variant(ctx, variants):
    import cuqi
    from cuqiverif.core import MachineryError
    c = variants[0]
    if len({v["wm"] for v in variants}) == 1:
        return variants
    n = c["n"]
    nn = n if c["pd"] == 1 else (n, n)
    if c["fam"] == "gmrf":
        P = np.asarray(cuqi.operator.PrecisionFiniteDifference(nn, bc_type=c["gbc"], order=c["gorder"]).get_matrix().todense(), dtype=float)
        sel = [v for v in variants if np.array_equal(np.array(v["P"], dtype=float), P)]
    else:
        if all(v["nrows"] == 0 for v in variants):       # rows without structure (multivariate Gamma): variants coincide
            return variants[:1]
        rows = cuqi.operator.FirstOrderFiniteDifference(nn, bc_type=c["gbc"]).get_matrix().shape[0]
        sel = [v for v in variants if v["nrows"] == rows]
    if not sel:
        raise MachineryError("no wrap-multiplicity variant of the specification matches the real periodic operator (%s); see C20" % _key(c))
    ctx.observations.setdefault("periodic_wrap_multiplicity", {})["%s/pd=%d/n=%d/order=%d" % (c["fam"], c["pd"], n, c["gorder"])] = sel[0]["wm"]
    return sel


def replay_case(ctx, c):
    if _chg(c) != "none":
        replay_pair(ctx, c)
    elif c["fam"] == "direct":
        replay_direct(ctx, c)
    elif c["fam"] == "lmrf":
        replay_lmrf(ctx, c)
    else:
        replay_conj(ctx, c)


ACTIONS = ["Build", "ConstructBase", "StepBase", "Validate", "SetTarget", "ComputeShapeRate", "Draw", "DrawOther", "Change"]
DEVIATIONS = {"ShapeLen": "DrawnIsTarget", "ScaleAtCurrent": "DrawnIsTarget", "NoProbe": "DrawnIsTarget",
              "StalePair": "DrawnIsTarget", "ValidateFirstOnly": "DecisionIgnoresHistory",
              "ShapeLenMean": "FormIndependent", "CacheFirstDraw": "SecondDrawIsNew"}


def run(ctx):
    from cuqiverif.core import MachineryError
    from cuqiverif import tlc as _tlc
    warnings.filterwarnings("ignore")
    res = ctx.tlc("Conjugate", cfg="Conjugate.%s.cfg" % ctx.tier, workers=16, timeout=1500,
                  extra_modules=("DiffOps.tla",), require_actions=ACTIONS)
    ctx.model_must_hold(res, "Conjugate")
    cases = res.cases
    _tlc.cleanup(res)
    # named deviations: each must violate its invariant on the model (non-vacuity; design-level account of the findings).
    # The TLC runs (a few seconds each, they stop at the first counterexample) proceed while the cases are replayed.
    from concurrent.futures import ThreadPoolExecutor

    def dev_run(dev):
        return _tlc.run_tlc("Conjugate", cfg="Conjugate.dev_%s.cfg" % dev, workers=4, timeout=600, extra_modules=("DiffOps.tla",),
                            expect_violation=True, workdir=os.path.join(_tlc.WORK, "Conjugate-dev_%s-%d" % (dev, os.getpid())))
    pool = ThreadPoolExecutor(max_workers=4)
    futures = {dev: pool.submit(dev_run, dev) for dev in DEVIATIONS}
    try:
        _replay_all(ctx, cases)
    finally:
        done = {}
        for dev, fu in futures.items():
            try:
                done[dev] = fu.result()
            except Exception as e:
                done[dev] = e
        pool.shutdown()
    for dev, inv in DEVIATIONS.items():
        r = done[dev]
        if isinstance(r, Exception):
            raise r if isinstance(r, (MachineryError, _tlc.MachineryError)) else MachineryError("deviation run %s failed: %r" % (dev, r))
        ctx.states += r.distinct
        ctx.transitions += r.generated
        ctx.tlc_runs.append({"spec": "Conjugate", "cfg": "Conjugate.dev_%s.cfg" % dev, "distinct": r.distinct, "generated": r.generated,
                             "depth": r.depth, "wall_s": round(r.wall_s, 2), "cases": len(r.cases), "violated": r.violated,
                             "coverage": None})
        _tlc.cleanup(r)
        if r.violated != inv:
            raise MachineryError("deviation %s does not violate %s (violated=%r): vacuous invariant" % (dev, inv, r.violated))
    ctx.observe("deviations_violating_DrawnIsTarget", [d for d, i in DEVIATIONS.items() if i == "DrawnIsTarget"])
    ctx.observe("deviations_violating_DecisionIgnoresHistory", [d for d, i in DEVIATIONS.items() if i == "DecisionIgnoresHistory"])
    ctx.observe("deviations_violating_FormIndependent", [d for d, i in DEVIATIONS.items() if i == "FormIndependent"])
    ctx.observe("deviations_violating_SecondDrawIsNew", [d for d, i in DEVIATIONS.items() if i == "SecondDrawIsNew"])


def _replay_all(ctx, cases):
    """Replay every case emitted by TLC into the real samplers."""
    from cuqiverif.core import MachineryError
    if not cases:
        raise MachineryError("no cases emitted by Conjugate")
    groups = {}
    for c in cases:
        groups.setdefault((_key(c), c["tgt"], tuple(c["chain"])), []).append(c)
    n_acc = n_rej = 0
    paths = {}
    dims = {}
    for gk in sorted(groups):
        for c in _choose_variant(ctx, groups[gk]):
            replay_case(ctx, c)
            for f in ("mform", "dform", "sform"):
                if c["fam"] in ("gaussian", "gmrf", "lmrf") and _chg(c) == "none":
                    k = "%s/%s=%s/%s" % (c["fam"], f, c.get(f), "ctor" if _via(c) == "ctor" else "set")
                    dims[k] = dims.get(k, 0) + 1
            if _chg(c) != "none":
                k = "%s/chg=%s/how=%s" % (c["fam"], c["chg"], c["how"])
                dims[k] = dims.get(k, 0) + 1
            n_acc += bool(c["accept"])
            n_rej += not c["accept"]
            k = "%s/%s" % (_via(c), "accept" if c["accept"] else "reject")
            paths[k] = paths.get(k, 0) + 1
    # every path on which a target reaches a sampler must have been replayed with both outcomes (vacuity guard)
    for v in ("ctor", "set_none", "set_valid", "set_stepped"):
        for o in ("accept", "reject"):
            if not paths.get("%s/%s" % (v, o)):
                raise MachineryError("no case of Conjugate.tla reaches a sampler on path %s with outcome %s" % (v, o))
    ctx.observe("cases_by_path_and_outcome", paths)
    # every writing of the inputs (per family, by the constructor and by assignment) and every kind of pair of
    # configurations of the specification must have been replayed (vacuity guard)
    need = ["%s/mform=scalar/%s" % (f, p) for f in ("gaussian", "gmrf", "lmrf") for p in ("ctor", "set")] + \
           ["gaussian/mform=%s/ctor" % m for m in ("constvec", "callable")] + ["gmrf/mform=%s/ctor" % m for m in ("callable", "model")] + \
           ["%s/dform=%s/%s" % (f, d, p) for f in ("gaussian", "gmrf", "lmrf") for d in ("cuqiarray", "list") for p in ("ctor", "set")] + \
           ["gaussian/sform=%s/%s" % (sf, p) for sf in ("vector", "matrix") for p in ("ctor", "set")] + \
           ["%s/chg=%s/how=%s" % (f, ch, h) for f in ("gaussian", "gmrf", "lmrf") for ch, h in
            (("data", "set_target"), ("alpha", "set_target"), ("beta", "set_target"), ("alpha", "assign"), ("beta", "assign"))] + \
           ["%s/chg=%s/how=set_target" % (f, ch) for f in ("gaussian", "gmrf") for ch in ("mean", "all")]
    for k in need:
        if not dims.get(k):
            raise MachineryError("no case of Conjugate.tla with %s was replayed" % k)
    ctx.observe("cases_by_input_form_and_pair", dims)
    for k in ("legacy_refuses_at_step_not_construction", "legacy_accepts_undocumented_but_exact_rows"):
        if k in ctx.observations:
            ctx.observations[k] = sorted(set(ctx.observations[k]))
    pick = [c for c in cases if c["fam"] == "gmrf" and c["gbc"] == "neumann" and c["gorder"] == 2 and c["accept"]][:1] + \
           [c for c in cases if c["fam"] == "gaussian" and c["model"] == 1][:1] + \
           [c for c in cases if c["attr"] == "cov" and c["dep"] == "identity" and c["gdim"] == 1 and c["occ"] == 1][:1]
    for c in pick:
        ctx.sample({"case": {k: c[k] for k in ("fam", "pd", "n", "gbc", "gorder", "attr", "dep", "model", "v", "b", "mu0", "alpha", "beta",
                                               "m", "k", "q", "shape", "rate", "accept", "conjugable", "chain")}})
    ctx.rule = ("one case per terminal state (rejected / done) of Conjugate.tla: instance (incl. the writing of the mean / data / scale "
                "and, for a pair of configurations on one sampler, what is replaced and how) x path on which the posterior reaches the "
                "sampler (constructor / target assigned to a sampler without target / constructed on / stepped on a supported posterior) "
                "x scripted chain, with exact rational shape/rate, rank, quadratic form and the expected outcome; non-trivial = distinct "
                "(instance, path, realisation of the joint, interface, chain)")
    ctx.exhaustive = True
    ctx.observe("cases_accept_reject", [n_acc, n_rej])
    ctx.assumptions += ["sizes bounded by the cfg (MaxN1, MaxN2, MaxG); dependence kinds limited to the modelled family",
                        "numpy.random.gamma is the base generator of cuqi.distribution.Gamma.sample (scripted; its arguments are read)",
                        "periodic wrap multiplicity follows the real operator (undocumented, see C20)"]


def replay(ctx, case):
    if case.get("kind") == "model":
        return run(ctx)
    warnings.filterwarnings("ignore")
    replay_case(ctx, case)
