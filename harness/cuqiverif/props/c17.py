"""C17 - shipped test problems match their documentation and are internally consistent.

Specs: specs/Conv.tla (documented convolution operators as index definitions, exact integer matrices) and
specs/TestProblems.tla (Abel quadrature, Wang's cubic, discretised Poisson / heat equations on rational instances;
the object-consistency record of every test problem as a state machine over the option lattice).

TLC checks the invariants on the specifications, demonstrates every named deviation (expected counterexample) and
emits (a) one case per (dimension, PSF, boundary condition) with the exact integer operator and the index map,
(b) one case per exact operator instance of Abel1D / WangCubic / Poisson1D / Heat1D, (c) one case per option
combination of every test problem with the expected exact solution, exact data, noise scales, data for the scripted
standard-normal draw Z, standardised residuals and prior quadratic forms; every constructor argument with a default is a
pair <given, value> (the spec's Used(arg) = IF given THEN value ELSE documented default) and the lattice contains the
admissible values Python treats as false (0, all-zero arrays) listed in the spec's OptionTable (d, emitted as one case).
This module constructs the real problems for every emitted case and compares.
"""
META = {
    "claimed": True,
    "engine": "Conv.tla + TestProblems.tla + TestProblemsSeq.tla",
    "text": ("TLC checks column/gather consistency, circulant/Toeplitz structure, symmetric-PSF symmetry, flipped-PSF transposition, "
             "constant preservation, Kronecker separability and pad/valid/trim = index definition on every (dim, PSF, BC) of the "
             "bounded instance, the defining relations of the Abel quadrature, Wang's cubic, the Poisson stencil and explicit heat "
             "steps on rational instances, and the object-consistency invariants (SameModel, SameData, SameGeometries, ExactData = "
             "model(exactSolution), NoiseRelation, PosteriorIsLikPlusPrior) on a 9-action construction machine over the option "
             "lattice; every constructor argument with a default is a pair <given, value> and the spec's Used(arg) = IF given THEN "
             "value ELSE documented default (invariants GivenIsUsed, ExactSolutionIsGiven, GivenDataIsData; TableCovered: every option "
             "of the spec's option table that has an admissible value Python treats as false - 0, all-zero arrays - is in the lattice); "
             "every emitted case is replayed into the real Deconvolution1D (incl. legacy), Deconvolution2D, Heat1D, "
             "Poisson1D, Abel1D, WangCubic with scripted global normal draws, omitting the arguments that are not given. "
             "Legacy form: use_legacy is an option field of the sweep; the legacy operator of every custom PSF array (ramp, "
             "one-sided, with zeros, symmetric, random floats; even dims - odd dims are refused) is the periodic convolution of Conv.tla "
             "with centre tap dim div 2, i.e. the operator of the non-legacy form for the same array (invariants "
             "LegacyIsSameForwardModel, SymmetricKernelCannotTell; deviation LegacyCorrelation refuted on an asymmetric kernel and not "
             "refuted on symmetric ones); get_matrix, forward(e_j), forward(x), exactData, data / likelihood relations; every documented "
             "legacy kernel (Gauss, sinc, prolate, vonMises) with PSF_param given (default and other values) / not given. "
             "Part D of TestProblems.tla: the field options of Poisson1D / Heat1D / Abel1D (field_type None / 'KL' / 'KL_Full' / 'Step' / "
             "'CustomKL' / a Geometry OBJECT of each kind incl. a caller-defined class, field_params, map / imap resp. KL_map / KL_imap "
             "given or not) are <given, value> pairs resolved by the action SelectGeometry into geometry objects of the heap (base = "
             "documented class or the caller's object as is; a Mapped wrapper referring to base, map, imap whenever a map is given); "
             "invariants MapGivenIsApplied (for EVERY form of field_type: domain geometry = Mapped(base, map, imap) and forward = "
             "solution operator o map o par2fun_base, exact over the integers / rationals for Continuous1D, StepExpansion, the "
             "caller's class and the maps 2x+1, x^2+1), GeometryObjectUsedAsIs, FieldGeometryEverywhere, FieldExactData; deviation "
             "GeometryObjectSkipsMap refuted; replayed with fresh map callables and geometry objects per case (identity of map / imap / "
             "base object, class, par_dim, par2fun, forward, geometry of posterior / likelihood / exactSolution, exactData; the sine "
             "expansions against an untouched reference geometry and the operator of an untouched plain twin). "
             "TestProblemsSeq.tla continues the machine on ONE assembled object (Fetch / SetData by a new likelihood, in place or "
             "set_data on the generic problem / SetPrior / refused assignments, cold and warm orders, there and back; invariants "
             "re-stated after every action, deviations StaleCacheAfterSetData / StaleCacheAfterSetPrior refuted) and every maximal "
             "behaviour is replayed into one real object: whatever is handed out after a reassignment refers to the same model, the "
             "CURRENT data and prior, and fetching changes nothing."),
    "note": ("Bounded sizes (1-D dim<=6/7, 2-D dim<=3/4). Not asserted because undocumented (recorded as observations): "
             "position of the Defocus "
             "PSF support, the definition of the SNR option (only: one scalar sigma shared by data and likelihood), number of "
             "heat time steps (read from the public time grid). The expansions themselves (KL / Step par2fun) belong to C13; here the "
             "SELECTION of the geometry and the application of the map are swept; the class an Abel1D field_type STRING creates is not "
             "documented (observed), Abel1D field_params and a CustomKL without trunc_term (fails on small grids) are not swept; Poisson1D "
             "is evaluated for positive conductivity fields only. Falsy option "
             "values are swept only where they are admissible on the documented interface (all-zero PSF / phantom / exactSolution "
             "arrays, phantom_param = 0, legacy PSF_param = 0, max_time = 0, WangCubic data = 0); noise_std = 0, SNR = 0, PSF_param = 0 "
             "(non-legacy), PSF_size = 0 and an all-zero Poisson1D conductivity raise or are undefined and are listed with the reason "
             "in the spec's OptionTable; built-in image phantoms of Deconvolution2D are not swept."),
    "technique": ("TLA+ specs (Conv, TestProblems) model-checked with TLC incl. expected-counterexample deviation runs; "
                  "TLC-emitted exact cases replayed into cuqi.testproblem with scripted numpy.random"),
}

import contextlib, io, math, warnings
from fractions import Fraction
import numpy as np

BC1DOC = {"zero": "zero", "periodic": "periodic", "mirror": "Mirror", "reflect": "Reflect", "nearest": "Nearest"}
BC2DOC = {"zero": "zero", "periodic": "periodic", "neumann": "Neumann", "mirror": "Mirror", "nearest": "Nearest"}
LOG2PI = math.log(2 * math.pi)


# ------------------------------------------------------------------ helpers
def _dense(M):
    if hasattr(M, "todense"):
        return np.asarray(M.todense(), dtype=float)
    return np.asarray(M, dtype=float)


def _q(q):
    return q[0] / q[1]


def _qv(v):
    return np.array([_q(a) for a in v], dtype=float)


def _qm(M):
    return np.array([[_q(a) for a in r] for r in M], dtype=float)


@contextlib.contextmanager
def _quiet():
    with warnings.catch_warnings():
        warnings.simplefilter("ignore")
        with contextlib.redirect_stdout(io.StringIO()):
            yield


def _scripted(Z=None):
    """global numpy.random scripted: first normal request returns Z, any further request returns zeros"""
    from cuqiverif import script_rng as sr
    q = {"normal": [np.asarray(Z, dtype=float)]} if Z is not None else {}
    return sr.scripted(q, default={"normal": lambda shape: np.zeros(shape)})


def mat_from_J(J, P, n):
    """1-D operator from the spec's index map: A[i, J[i][k]] += P[k]"""
    A = np.zeros((n, n))
    for i in range(n):
        for k in range(len(P)):
            j = J[i][k]
            if j:
                A[i, j - 1] += P[k]
    return A


def mat2_from_J(J, P, n):
    """2-D operator (row-major flattening) from the spec's per-axis index map"""
    m = P.shape[0]
    A = np.zeros((n * n, n * n))
    for i1 in range(n):
        for i2 in range(n):
            for k1 in range(m):
                j1 = J[i1][k1]
                if not j1:
                    continue
                for k2 in range(m):
                    j2 = J[i2][k2]
                    if j2:
                        A[i1 * n + i2, (j1 - 1) * n + (j2 - 1)] += P[k1, k2]
    return A


def _ckey(c):
    return "n=%d/m=%d/psf=%s/bc=%s" % (c["n"], c["m"], c["psfname"], c["bc"])


def _slim(c, **kw):
    d = {k: v for k, v in c.items() if k not in ("J", "A", "same", "logd")}
    d.update(kw)
    return d


def _compare_operator(ctx, prefix, key, case, A, model, tol, allow_transposed_sig=True):
    """get_matrix() and forward(e_j) against the spec's matrix.  A mismatch that is exactly the transposed operator gets
    its own signature (so that the recorded finding does not hide any other operator defect).  Returns the observed matrix."""
    d = A.shape[1]
    with _quiet():
        M = _dense(model.get_matrix())
        cols = np.column_stack([np.asarray(model.forward(np.eye(d)[:, j]), dtype=float).ravel() for j in range(d)])
        x = (np.arange(1, d + 1) ** 2 % 7 - 3).astype(float)
        fx = np.asarray(model.forward(x), dtype=float).ravel()
    for name, obs in (("matrix", M), ("forward", cols)):
        ctx.case((prefix, name, key))
        if obs.shape == A.shape and np.allclose(obs, A, rtol=0, atol=tol):
            continue
        tr = allow_transposed_sig and obs.shape == A.T.shape and np.allclose(obs, A.T, rtol=0, atol=tol)
        ctx.mismatch("%s/%s%s/%s" % (prefix, name, "_transposed" if tr else "", key), case,
                     ("model.get_matrix()" if name == "matrix" else "columns model.forward(e_j)") +
                     (" is the TRANSPOSE of the documented convolution operator" if tr else " differs from the documented operator of the specification"),
                     expected=A, observed=obs)
    # forward on a general vector must agree with the handed-out matrix (internal consistency, no oracle needed)
    if not np.allclose(fx, M @ x, rtol=1e-12, atol=tol):
        ctx.mismatch("%s/forward_vs_matrix/%s" % (prefix, key), case, "model.forward(x) differs from get_matrix() @ x", M @ x, fx)
    return M


# ------------------------------------------------------------------ PSF formulas (docstrings of the PSF helpers)
def _grid(m):
    return np.arange(m) - m // 2          # sample positions; 0 sits at the convolution centre floor(m/2)


def psf1_named(name, m, param, offset=0):
    x = _grid(m).astype(float)
    if name == "Gauss":                   # "normalized Gaussian PSF ... with standard deviation PSF_param"
        P = np.exp(-0.5 * x ** 2 / param ** 2)
    elif name == "Moffat":                # normalized Moffat, beta = 1
        P = 1.0 / (1 + x ** 2 / param ** 2)
    elif name == "Defocus":               # normalized out-of-focus blur: constant on a disc of radius param
        P = ((x - offset) ** 2 <= param ** 2).astype(float)
    return P / P.sum()


def psf2_named(name, m, param, offset=0):
    x = _grid(m).astype(float)
    X, Y = np.meshgrid(x, x)
    if name == "Gauss":
        P = np.exp(-0.5 * (X ** 2 + Y ** 2) / param ** 2)
    elif name == "Moffat":
        P = 1.0 / (1 + (X ** 2 + Y ** 2) / param ** 2)
    elif name == "Defocus":
        P = (((X - offset) ** 2 + (Y - offset) ** 2) <= param ** 2).astype(float)
    return P / P.sum()


LEGACY_DEFAULT_PARAM = {"Gauss": 10, "sinc": 15, "prolate": 15, "vonMises": 5}


def psf_legacy(name, n, param):
    """legacy circulant generator written as a PSF array centred at n/2 (docstring of _getCirculantMatrix)"""
    d = np.abs(np.arange(n) - n // 2) / n
    if name == "Gauss":
        return np.exp(-(param * d) ** 2)
    if name in ("sinc", "prolate"):
        return np.sinc(param * d)
    if name == "vonMises":
        return (np.exp(np.cos(2 * np.pi * d)) / math.e) ** param


# ------------------------------------------------------------------ (a) convolution operators
def check_conv1d(ctx, c, legacy_seen):
    import cuqi
    n, m, bc = c["n"], c["m"], c["bc"]
    P = np.array(c["psf"], dtype=float)
    A = np.array(c["A"], dtype=float)
    key = _ckey(c)
    case = _slim(c, A=c["A"])
    if P.sum() != 0:
        with _quiet(), _scripted():
            tp = cuqi.testproblem.Deconvolution1D(dim=n, PSF=P, BC=BC1DOC[bc], phantom=np.arange(1.0, n + 1))
        _compare_operator(ctx, "deconv1d", key, case, A, tp.model, 1e-12)
    # legacy form (use_legacy=True: "the legacy matrix representation of the forward model"): periodic, even dim (odd dims are
    # refused), PSF of length dim - the SAME operator as the non-legacy form for the same array: the periodic convolution of
    # the specification, centre tap dim div 2.  The exact transpose (correlation) gets its own signature (finding C17-F3),
    # any other mismatch is deconv1d_legacy/matrix/...
    if bc == "periodic" and n % 2 == 0 and m == n:
        with _quiet(), _scripted():
            tp = cuqi.testproblem.Deconvolution1D(dim=n, PSF=P, use_legacy=True, phantom=np.arange(1.0, n + 1))
        _compare_operator(ctx, "deconv1d_legacy", key, dict(case, legacy=True), A, tp.model, 1e-12)
        legacy_seen["asymmetric" if c["transpose_visible"] else "symmetric"] = legacy_seen.get("asymmetric" if c["transpose_visible"] else "symmetric", 0) + 1


def check_named1d(ctx, Jcase, name, param, size_arg, legacy=False):
    """named PSF through its sampled values: the spec's index map J applied to the sampled PSF"""
    import cuqi
    n, m, bc = Jcase["n"], Jcase["m"], Jcase["bc"]
    key = "n=%d/m=%d/psf=%s(%s)/bc=%s" % (n, m, name, "default" if param is None else "%g" % param, bc)
    case = {"kind": "named1d", "n": n, "m": m, "bc": bc, "psfname": name, "param": param, "size_arg": size_arg, "legacy": legacy}
    if legacy:
        # PSF_param not given (None): the documented defaults of the legacy kernels 10 (Gauss), 15 (sinc / prolate), 5 (vonMises)
        P = psf_legacy(name, n, LEGACY_DEFAULT_PARAM[name] if param is None else param)
        kw = {} if param is None else {"PSF_param": param}
        with _quiet(), _scripted():
            tp = cuqi.testproblem.Deconvolution1D(dim=n, PSF=name, use_legacy=True, **kw)
        A = mat_from_J(Jcase["J"], P, n)
        _compare_operator(ctx, "deconv1d_legacy", key, case, A, tp.model, 1e-12, allow_transposed_sig=False)
        return
    with _quiet(), _scripted():
        tp = cuqi.testproblem.Deconvolution1D(dim=n, PSF=name, PSF_param=param, PSF_size=size_arg, BC=BC1DOC[bc])
    if name == "Defocus":
        # position of the support is not documented: accept the centred disc or the one shifted by one sample; observe
        M = _dense(tp.model.get_matrix())
        for off in (0, -1, 1):
            A = mat_from_J(Jcase["J"], psf1_named(name, m, param, off), n)
            if np.allclose(M, A, atol=1e-12) or np.allclose(M, A.T, atol=1e-12):
                ctx.observations.setdefault("defocus1d_support_offset", {})[key] = off
                break
        else:
            off = 0
        A = mat_from_J(Jcase["J"], psf1_named(name, m, param, off), n)
    else:
        A = mat_from_J(Jcase["J"], psf1_named(name, m, param), n)
    _compare_operator(ctx, "deconv1d", key, case, A, tp.model, 1e-12)


def check_conv2d(ctx, c):
    import cuqi
    n, m, bc = c["n"], c["m"], c["bc"]
    P = np.array(c["psf"], dtype=float)
    A = np.array(c["A"], dtype=float)
    key = _ckey(c)
    with _quiet(), _scripted():
        tp = cuqi.testproblem.Deconvolution2D(dim=n, PSF=P, BC=BC2DOC[bc], phantom=np.arange(1.0, n * n + 1).reshape(n, n))
    _compare_operator(ctx, "deconv2d", key, _slim(c, A=c["A"]), A, tp.model, 1e-9, allow_transposed_sig=False)


def check_named2d(ctx, Jcase, name, param):
    import cuqi
    n, m, bc = Jcase["n"], Jcase["m"], Jcase["bc"]
    key = "n=%d/m=%d/psf=%s(%g)/bc=%s" % (n, m, name, param, bc)
    case = {"kind": "named2d", "n": n, "m": m, "bc": bc, "psfname": name, "param": param}
    with _quiet(), _scripted():
        tp = cuqi.testproblem.Deconvolution2D(dim=n, PSF=name, PSF_param=param, PSF_size=m, BC=BC2DOC[bc],
                                              phantom=np.arange(1.0, n * n + 1).reshape(n, n))
    info = tp.get_components()[2]
    Pm = None
    if isinstance(info.Miscellaneous, dict) and "PSF" in info.Miscellaneous:
        Pm = np.asarray(info.Miscellaneous["PSF"], dtype=float)
    ctx.case(("deconv2d", "psf", key))
    if name == "Defocus":
        P = None
        for off in (0, -1, 1):
            cand = psf2_named(name, m, param, off)
            if Pm is not None and Pm.shape == cand.shape and np.allclose(Pm, cand, atol=1e-13):
                ctx.observations.setdefault("defocus2d_support_offset", {})[key] = off
                P = cand
                break
        if P is None:
            P = Pm if Pm is not None else psf2_named(name, m, param, 0)
    else:
        P = psf2_named(name, m, param)
        if Pm is not None and not (Pm.shape == P.shape and np.allclose(Pm, P, atol=1e-13)):
            ctx.mismatch("deconv2d/psf/" + key, case, "the PSF handed out in Miscellaneous is not the documented normalised %s function" % name, P, Pm)
    A = mat2_from_J(Jcase["J"], P, n)
    _compare_operator(ctx, "deconv2d", key, case, A, tp.model, 1e-9, allow_transposed_sig=False)


# ------------------------------------------------------------------ (b) other documented operators
def check_abel(ctx, c):
    import cuqi
    N, h = c["N"], _q(c["h"])
    key = "N=%d/h=%d_%d" % (N, c["h"][0], c["h"][1])
    with _quiet(), _scripted():
        tp = cuqi.testproblem.Abel1D(dim=N, endpoint=N * h)
    A = _dense(tp.model.get_matrix())
    W2 = _qm(c["W2"])
    ctx.case(("abel", key))
    if A.shape != W2.shape or not np.allclose(A ** 2, W2, rtol=1e-12, atol=0) or (A < 0).any():
        ctx.mismatch("abel/weights/" + key, c, "Abel1D matrix is not the midpoint quadrature h/sqrt(s_i - t_j) (compared through the squares)",
                     expected=W2, observed=A ** 2)
    cols = np.column_stack([np.asarray(tp.model.forward(np.eye(N)[:, j]), dtype=float) for j in range(N)])
    if not np.allclose(cols, A, rtol=1e-13, atol=0):
        ctx.mismatch("abel/forward/" + key, c, "Abel1D forward(e_j) is not column j of its matrix", A, cols)


def check_wang(ctx, c):
    import cuqi
    with _quiet():
        tp = cuqi.testproblem.WangCubic()
    for p in c["pts"]:
        x = np.array(p["x"], dtype=float)
        key = "x=%d_%d" % tuple(p["x"])
        ctx.case(("wang", key))
        f = float(np.asarray(tp.model.forward(x)).ravel()[0])
        # integer inputs, integer values: compared to rounding (how the cubic is evaluated - pow, Horner - is not fixed)
        if not abs(f - p["F"]) <= 1e-12 * max(1.0, abs(p["F"])):
            ctx.mismatch("wang/forward/" + key, {"kind": "wang", "pt": p}, "WangCubic forward is not the cubic", p["F"], f)
        g = np.asarray(tp.model.gradient(np.array([1.0]), x), dtype=float).ravel()
        J = np.array(p["J"], dtype=float)
        if g.shape != J.shape or not np.allclose(g, J, rtol=1e-12, atol=1e-12):
            ctx.mismatch("wang/jacobian/" + key, {"kind": "wang", "pt": p}, "WangCubic gradient is not the derivative of the cubic", p["J"], g)


def check_poisson(ctx, c):
    import cuqi
    d, dx = c["dim"], _q(c["dx"])
    kappa = np.array(c["kappa"], dtype=float)
    f = np.array(c["f"], dtype=float)
    u = _qv(c["u"])
    key = "dim=%d/dx=%d_%d/kappa=%s/f=%s" % (d, c["dx"][0], c["dx"][1], "".join(map(str, c["kappa"])), "_".join(map(str, c["f"])))
    calls = []

    def source(xs):
        calls.append(np.array(xs, dtype=float))
        return f[:len(xs)].copy()
    variants = [("plain", {}), ("map", {"map": lambda v: 2 * v + 1, "imap": lambda v: (v - 1) / 2})]
    if d >= 4:   # observation on a sub-grid of the nodes (the library interpolates quadratically: needs >= 3 solution nodes)
        variants.append(("obs", {"observation_grid_map": lambda g: g[1:]}))
    for vname, kw in variants:
        calls.clear()
        with _quiet(), _scripted():
            tp = cuqi.testproblem.Poisson1D(dim=d, endpoint=(d - 1) * dx, source=source, exactSolution=kappa, **kw)
        ctx.case(("poisson", vname, key))
        if vname == "plain" and calls:      # where the source is evaluated is not documented: observation only
            rg = np.asarray(tp.model.range_geometry.grid, dtype=float)
            ctx.observations.setdefault("poisson_source_evaluated_on_range_grid", {})["dim=%d/dx=%g" % (d, dx)] = bool(
                len(calls[-1]) == len(rg) and np.allclose(calls[-1], rg))
        grid = np.asarray(tp.model.domain_geometry.grid, dtype=float)
        if len(grid) != d or not np.allclose(np.diff(grid), dx, rtol=1e-12):
            ctx.observe("poisson_domain_grid/" + key, grid)
            continue
        if vname == "map":
            par = (kappa - 1) / 2
            with _quiet():
                got = np.asarray(tp.model.forward(par), dtype=float)
            exp = u
        else:
            with _quiet():
                got = np.asarray(tp.model.forward(kappa), dtype=float)
            exp = u[1:] if vname == "obs" else u
        if got.shape != exp.shape or not np.allclose(got, exp, rtol=1e-10, atol=1e-12):
            ctx.mismatch("poisson/forward/%s/%s" % (vname, key), _slim(c, variant=vname),
                         "Poisson1D forward is not the solution of (D' diag(kappa) D) u = f of the specification", exp, got)
        # exact data = model(exact solution) with the given exact solution (function values)
        yex = np.asarray(tp.exactData, dtype=float)
        if yex.shape != exp.shape or not np.allclose(yex, exp, rtol=1e-10, atol=1e-12):
            ctx.mismatch("poisson/exactdata/%s/%s" % (vname, key), _slim(c, variant=vname),
                         "Poisson1D exactData is not the solution for the given exactSolution", exp, yex)


def heat_requests(tier):
    """(N, dx, T) constructor arguments; the number of steps is whatever the code chooses (read from the public time grid)"""
    out = []
    for N in (2, 3, 4):
        for K in (1, 2, 4, 7, 9):
            out.append((N, 1.0, K / 2))
        out.append((N, 0.5, 0.5))
        out.append((N, 0.5, 1.0))
        out.append((N, 1.0, 0.625))
        out.append((N, 1.0, 1.25))
        out.append((N, 1.0, 0.75))
        # max_time = 0: admissible ("the last time step") and falsy; on a grid where the default 0.2 would take several steps
        out.append((N, 0.2, 0))
        out.append((N, 1.0, 0.0))
    return out


def check_heat(ctx, table, N, dx, T, stats):
    import cuqi
    u0s = sorted({tuple(c["u0"]) for c in table.values() if c["N"] == N})
    for u0 in u0s:
        with _quiet(), _scripted():
            tp = cuqi.testproblem.Heat1D(dim=N, endpoint=(N + 1) * dx, max_time=T, exactSolution=np.array(u0, dtype=float))
        pde = tp.model.pde
        if not hasattr(pde, "time_steps") or not hasattr(pde, "method"):
            from cuqiverif.core import MachineryError
            raise MachineryError("Heat1D model.pde has no time_steps / method attribute")
        ts = np.asarray(pde.time_steps, dtype=float)
        grid = np.asarray(tp.model.domain_geometry.grid, dtype=float)
        key = "N=%d/dx=%g/T=%g/u0=%s" % (N, dx, T, "_".join(map(str, u0)))
        case = {"kind": "heatreq", "N": N, "dx": dx, "T": T, "u0": list(u0)}
        ctx.case(("heat", "timegrid", key))
        # documented: max_time is the last time step; the grid starts at 0
        if abs(ts[-1] - T) > 1e-12 * max(1, T) or ts[0] != 0:
            ctx.mismatch("heat/timegrid/" + key, case, "time grid does not run from 0 to max_time", [0, T], [ts[0], ts[-1]])
            continue
        K = len(ts) - 1
        dts = np.diff(ts)
        h = np.diff(np.concatenate([[0.0], grid]))
        if K == 0:
            # max_time = 0 (given, falsy): no step; the spec's K = 0 instance (its r is irrelevant)
            c = next((v for kk, v in table.items() if kk[0] == N and kk[3] == 0 and kk[4] == u0), None)
            fr = Fraction(c["r"][0], c["r"][1]) if c else None
            r = float(fr) if c else 0.0
            if c is not None:
                stats["k0"] = stats.get("k0", 0) + 1
                FALSY_SEEN[("Heat1D", "heat.K")] = FALSY_SEEN.get(("Heat1D", "heat.K"), 0) + 1
        elif pde.method != "forward_euler" or not np.allclose(dts, dts[0], rtol=1e-12) or not np.allclose(h, h[0], rtol=1e-12):
            stats["skipped"] += 1
            continue
        else:
            r = dts[0] / h[0] ** 2
            fr = Fraction(r).limit_denominator(64)
            c = table.get((N, fr.numerator, fr.denominator, K, u0)) if abs(float(fr) - r) < 1e-12 else None
        if c is None:
            stats["skipped"] += 1
            ctx.observations.setdefault("heat_unmatched_step", {})[key] = [K, r]
            continue
        stats["matched"] += 1
        stats["rk"].add((str(fr), K))
        exp = _qv(c["u"])
        with _quiet():
            got = np.asarray(tp.model.forward(np.array(u0, dtype=float)), dtype=float)
        ctx.case(("heat", "forward", key))
        if got.shape != exp.shape or not np.allclose(got, exp, rtol=1e-10, atol=1e-13):
            ctx.mismatch("heat/forward/" + key, dict(case, K=K, r=[fr.numerator, fr.denominator]),
                         "Heat1D forward is not K explicit Euler steps of u_t = u_xx with zero boundary values", exp, got)
        yex = np.asarray(tp.exactData, dtype=float)
        if yex.shape != exp.shape or not np.allclose(yex, exp, rtol=1e-10, atol=1e-13):
            ctx.mismatch("heat/exactdata/" + key, dict(case, K=K), "Heat1D exactData is not the solution for the given initial condition", exp, yex)
        # observation on a sub-grid of the nodes = restriction (the library's cubic spline needs >= 4 nodes and time levels)
        if N < 4 or K < 3:
            continue
        with _quiet(), _scripted():
            tp2 = cuqi.testproblem.Heat1D(dim=N, endpoint=(N + 1) * dx, max_time=T, exactSolution=np.array(u0, dtype=float),
                                          observation_grid_map=lambda g: g[1:])
            got2 = np.asarray(tp2.model.forward(np.array(u0, dtype=float)), dtype=float)
        ctx.case(("heat", "obs", key))
        if got2.shape != exp[1:].shape or not np.allclose(got2, exp[1:], rtol=1e-9, atol=1e-12):
            ctx.mismatch("heat/forward_obs/" + key, dict(case, K=K), "Heat1D observed on a sub-grid of the nodes is not the restriction of the solution", exp[1:], got2)


# ------------------------------------------------------------------ (c) object consistency
def _phantom_img(x, n):
    return np.array(x, dtype=float).reshape(n, n)


LEGACY_PSF = {"lgauss": "gauss", "lsinc": "sinc", "lvonmises": "vonMises"}
NAMED_PHANTOM = {"gauss": "Gauss", "sinc": "sinc", "vonmises": "vonMises"}
FALSY_SEEN = {}          # (problem, option field) -> number of replayed cases in which the given value is falsy


def _given(c, k):
    return bool(c["args"][k][0])


def _num(q):
    """a rational of the spec as the Python number a user would write (0 -> int 0, 1/2 -> 0.5)"""
    return int(q[0]) if q[1] == 1 else q[0] / q[1]


def build_problem(c):
    """realisation: option record -> real test problem, constructed under the scripted global stream.  Arguments that the
    spec's call does not give are omitted, given ones are passed as given (also 0 and all-zero arrays).
    Returns (tp, stream, extras)"""
    import cuqi
    p = c["problem"]
    n = c["n"]
    a = c["args"]
    Z = np.array(c["Z"], dtype=float) if c["Z"] else None
    x = np.array(c["x"], dtype=float)
    kw = {}
    prior = None
    if _given(c, "prior"):
        prior = cuqi.distribution.Gaussian(np.ones(c["domdim"]), 4, name="x")
        kw["prior"] = prior
    extras = {"given_prior": prior}
    if _given(c, "level"):
        kw["SNR" if c["noise"] == "snr" else "noise_std"] = _num(a["level"][1])
    if p.startswith("Deconvolution"):
        kw["noise_type"] = c["noise"]
        if _given(c, "psf"):
            nm = a["psf"][1]
            kw["PSF"] = LEGACY_PSF[nm] if nm in LEGACY_PSF else np.array(c["psf"], dtype=float)
        if _given(c, "psfparam"):
            kw["PSF_param"] = _num(a["psfparam"][1])
        if _given(c, "phantom"):
            nm = a["phantom"][1]
            kw["phantom"] = NAMED_PHANTOM[nm] if nm in NAMED_PHANTOM else (_phantom_img(x, n) if p == "Deconvolution2D" else x)
        if _given(c, "pparam"):
            kw["phantom_param"] = _num(a["pparam"][1])
    elif p in ("Heat1D", "Poisson1D") and _given(c, "exsol"):
        kw["exactSolution"] = x
    if p == "WangCubic" and _given(c, "wdata"):
        v = a["wdata"][1]
        kw["data"] = {"int": _num(v), "float": float(v[0] / v[1]), "vec": np.array([v[0] / v[1]], dtype=float)}[c["wform"]]
    if p in ("Heat1D", "Poisson1D", "Abel1D") and "ftype" in a:
        # field options (Part D of the spec): field_type / field_params / map / imap (Abel1D: KL_map / KL_imap) / source
        from cuqiverif import c17_field
        fkw, fex = c17_field.field_kwargs(c)
        kw.update(fkw)
        extras.update(fex)
    with _quiet(), _scripted(Z) as st:
        if p == "Deconvolution1D":
            tp = cuqi.testproblem.Deconvolution1D(dim=n, BC=BC1DOC[c["bc"]], **kw)
        elif p == "Deconvolution1D_legacy":
            tp = cuqi.testproblem.Deconvolution1D(dim=n, use_legacy=True, **kw)
        elif p == "Deconvolution2D":
            tp = cuqi.testproblem.Deconvolution2D(dim=n, BC=BC2DOC[c["bc"]], **kw)
        elif p == "Heat1D":
            tp = cuqi.testproblem.Heat1D(dim=n, endpoint=n + 1, max_time=1, **kw)
        elif p == "Poisson1D":
            tp = cuqi.testproblem.Poisson1D(dim=n, endpoint=n - 1, **kw)
        elif p == "Abel1D":
            tp = cuqi.testproblem.Abel1D(dim=n, endpoint=2, **kw)
        elif p == "WangCubic":
            tp = cuqi.testproblem.WangCubic(**kw)
        else:
            from cuqiverif.core import MachineryError
            raise MachineryError("unknown problem %r" % p)
    return tp, st, extras


def _argkey(c, k):
    g, v = c["args"][k]
    if not g:
        return "-"
    return "%d_%d" % tuple(v) if isinstance(v, list) else str(v)


def _pkey(c):
    key = "%s/n=%d/m=%d/psf=%s/bc=%s/phantom=%s/noise=%s/level=%s/prior=%s/z=%s/exsol=%s/wdata=%s" % (
        c["problem"], c["n"], c["m"], _argkey(c, "psf"), c["bc"], _argkey(c, "phantom"), c["noise"], _argkey(c, "level"),
        _argkey(c, "prior"), c["zpat"], _argkey(c, "exsol"), _argkey(c, "wdata"))
    for k in ("psfparam", "pparam"):
        if _given(c, k):
            key += "/%s=%s" % (k, _argkey(c, k))
    if c["wform"] != "na":
        key += "/wform=" + c["wform"]
    if any(k in c["args"] and _given(c, k) for k in ("ftype", "fparams", "fmap", "fimap")):
        from cuqiverif import c17_field
        key += c17_field.field_key(c)
    return key


def _resolve(tp, comps, path):
    model, data, info = comps
    table = {
        "components.model": lambda: model, "components.data": lambda: data,
        "problem.model": lambda: tp.model, "problem.data": lambda: tp.data,
        "problem.likelihood": lambda: tp.likelihood, "problem.prior": lambda: tp.prior,
        "likelihood.model": lambda: tp.likelihood.model, "likelihood.data": lambda: tp.likelihood.data,
        "posterior.likelihood": lambda: tp.posterior.likelihood, "posterior.prior": lambda: tp.posterior.prior,
        "posterior.data": lambda: tp.posterior.data, "posterior.model": lambda: tp.posterior.model,
    }
    return table[path]()


def _is_default_geom(g):
    from cuqi.geometry import _DefaultGeometry
    return isinstance(g, _DefaultGeometry)


def _same_geom(a, b):
    """same geometry: identical object, equal by the library's ==, or same class / shape / grid (== also compares the
    internal variable name, which is not part of the property)"""
    if a is b or a == b:
        return True
    if type(a) is not type(b) or a.par_shape != b.par_shape:
        return False
    ga, gb = getattr(a, "grid", None), getattr(b, "grid", None)
    if ga is None or gb is None:
        return False
    try:
        return all(np.array_equal(np.asarray(u), np.asarray(v)) for u, v in zip(ga, gb)) if isinstance(ga, tuple) else np.array_equal(np.asarray(ga), np.asarray(gb))
    except Exception:
        return False


def _geoms_compatible(gs):
    """library convention: a default geometry is compatible with anything of the same size; others must be equal"""
    real = [g for g in gs if g is not None and not _is_default_geom(g)]
    ok = all(_same_geom(real[0], g) for g in real[1:]) if real else True
    dims = {g.par_dim for g in gs if g is not None}
    return ok and len(dims) <= 1


def check_problem(ctx, c, legacy_match):
    """replay the 9 actions of one emitted behaviour (construction + get_components) and compare the final record"""
    import cuqi
    key = _pkey(c)
    p = c["problem"]
    case = _slim(c)
    fam = {"Deconvolution1D": "deconv1d", "Deconvolution1D_legacy": "deconv1d_legacy", "Deconvolution2D": "deconv2d",
           "Heat1D": "heat", "Poisson1D": "poisson", "Abel1D": "abel", "WangCubic": "wang"}[p]
    sig = lambda what: "problem/%s/%s" % (what, key)
    try:
        tp, st, extras = build_problem(c)
    except Exception as e:
        from cuqiverif.script_rng import ScriptError
        if isinstance(e, ScriptError):
            raise
        ctx.mismatch(sig("construct"), case, "test problem cannot be constructed for a documented option combination: %r" % (e,))
        return False
    numeric = c["numeric"]            # the operator is known exactly
    xknown, yknown = c["xknown"], c["yknown"]
    level = c["used"]["level"]        # the spec's Used(noise_std / SNR): the given level, otherwise the documented default
    x = np.array(c["x"], dtype=float)
    Z = np.array(c["Z"], dtype=float)
    # --- operator of numeric (deconvolution) problems: use the spec's numbers when the operator conforms, otherwise the
    #     spec's relations on the observed operator (the operator defect itself is reported by the operator checks)
    A_spec = np.array(c["A"], dtype=float) if numeric else None
    conforms = True
    if numeric:
        with _quiet():
            A_obs = _dense(tp.model.get_matrix())
        conforms = A_obs.shape == A_spec.shape and np.allclose(A_obs, A_spec, atol=1e-9)
    ctx.case(("problem", key))
    ctx.facets[fam] = ctx.facets.get(fam, 0) + 1
    for k in c["falsy"]:
        FALSY_SEEN[(p, k)] = FALSY_SEEN.get((p, k), 0) + 1
    if numeric and not conforms and ("psf" in c["falsy"] or "psfparam" in c["falsy"]):
        # (all-zero PSF arrays / PSF_param = 0 are not part of the operator sweep of Conv.tla: reported here)
        ctx.mismatch(sig("operator"), case, "the model is not the convolution with the GIVEN point-spread function "
                     "(given value: %s)" % ", ".join("%s=%s" % (k, _argkey(c, k)) for k in ("psf", "psfparam") if _given(c, k)),
                     expected=A_spec, observed=A_obs)
    elif numeric and not conforms and p == "Deconvolution1D_legacy":
        # (the legacy lattice has kernels that are not part of the operator sweep of Conv.tla: reported here; the exact
        #  transpose = correlation has its own signature, finding C17-F3; the relations below use the observed operator)
        tr = A_obs.shape == A_spec.T.shape and np.allclose(A_obs, A_spec.T, atol=1e-9)
        ctx.mismatch(sig("operator_transposed" if tr else "operator"), case,
                     "the legacy matrix is " + ("the TRANSPOSE (correlation) of" if tr else "not") + " the periodic convolution with the given PSF "
                     "(the forward model of the non-legacy form for the same array)", expected=A_spec, observed=A_obs)
    # --- Part D: the field options (geometry selection, map applied for every form of field_type) ---
    if c.get("field", {}).get("fcase"):
        from cuqiverif import c17_field
        if not c17_field.check_field(ctx, c, tp, extras, key, case, _quiet, _scripted, _same_geom):
            return True
    # --- GetComponents ---
    comps = tp.get_components()
    model, data, info = comps
    # SameModel / SameData: reference identities listed by the spec
    for a, b in c["same"]:
        oa, ob = _resolve(tp, comps, a), _resolve(tp, comps, b)
        if oa is ob:
            continue
        if a.endswith(".data") and b.endswith(".data"):
            # "the same data": an equal-valued array with the same geometry handed out as a copy is the same data
            # (nothing observable distinguishes it); recorded, not judged
            try:
                va, vb = np.asarray(oa, dtype=float), np.asarray(ob, dtype=float)
                same_val = va.shape == vb.shape and np.array_equal(va, vb) and \
                    _same_geom(getattr(oa, "geometry", None), getattr(ob, "geometry", None))
            except Exception:       # noqa: BLE001
                same_val = False
            if same_val:
                ctx.observations.setdefault("data_handed_out_as_equal_copy", {})["%s=%s" % (a, b)] = True
                continue
        ctx.mismatch(sig("same/%s=%s" % (a, b)), case, "%s and %s are not the same object" % (a, b))
    # info record
    for fld, want in c["info"].items():
        have = getattr(info, fld, None) is not None
        if fld == "infoString":
            if have and (p.startswith("Deconvolution") or p == "WangCubic"):
                s = str(info.infoString)
                # the stated level must appear as a number, however it is formatted (2, 2.0, 2.00, 5e-1 ...)
                import re
                nums = []
                for tok in re.findall(r"(?<![\w.])[-+]?(?:\d+\.?\d*|\.\d+)(?:[eE][-+]?\d+)?(?![\w])", s):
                    try:
                        nums.append(float(tok))
                    except ValueError:
                        pass
                if not any(abs(v - _q(level)) <= 1e-9 * max(1.0, abs(v)) for v in nums):
                    ctx.mismatch(sig("infostring"), case, "infoString does not state the noise level", str(_q(level)), s)
            continue
        if have != want:
            ctx.mismatch(sig("info/" + fld), case, "get_components() info.%s set=%s, expected %s" % (fld, have, want))
    # SameGeometries
    dom = [tp.model.domain_geometry, getattr(tp.prior, "geometry", None), getattr(tp.posterior, "geometry", None),
           getattr(tp.likelihood, "geometry", None)]
    rng = [tp.model.range_geometry, getattr(data, "geometry", None), getattr(tp.likelihood.distribution, "geometry", None)]
    if p != "WangCubic":
        dom.append(getattr(tp.exactSolution, "geometry", None))
        rng.append(getattr(tp.exactData, "geometry", None))
        if not _same_geom(getattr(tp.exactSolution, "geometry", None), tp.model.domain_geometry):
            ctx.mismatch(sig("geometry/exactSolution"), case, "exactSolution does not carry the model's domain geometry")
        if not _same_geom(getattr(tp.exactData, "geometry", None), tp.model.range_geometry):
            ctx.mismatch(sig("geometry/exactData"), case, "exactData does not carry the model's range geometry")
    if not _geoms_compatible(dom):
        ctx.mismatch(sig("geometry/domain"), case, "domain-side geometries (model, prior, posterior, likelihood, exactSolution) are inconsistent", None, [repr(g) for g in dom])
    if not _geoms_compatible(rng):
        ctx.mismatch(sig("geometry/range"), case, "range-side geometries (model, data, data distribution, exactData) are inconsistent", None, [repr(g) for g in rng])
    # --- draws consumed from the global stream ---
    normals = [l for l in st.log if l[1] == "normal"]
    others = [l for l in st.log if l[1] != "normal"]
    if others:
        ctx.observations.setdefault("non_normal_draws", {})[key] = [l[0] for l in others]
    if p == "WangCubic":
        if normals:
            ctx.observations.setdefault("wang_draws", {})[key] = len(normals)
    else:
        if not normals or int(np.prod(normals[0][2])) != len(Z):
            ctx.mismatch(sig("draws"), case, "the noise is not one standard-normal draw per data point from the global stream",
                         len(Z), [l[2] for l in normals])
            return True
        if len(normals) > 1:
            ctx.observations.setdefault("extra_normal_draws", {})[key] = len(normals) - 1
    # --- ExactDataIsModelOfExactSolution ---
    yex = None
    if p != "WangCubic":
        xs = np.asarray(tp.exactSolution, dtype=float).ravel()
        yex = np.asarray(tp.exactData, dtype=float).ravel()
        if xknown:
            if xs.shape != x.shape or not np.allclose(xs, x, rtol=1e-9, atol=1e-9):
                ctx.mismatch(sig("exactsolution"), case, "exactSolution is not the given phantom / exact solution "
                             "(the spec's Used(phantom, phantom_param / exactSolution))", x, xs)
        with _quiet():
            if p in ("Heat1D", "Poisson1D", "Abel1D"):
                y_model = np.asarray(tp.model.forward(np.asarray(tp.exactSolution), is_par=False), dtype=float).ravel()
            else:
                y_model = np.asarray(tp.model.forward(np.asarray(tp.exactSolution)), dtype=float).ravel()
        if yex.shape != y_model.shape or not np.allclose(yex, y_model, rtol=1e-10, atol=1e-12):
            ctx.mismatch(sig("exactdata_model"), case, "exactData is not the problem's model applied to exactSolution", y_model, yex)
        if yknown:
            y_spec = np.array(c["y"], dtype=float) if (conforms or not numeric) else A_obs @ x
            if yex.shape != y_spec.shape or not np.allclose(yex, y_spec, rtol=1e-10, atol=1e-10):
                ctx.mismatch(sig("exactdata"), case, "exactData is not the documented operator applied to the phantom / exact solution", y_spec, yex)
    # --- NoiseRelation ---
    d = np.asarray(tp.data, dtype=float).ravel()
    sc = c["scale"]
    v = _q(sc["v"])
    if p == "WangCubic":
        svec = np.array([v])
        want = _q(c["data"][0])       # the spec's Used(data): the given observation (also 0), otherwise the documented 1
        if d.shape != (1,) or d[0] != want:
            ctx.mismatch(sig("data"), case, "WangCubic data is not the given / default observation", want, d)
    else:
        if sc["kind"] == "const":
            svec = np.full(len(yex), v)
        elif sc["kind"] == "absdata":
            svec = v * np.abs(yex)
        else:   # snr: one scalar sigma, read from the arguments of the draw; the ratio itself is not documented
            args = normals[0][3] or {}
            sigma = float(np.asarray(args.get("scale", np.nan)).ravel()[0]) if np.size(args.get("scale", np.nan)) == 1 else float("nan")
            loc = args.get("loc", 0)
            zero_signal = yknown and not np.any(np.array(c["y"], dtype=float))     # zero exact data: no signal, sigma = 0 is fine
            if not (sigma > 0 or (zero_signal and sigma == 0)) or np.any(np.asarray(loc) != 0):
                ctx.mismatch(sig("noise_scalar"), case, "SNR noise is not zero-mean with one positive scalar standard deviation", None, args)
                return True
            svec = np.full(len(yex), sigma)
            if np.linalg.norm(yex) > 0:
                ctx.observations.setdefault("snr_times_sigma_over_norm_exactdata", {})[p] = round(float(sigma * v / np.linalg.norm(yex)), 12)
        exp_d = yex + svec * Z
        if d.shape != exp_d.shape or not np.allclose(d, exp_d, rtol=1e-10, atol=1e-12):
            ctx.mismatch(sig("noise"), case, "data - exactData is not NoiseScale(%s, level, exactData) .* Z" % c["noise"], exp_d - yex, d - yex)
        if c["dknown"] and conforms:
            if not np.allclose(d, _qv(c["data"]), rtol=1e-10, atol=1e-12):
                ctx.mismatch(sig("data"), case, "data differ from the specification's exactData + scale .* Z", _qv(c["data"]), d)
            if not np.allclose(svec, _qv(c["svec"]), rtol=1e-10):
                ctx.mismatch(sig("scale"), case, "noise scales differ from the specification", _qv(c["svec"]), svec)
    # --- PosteriorIsLikPlusPrior: independent Gaussian formulas ---
    pm = np.array(c["prior_mean"], dtype=float)
    pv = _q(c["prior_var"])
    if p in ("Heat1D", "Poisson1D", "Abel1D"):
        pts = [np.ones(len(pm)), np.arange(1.0, len(pm) + 1), 1 + (np.arange(len(pm)) % 2)]
        if p == "Poisson1D" and c.get("field", {}).get("fcase"):
            # the Poisson operator is defined for a POSITIVE conductivity field (the sine expansions without a positive map
            # produce fields of mixed sign: nothing is stated there)
            with _quiet():
                pts = [q for q in pts if np.all(np.asarray(tp.model.domain_geometry.par2fun(q), dtype=float) > 0)]
        pts = [(q, None, None) for q in pts]
    else:
        pts = [(np.array(e["x"], dtype=float), _qv(e["res"]) if e["res"] else None, _q(e["priorq"])) for e in c["logd"]]
    if not np.all(svec > 0):
        # zero exact data under the SNR option: the noise-free likelihood is degenerate, no density is stated
        ctx.observations.setdefault("degenerate_likelihood_zero_signal", {})[key] = True
        pts = []
    for x0, res_spec, pq_spec in pts:
        with _quiet():
            got = float(np.asarray(tp.posterior.logd(x0)).ravel()[0])
            mu = np.asarray(tp.model.forward(x0), dtype=float).ravel()
        res = (d - mu) / svec
        if res_spec is not None and (p == "WangCubic" or conforms):
            if not np.allclose(res, res_spec, rtol=1e-9, atol=1e-9):
                ctx.mismatch(sig("residual"), case, "standardised residual (data - model(x))/scale differs from the specification", res_spec, res)
            res = res_spec
        pq = float(np.sum((x0 - pm) ** 2) / pv)
        if pq_spec is not None and abs(pq - pq_spec) > 1e-12 * max(1, abs(pq)):
            from cuqiverif.core import MachineryError
            raise MachineryError("prior quadratic form of the harness differs from the specification")
        loglik = -0.5 * float(np.sum(res ** 2)) - float(np.sum(np.log(svec))) - 0.5 * len(svec) * LOG2PI
        logprior = -0.5 * pq - 0.5 * len(pm) * (LOG2PI + math.log(pv))
        exp = loglik + logprior
        if not np.isfinite(got) or abs(got - exp) > 1e-9 * max(1.0, abs(exp)):
            ctx.mismatch(sig("logd"), dict(case, x0=x0.tolist()),
                         "posterior.logd(x) is not Gaussian log-likelihood of the stated noise + log-prior", exp, got)
            break
        with _quiet():
            gl = float(np.asarray(tp.likelihood.logd(x0)).ravel()[0])
            gp = float(np.asarray(tp.prior.logd(x0)).ravel()[0])
        if abs(gl - loglik) > 1e-9 * max(1.0, abs(loglik)) or abs(gp - logprior) > 1e-9 * max(1.0, abs(logprior)):
            ctx.mismatch(sig("logd_parts"), dict(case, x0=x0.tolist()), "likelihood.logd / prior.logd differ from the Gaussian formulas",
                         [loglik, logprior], [gl, gp])
            break
    return True


# ------------------------------------------------------------------ driver
DEVIATIONS = [("Conv", "Conv.deviation.cfg", "ColumnsAreConv", ()),
              ("TestProblems", "TestProblems.dev_VarianceAsStd.cfg", "NoiseRelation", ("Conv.tla",)),
              ("TestProblems", "TestProblems.dev_OtherModelInstance.cfg", "SameModel", ("Conv.tla",)),
              ("TestProblems", "TestProblems.dev_GetComponentsCopiesData.cfg", "SameData", ("Conv.tla",)),
              ("TestProblems", "TestProblems.dev_OtherPhantom.cfg", "ExactDataIsModelOfExactSolution", ("Conv.tla",)),
              ("TestProblems", "TestProblems.dev_TruthinessDefault.cfg", "GivenIsUsed", ("Conv.tla",)),
              ("TestProblems", "TestProblems.dev_GeometryObjectSkipsMap.cfg", "MapGivenIsApplied", ("Conv.tla",)),
              ("TestProblems", "TestProblems.dev_LegacyCorrelation.cfg", "LegacyIsSameForwardModel", ("Conv.tla",))]

ACTIONS = ["ResolveOptions", "SelectGeometry", "BuildModel", "MakeExact", "MakeDataDist", "SampleData", "MakeLikelihood", "Assemble", "GetComponents"]


def _named_sweep(tier):
    # (name, param) ; sizes come from the emitted (n, m, bc) index maps
    return [("Gauss", 1.5), ("Moffat", 2.0), ("Defocus", 1.0)] + ([("Gauss", 0.7), ("Defocus", 2.0)] if tier == "thorough" else [])


def replay_conv(ctx, cases, tier, only=None):
    from cuqiverif.core import MachineryError
    c1 = [c for c in cases if c["kind"] == "conv1d"]
    c2 = [c for c in cases if c["kind"] == "conv2d"]
    if not c1 or not c2:
        raise MachineryError("Conv emitted no 1-D or no 2-D cases")
    legacy_seen = {}
    for c in c1:
        check_conv1d(ctx, c, legacy_seen)
    for c in c2:
        check_conv2d(ctx, c)
    if legacy_seen:
        ctx.observe("legacy_custom_psf_kernels_compared", legacy_seen)
    if not legacy_seen.get("asymmetric") and not ctx.violations:
        raise MachineryError("no asymmetric custom PSF was compared in the legacy form")
    # named PSFs / random float PSFs through the spec's index map (one J per (n, m, bc))
    J1 = {(c["n"], c["m"], c["bc"]): c for c in c1 if c["psfname"] == "ramp"}
    J2 = {(c["n"], c["m"], c["bc"]): c for c in c2 if c["psfname"] == "ramp"}
    nmax = max(k[0] for k in J1)
    rng = np.random.RandomState(ctx.seed + 17)
    for (n, m, bc), jc in sorted(J1.items()):
        if n < nmax - 1:
            continue
        for name, param in _named_sweep(tier):
            if m >= 2:
                check_named1d(ctx, jc, name, param, m)
        if m == n:   # PSF_size omitted: the documented default is dim
            check_named1d(ctx, jc, "Gauss", 1.5, None)
        # seeded random float PSF (custom ndarray)
        P = np.round(rng.uniform(-1, 2, size=m), 3)
        if abs(P.sum()) > 1e-6:
            import cuqi
            with _quiet(), _scripted():
                tp = cuqi.testproblem.Deconvolution1D(dim=n, PSF=P, BC=BC1DOC[bc], phantom=np.arange(1.0, n + 1))
            _compare_operator(ctx, "deconv1d", "n=%d/m=%d/psf=random/bc=%s" % (n, m, bc),
                              {"kind": "random1d", "n": n, "m": m, "bc": bc, "psf": P.tolist()}, mat_from_J(jc["J"], P, n), tp.model, 1e-12)
    # legacy named PSFs (even dim, periodic)
    for (n, m, bc), jc in sorted(J1.items()):
        if bc == "periodic" and m == n and n % 2 == 0:
            # every documented legacy kernel, PSF_param given (default value, another value) / not given
            for name, param in (("Gauss", 10), ("sinc", 15), ("prolate", 3), ("vonMises", 5),
                                ("Gauss", 4), ("sinc", 7), ("vonMises", 3), ("Gauss", None), ("sinc", None), ("prolate", None), ("vonMises", None)):
                check_named1d(ctx, jc, name, param, None, legacy=True)
            # seeded random float kernel (asymmetric custom ndarray) in the legacy form
            P = np.round(rng.uniform(-1, 2, size=n), 3)
            import cuqi
            with _quiet(), _scripted():
                tp = cuqi.testproblem.Deconvolution1D(dim=n, PSF=P, use_legacy=True, phantom=np.arange(1.0, n + 1))
            _compare_operator(ctx, "deconv1d_legacy", "n=%d/m=%d/psf=random/bc=%s" % (n, m, bc),
                              {"kind": "random1d", "n": n, "m": m, "bc": bc, "psf": P.tolist(), "legacy": True}, mat_from_J(jc["J"], P, n), tp.model, 1e-12)
    n2max = max(k[0] for k in J2)
    for (n, m, bc), jc in sorted(J2.items()):
        if n == n2max and m >= 2:
            for name, param in _named_sweep(tier)[:3]:
                check_named2d(ctx, jc, name, param)


def replay_models(ctx, cases, tier):
    from cuqiverif.core import MachineryError
    kinds = {}
    for c in cases:
        kinds.setdefault(c["kind"], []).append(c)
    for k in ("abel", "wang", "poisson", "heat", "problem", "options"):
        if not kinds.get(k):
            raise MachineryError("TestProblems emitted no %s case" % k)
    for c in kinds["abel"]:
        check_abel(ctx, c)
    for c in kinds["wang"]:
        check_wang(ctx, c)
    for c in kinds["poisson"]:
        check_poisson(ctx, c)
    table = {(c["N"], c["r"][0], c["r"][1], c["K"], tuple(c["u0"])): c for c in kinds["heat"]}
    stats = {"matched": 0, "skipped": 0, "rk": set()}
    for (N, dx, T) in heat_requests(tier):
        check_heat(ctx, table, N, dx, T, stats)
    ctx.observe("heat_cases", {"matched": stats["matched"], "skipped": stats["skipped"], "r_K": sorted(stats["rk"])})
    if stats["matched"] == 0 and not ctx.violations:
        raise MachineryError("no Heat1D construction matched an emitted (r, K) case - nothing compared")
    return kinds


def _legacy_verdict(ctx, legacy_match):
    for lk, ok in sorted(legacy_match.items()):
        if not ok:
            ctx.mismatch("deconv1d_legacy/matrix/n=%d/psf=%s" % lk, {"kind": "legacy", "n": lk[0], "psfname": lk[1]},
                         "legacy operator matches neither orientation variant of the specification (for the GIVEN PSF / PSF_param)")


def replay_problems(ctx, probs):
    from cuqiverif.core import MachineryError
    legacy_match = {}
    done = 0
    per = {}
    for c in probs:
        if check_problem(ctx, c, legacy_match):
            done += 1
            per[c["problem"]] = per.get(c["problem"], 0) + 1
    _legacy_verdict(ctx, legacy_match)
    for p in ("Deconvolution1D", "Deconvolution1D_legacy", "Deconvolution2D", "Heat1D", "Poisson1D", "Abel1D", "WangCubic"):
        if not per.get(p) and not ctx.violations:
            raise MachineryError("no behaviour of %s was replayed" % p)
    return done


def check_option_table(ctx, table):
    """Part C of the spec: every option with a default of every test problem.  Each row that lists an admissible falsy value
    must have been realised by at least one replayed construction (vacuity guard); rows without one are recorded with the reason."""
    from cuqiverif.core import MachineryError
    rows = table["rows"]
    missing = [(r["problem"], r["option"]) for r in rows if r["falsy"] and not FALSY_SEEN.get((r["problem"], r["field"]))]
    ctx.observe("falsy_option_values_replayed", {"%s.%s" % (r["problem"], r["option"]): FALSY_SEEN.get((r["problem"], r["field"]), 0)
                                                 for r in rows if r["falsy"]})
    ctx.observe("options_without_admissible_falsy_value", {"%s.%s" % (r["problem"], r["option"]): r["why"] for r in rows if not r["falsy"]})
    if missing and not ctx.violations:
        raise MachineryError("falsy option values of the spec's OptionTable were not replayed: %r" % (missing,))


def run(ctx):
    from cuqiverif import tlc as _tlc
    from cuqiverif.core import MachineryError
    tier = ctx.tier
    FALSY_SEEN.clear()
    from cuqiverif import c17_field
    c17_field.SEEN.clear()
    c17_field.STATS.clear()
    # 1. the specifications, model-checked
    rc = ctx.tlc("Conv", cfg="Conv.%s.cfg" % tier, workers=16, timeout=1500)
    ctx.model_must_hold(rc, "Conv")
    _tlc.cleanup(rc)            # (the emitted cases stay in memory; nothing is left under .work if the replay stops early)
    # (every emitted "problem" case is a final state reached through all nine actions, so their presence - checked in
    #  replay_models - is the non-vacuity of the actions; per-action coverage is measured in the thorough tier)
    rt = ctx.tlc("TestProblems", cfg="TestProblems.%s.cfg" % tier, workers=16, timeout=1500, extra_modules=("Conv.tla",),
                 require_actions=ACTIONS if tier == "thorough" else None)
    ctx.model_must_hold(rt, "TestProblems")
    _tlc.cleanup(rt)
    # 2. named deviations: TLC must return a counterexample to the named invariant (design-level explanation + non-vacuity)
    for spec, cfg, inv, extra in DEVIATIONS:
        rd = ctx.tlc(spec, cfg=cfg, workers=4, timeout=600, extra_modules=extra, expect_violation=True)
        if rd.ok or rd.violated != inv:
            raise MachineryError("deviation run %s did not violate %s (violated=%r): invariant vacuous" % (cfg, inv, rd.violated))
        _tlc.cleanup(rd)
    # ... and the deviation LegacyCorrelation is NOT refuted on circulant-symmetric kernels (a symmetric kernel cannot tell)
    rs = ctx.tlc("TestProblems", cfg="TestProblems.dev_LegacyCorrelation_sym.cfg", workers=4, timeout=600, extra_modules=("Conv.tla",))
    ctx.model_must_hold(rs, "TestProblems (LegacyCorrelation on symmetric kernels)")
    _tlc.cleanup(rs)
    # 3. replay
    replay_conv(ctx, rc.cases, tier)
    kinds = replay_models(ctx, rt.cases, tier)
    nb = replay_problems(ctx, kinds["problem"])
    check_option_table(ctx, kinds["options"][0])
    c17_field.check_coverage(ctx)
    # 4. sequences of public operations on ONE test-problem object (specs/TestProblemsSeq.tla, facet seq/...)
    from cuqiverif import c17_seq
    nb += c17_seq.run_seq(ctx, tier)
    # samples
    ex = [c for c in rc.cases if c["kind"] == "conv1d" and c["n"] == 4 and c["m"] == 4 and c["psfname"] == "ramp" and c["bc"] == "mirror"]
    if ex:
        ctx.sample({"case": {k: ex[0][k] for k in ("kind", "n", "m", "bc", "psf", "centre", "A", "J")}})
    ex = [c for c in rc.cases if c["kind"] == "conv2d" and c["n"] == 2 and c["m"] == 2 and c["psfname"] == "ramp" and c["bc"] == "neumann"]
    if ex:
        ctx.sample({"case": {k: ex[0][k] for k in ("kind", "n", "m", "bc", "psf", "A")}})
    ctx.sample({"case": kinds["abel"][0]})
    ctx.sample({"case": kinds["poisson"][1]})
    ex = [c for c in kinds["problem"] if c["problem"] == "Deconvolution1D" and c["noise"] == "scaledgaussian" and c["zpat"] == "alt"]
    if ex:
        ctx.sample({"case": {k: ex[0][k] for k in ("problem", "n", "psf", "bc", "noise", "args", "used", "x", "y", "Z", "svec", "data", "info")}})
    ex = [c for c in kinds["problem"] if c["problem"] == "WangCubic" and "wdata" in c["falsy"]]
    if ex:
        ctx.sample({"case": {k: ex[0][k] for k in ("problem", "args", "used", "falsy", "wform", "data", "svec", "logd")}})
    ctx.rule = ("Conv: one case per (pd, n, m, BC, integer PSF) with the exact integer operator and index map; TestProblems: one case per "
                "rational operator instance (abel/wang/poisson/heat) and one behaviour (9 actions) per option combination (arguments as "
                "<given, value> pairs incl. the admissible falsy values of the spec's OptionTable and the field options field_type x "
                "field_params x map x imap x exactSolution of Poisson1D / Heat1D / Abel1D); TestProblemsSeq: one behaviour per "
                "(option combination of the lean lattice, route, maximal sequence of Fetch / SetData / SetPrior / Refused with <= MaxRe "
                "reassignments), compared after every Fetch; non-trivial = "
                "distinct (problem family, comparison kind, configuration / behaviour, step)")
    ctx.exhaustive = True
    ctx.traces = nb + len(rc.cases)
    ctx.assumptions += ["sizes bounded by the cfg files; floats compared with rtol 1e-10 (operators 1e-12 absolute on unit-scale entries)",
                        "scripted numpy.random.{randn, normal}: first request returns the spec's Z, further requests zeros",
                        "Heat1D: number of time steps and method read from the public model.pde.time_steps / .method",
                        "SNR option: only 'one scalar sigma shared by data generation and likelihood' is asserted",
                        "seq facet: the values of the first data version / exact values / the model's action are those of an untouched "
                        "twin built from the same arguments under the same scripted draws (and the spec's numbers where it knows them)"]


_REPLAY_CACHE = {}


def _replay_cases(ctx, spec):
    """cases of the thorough lattice (a superset of the quick one), emitted once per process"""
    from cuqiverif import tlc as _tlc
    if spec not in _REPLAY_CACHE:
        r = ctx.tlc(spec, cfg="%s.thorough.cfg" % spec, workers=16, timeout=1500, extra_modules=("Conv.tla",) if spec != "Conv" else ())
        ctx.model_must_hold(r, spec)
        _REPLAY_CACHE[spec] = r.cases
        _tlc.cleanup(r)

    class _R:
        cases = _REPLAY_CACHE[spec]
    return _R


def replay(ctx, case):
    """re-execute one stored case: re-emit from TLC (thorough lattice is a superset of the quick one) and re-check the matching case"""
    kind = case.get("kind")
    if kind == "model":
        return run(ctx)
    if kind == "seq":
        from cuqiverif import c17_seq
        return c17_seq.replay_case(ctx, case)
    if kind == "legacy":
        rt = _replay_cases(ctx, "TestProblems")
        legacy_match = {}
        for c in rt.cases:
            if c["kind"] == "problem" and c["problem"] == "Deconvolution1D_legacy" and c["n"] == case["n"] and _argkey(c, "psf") == case["psfname"]:
                check_problem(ctx, c, legacy_match)
        _legacy_verdict(ctx, legacy_match)
    if kind in ("conv1d", "conv2d", "named1d", "named2d", "random1d", "legacy"):
        rc = _replay_cases(ctx, "Conv")
        cs = [c for c in rc.cases if c["n"] == case["n"] and (kind == "legacy" or (c["m"] == case["m"] and c["bc"] == case["bc"]))]
        legacy_seen = {}
        if kind in ("conv1d", "legacy"):
            for c in cs:
                if c["kind"] == "conv1d" and (kind == "legacy" or c["psfname"] == case["psfname"]):
                    check_conv1d(ctx, c, legacy_seen)
        elif kind == "conv2d":
            for c in cs:
                if c["kind"] == "conv2d" and c["psfname"] == case["psfname"]:
                    check_conv2d(ctx, c)
        else:
            want = "conv2d" if kind == "named2d" else "conv1d"
            jc = [c for c in cs if c["kind"] == want and c["psfname"] == "ramp"][0]
            if kind == "named1d":
                check_named1d(ctx, jc, case["psfname"], case["param"], case.get("size_arg"), legacy=case.get("legacy", False))
            elif kind == "named2d":
                check_named2d(ctx, jc, case["psfname"], case["param"])
            else:
                import cuqi
                P = np.array(case["psf"], dtype=float)
                with _quiet(), _scripted():
                    tp = cuqi.testproblem.Deconvolution1D(dim=case["n"], PSF=P, phantom=np.arange(1.0, case["n"] + 1),
                                                          **({"use_legacy": True} if case.get("legacy") else {"BC": BC1DOC[case["bc"]]}))
                _compare_operator(ctx, "deconv1d_legacy" if case.get("legacy") else "deconv1d", "n=%d/m=%d/psf=random/bc=%s" % (case["n"], case["m"], case["bc"]), case,
                                  mat_from_J(jc["J"], P, case["n"]), tp.model, 1e-12)
        return
    rt = _replay_cases(ctx, "TestProblems")
    if kind == "problem":
        for c in rt.cases:
            if c["kind"] == "problem" and _pkey(c) == _pkey(case):
                check_problem(ctx, c, {})
    elif kind == "abel":
        for c in rt.cases:
            if c["kind"] == "abel" and c["N"] == case["N"] and c["h"] == case["h"]:
                check_abel(ctx, c)
    elif kind == "wang":
        for c in rt.cases:
            if c["kind"] == "wang":
                check_wang(ctx, c)
    elif kind == "poisson":
        for c in rt.cases:
            if c["kind"] == "poisson" and all(c[k] == case[k] for k in ("dim", "dx", "kappa", "f")):
                check_poisson(ctx, c)
    elif kind == "heatreq":
        table = {(c["N"], c["r"][0], c["r"][1], c["K"], tuple(c["u0"])): c for c in rt.cases if c["kind"] == "heat"}
        check_heat(ctx, table, case["N"], case["dx"], case["T"], {"matched": 0, "skipped": 0, "rk": set()})
