"""C09 - Gibbs sweeps draw each block from its conditional given the current other blocks.

Spec: specs/Gibbs.tla (sweep state machine over version ids), specs/GibbsInvariance.tla (exact rational pi P = pi
on a tiny joint: why Fresh is what invariance needs), specs/TraceGibbs.tla (trace refinement).
Code -> spec (primary): both Gibbs samplers are run under a recorder (record_gibbs.py) that logs the values actually
passed to the joint's conditioning call, every block transition (start point, result, cache coherence before the
transition), the post-sweep tuple and the stored tuple; TLC validates every trace against TraceGibbs with all
invariants of Gibbs.tla evaluated in every state.  Spec -> code: the configurations (sampler kind per block, steps per
block, number of calls) are enumerated by TLC from Gibbs.tla and each is realised on small hierarchical models.
"""
META = {
    "claimed": True,
    "engine": "Gibbs.tla",
    "text": ("TLC checks Fresh / CacheFresh / StartsFromCurrent / StepsAsConfigured / AllVisited / StoredIsPostSweep / "
             "ResumeFromLast on every interleaving of accept/reject outcomes of the bounded sweep model (2-3 blocks, all kind and "
             "step assignments, 2 sweeps, 2 calls), requires four named deviations to violate them, proves pi P = pi exactly on a "
             "rational 2 x NB joint (and its failure for stale conditioning), and validates recorded executions of HybridGibbs and "
             "legacy Gibbs for every TLC-emitted configuration (plus the repository's Gibbs tests in the thorough tier) against "
             "the trace refinement of the same spec. Also recorded and validated: a legacy run continued after a REFUSED call, and twins of a "
             "sampler that was re-configured through its public attributes (constructed before / after it; they sweep as configured at "
             "their own construction)."),
    "note": ("Values are abstracted to value ids (hash of the array bytes); cache coherence is a boolean computed by the recorder "
             "with rtol 1e-9 from fresh evaluations of the block sampler's own target. Distribution-level invariance is decided "
             "as structural conformance + the finite rational theorem, not by ergodic averages."),
    "technique": "TLA+ spec (Gibbs) model-checked with TLC (core safety also as an Apalache inductive invariant); recorded Gibbs executions validated by TLC against TraceGibbs; TLC-enumerated configurations realised",
}

import itertools, os, random, warnings
import numpy as np

VERIF_ROOT = os.path.dirname(os.path.dirname(os.path.dirname(os.path.dirname(os.path.abspath(__file__)))))
HARNESS = os.path.join(VERIF_ROOT, "harness")

TRACE_CFG = """CONSTANTS
  Order <- TraceOrder
  Kinds <- AnyKinds
  StepChoices <- AnySteps
  MaxSweeps = 100000000
  Calls = 100000000
  RestoreKeepsOldCache = %s
  StaleOthers = FALSE
  StorePreSweep = FALSE
  RestartFromInitial = FALSE
INIT TraceInit
NEXT TraceNext
INVARIANT @@ACCEPT@@
CHECK_DEADLOCK FALSE
"""


def two_block_joint():
    import cuqi
    rs = np.random.RandomState(9)
    A = rs.randint(-2, 3, size=(4, 3)).astype(float) + np.eye(4, 3)
    model = cuqi.model.LinearModel(A)
    s = cuqi.distribution.Gamma(3, 0.5, name="s")
    x = cuqi.distribution.Gaussian(np.zeros(3), 1.0, name="x")
    y = cuqi.distribution.Gaussian(model(x), lambda s: 1 / s, name="y")
    return cuqi.distribution.JointDistribution(s, x, y)(y=A @ np.array([1.0, -0.5, 0.5]) + 0.1)


def realise(order, kinds, steps, seed):
    """TLC configuration -> (joint, sampling_strategy, num_sampling_steps) for HybridGibbs, or None if not realisable."""
    import cuqi
    from cuqiverif import zoo
    M = cuqi.experimental.mcmc
    rnd = random.Random(seed)
    if len(order) == 2:
        joint, names = two_block_joint(), ["s", "x"]
    else:
        joint, names = zoo.hier_joint(), ["d", "s", "x"]
    strat, nst, classes, makers = {}, {}, {}, {}
    for blk, name in zip(order, names):
        k = kinds[blk]
        if name == "x":
            if k == "Exact":
                mk = lambda: M.LinearRTO(maxit=30)
            elif k == "Cached":
                mk = rnd.choice([lambda: M.MH(scale=0.2), lambda: M.CWMH(scale=0.2), lambda: M.MALA(scale=0.02),
                                 lambda: M.ULA(scale=0.005), lambda: M.PCN(scale=0.2)])
            else:
                mk = lambda: M.NUTS(max_depth=2)
        else:
            if k == "Exact":
                mk = lambda: M.Conjugate()
            elif k == "Cached":
                mk = lambda: M.MH(scale=0.2, initial_point=np.array([1.0]))
            else:
                return None              # no gradient-based sampler applies to the Gamma hyper-parameter blocks
        smp = mk()
        strat[name], nst[name], classes[name], makers[name] = smp, int(steps[blk]), type(smp).__name__, mk
    return joint, strat, nst, classes, makers


class Refused(Exception):
    """the library refused to construct a HybridGibbs sampler for a configuration (validation): not a C09 matter"""


def run_config(rec, cfgcase, seed):
    """Run HybridGibbs for one configuration under the recorder: warm-up sweep(s) then sample sweeps split over `calls` calls."""
    import cuqi
    from cuqiverif import zoo
    from cuqiverif.core import MachineryError
    r = realise(cfgcase["order"], cfgcase["kinds"], cfgcase["steps"], seed)
    if r is None:
        return None
    joint, strat, nst, classes, makers = r
    with zoo.quiet():
        np.random.seed(seed)
        try:
            g = cuqi.experimental.mcmc.HybridGibbs(joint, strat, nst)
        except MachineryError:
            raise
        except Exception as ex:
            raise Refused(str(ex)[:80])
        g.warmup(2)
        if cfgcase["calls"] >= 2:
            g.sample(1)
            g.sample(2)
        else:
            g.sample(3)
        js = g.get_samples()
    g._cv_makers = makers
    return g, js, classes


TWIN_CLASSES = {"LinearRTO", "RegularizedLinearRTO", "UGLA", "Conjugate", "ConjugateApprox", "Direct"}


def twin_sweep(ctx, g, label):
    """One more sweep: every block transition must equal the transition a FRESHLY constructed sampler of the same
    configuration makes on the conditional target the block was handed, from the same point with the same random numbers
    (the block is drawn 'by its assigned sampler from the joint target conditioned on the most recent values').
    Samplers with cached target evaluations are judged by the cache_ok facet of the trace instead."""
    from cuqiverif import zoo
    makers = getattr(g, "_cv_makers", None)
    if not makers:
        return
    log = []
    undo = []
    for name, smp in g.samplers.items():
        if type(smp).__name__ not in TWIN_CLASSES:
            continue
        orig = smp.step

        def mk(name=name, smp=smp, orig=orig):
            def step(*a, **k):
                before = (np.random.get_state(), np.array(smp.current_point, dtype=float, copy=True), smp.target)
                out = orig(*a, **k)
                log.append((name, before, np.array(smp.current_point, dtype=float, copy=True)))
                return out
            return step
        smp.step = mk()
        undo.append(smp)
    try:
        with zoo.quiet():
            g.step()
    finally:
        for smp in undo:
            try:
                del smp.step
            except Exception:
                pass
    keep = np.random.get_state()
    try:
        for name, (rs, start, target), result in log:
            with zoo.quiet():
                twin = makers[name]()
                twin.target = target
                twin.initial_point = start
                twin.initialize()
                np.random.set_state(rs)
                twin.step()
            got = np.array(twin.current_point, dtype=float).reshape(-1)
            ctx.case(("twin", label, type(twin).__name__, name))
            if got.shape != result.reshape(-1).shape or not np.allclose(got, result.reshape(-1), rtol=1e-7, atol=1e-10):
                ctx.mismatch("twin/%s/%s" % (label, type(twin).__name__), {"kind": "twin", "label": label, "block": name},
                             "block %s: the transition made inside the Gibbs sweep is not the transition a freshly constructed %s makes "
                             "on the conditional it was handed (same point, same random numbers)" % (name, type(twin).__name__),
                             expected=got, observed=result)
    finally:
        np.random.set_state(keep)


def _check_stored_values(ctx, rec, g, js, names, label):
    """stored samples = recorded post-sweep values, compared by value (not only by id)"""
    copies = rec.copies.get(rec.key(g), [])
    for n in names:
        A = np.asarray(js[n].samples, dtype=float)
        A = A.reshape(1, -1) if A.ndim == 1 else A
        if A.shape[1] != len(copies):
            ctx.mismatch("stored/%s/length" % label, {"kind": "stored", "label": label}, "stored %d sweeps, %d sweeps were made" % (A.shape[1], len(copies)),
                         len(copies), A.shape[1])
            return
        for i, c in enumerate(copies):
            if not np.allclose(A[:, i], c[n], rtol=1e-12, atol=0):
                ctx.mismatch("stored/%s/value" % label, {"kind": "stored", "label": label, "sweep": i, "block": n},
                             "stored sample of sweep %d differs from the values after that sweep" % i, c[n], A[:, i])
                return


def validate_traces(ctx, traces, label):
    """group by visiting order (Order is a constant of the spec), validate, classify rejections"""
    from cuqiverif import trace
    groups = {}
    for t in traces:
        if not t["events"] or t["events"][0].get("e") != "init":
            # an object whose construction was not seen by the recorder (created before it was installed): not validated
            ctx.observations["traces_without_init_skipped/" + label] = ctx.observations.get("traces_without_init_skipped/" + label, 0) + 1
            continue
        groups.setdefault(tuple(t["events"][0]["order"]), []).append(t)
    for order, ts in groups.items():
        verdicts = trace.validate(ctx, ts, "TraceGibbs", TRACE_CFG % "FALSE", extra_modules=("Gibbs.tla",), label="c09trace", chunk=80)
        # rejected at a block step whose cache was stale: is the trace explained by the named deviation (and by it alone)?
        stale = [(v, t) for v, t in zip(verdicts, ts) if not v["ok"] and (v["next"] or {}).get("e") == "block_step"
                 and (v["next"] or {}).get("cache_ok") is False]
        explained = {}
        if stale:
            v2 = trace.validate(ctx, [t for _, t in stale], "TraceGibbs", TRACE_CFG % "TRUE", extra_modules=("Gibbs.tla",), label="c09dev", chunk=80)
            for (v, t), w in zip(stale, v2):
                # explained only if the WHOLE trace is a behaviour of the deviation spec (so the rest of the trace -
                # fresh conditioning, start points, step counts, stored tuples - is checked as well)
                explained[id(t)] = w["ok"]
                if not w["ok"]:
                    v.update(next=w["next"], last=w["last"], matched=w["matched"], window=w["window"])
        for v, t in zip(verdicts, ts):
            classes = t["events"][0].get("classes", {})
            ctx.case(("trace", label, t["meta"].get("iface"), tuple(sorted(classes.items())), tuple(sorted(t["events"][0]["steps"].items())), len(t["events"])))
            if v["ok"]:
                ctx.traces += 1
                ACCEPTED.append(t)
                continue
            nxt = v["next"] or {}
            iface = t["meta"].get("iface", "?")
            if explained.get(id(t)):
                expl = "explained_by_RestoreKeepsOldCache"
                sig = "trace/%s/stale_cache/%s/%s" % (iface, classes.get(nxt.get("block"), "?"), expl)
                what = ("block sampler %s starts a transition with cached evaluations computed under a previous conditional "
                        "(cache_ok = false at event %d)" % (classes.get(nxt.get("block"), "?"), v["matched"] + 1))
            else:
                sig = "trace/%s/%s" % (iface, nxt.get("e", "end"))
                what = "recorded execution is not a behaviour of Gibbs.tla: event %d (%s) cannot follow %s" % (v["matched"] + 1, nxt, v["last"])
            ctx.mismatch(sig, {"kind": "trace", "label": label, "init": t["events"][0], "window": v["window"]}, what)
    return groups


ACCEPTED = []       # traces accepted by the deciding configuration (filled by validate_traces; used by the binding self-test)


def run(ctx):
    import cuqi  # noqa
    from cuqiverif import zoo, trace, record
    from cuqiverif.record_gibbs import install_gibbs
    from cuqiverif.core import MachineryError
    warnings.filterwarnings("ignore")
    # 1. the specification itself
    res = ctx.tlc("Gibbs", cfg="Gibbs.%s.cfg" % ctx.tier, workers=16, timeout=1500,
                  require_actions=["SetTarget", "SaveReinit", "Restore", "BlockStep", "Extract", "Store", "NewCall"])
    ctx.model_must_hold(res, "Gibbs")
    for cfg, inv in (("dev_cache", "CacheFresh"), ("dev_stale", "Fresh"), ("dev_store", "StoredIsPostSweep"), ("dev_restart", "ResumeFromLast")):
        r = ctx.tlc("Gibbs", cfg="Gibbs.%s.cfg" % cfg, workers=4, expect_violation=True)
        if r.ok or r.violated != inv:
            raise MachineryError("deviation %s did not violate %s (got %r)" % (cfg, inv, r.violated))
    for cfg in (("exact", "mh") if ctx.tier == "quick" else ("exact", "mh", "thorough")):
        r = ctx.tlc("GibbsInvariance", cfg="GibbsInvariance.%s.cfg" % cfg, workers=8)
        ctx.model_must_hold(r, "GibbsInvariance." + cfg)
    r = ctx.tlc("GibbsInvariance", cfg="GibbsInvariance.dev_stale.cfg", workers=4, expect_violation=True)
    if r.ok or r.violated != "Invariant":
        raise MachineryError("stale conditioning did not break pi P = pi on the rational model")
    # 1b. unbounded: the core safety properties as an inductive invariant, discharged by Apalache (any number of sweeps,
    #     any version ids); the named deviation must break the inductive step (thorough tier; ~10 s per obligation)
    if ctx.tier == "thorough":
        from cuqiverif import apalache
        obligations = [("Init", "IndInv", 0, "Next", "ok"), ("IndInv", "IndInv", 1, "Next", "ok"), ("IndInv", "IndInv", 1, "NextDev", "violated")]
        done = []
        for init, inv, length, nxt, want in obligations:
            got, secs = apalache.check("GibbsInd", init, inv, length, nxt=nxt)
            done.append({"init": init, "inv": inv, "length": length, "next": nxt, "outcome": got, "s": round(secs, 1)})
            if got != want:
                if want == "ok":
                    ctx.mismatch("model/GibbsInd/%s" % inv, {"kind": "model"}, "inductive invariant of the Gibbs core is not inductive (%s, length %d)" % (init, length))
                else:
                    raise MachineryError("deviation RestoreKeepsOldCache does not break the inductive step: obligation is vacuous")
        ctx.observe("apalache_inductive_invariant", done)
    # 2. configurations enumerated by TLC, realised and recorded
    seen, configs = set(), []
    for c in res.cases:
        key = (tuple(c["order"]), tuple(sorted(c["kinds"].items())), tuple(sorted(c["steps"].items())), c["calls"])
        if key not in seen:
            seen.add(key)
            configs.append(c)
    configs.sort(key=lambda c: (c["order"], sorted(c["kinds"].items()), sorted(c["steps"].items()), c["calls"]))   # TLC emits in scheduling order
    rnd = random.Random(ctx.seed)
    if ctx.tier == "quick" and len(configs) > 40:
        configs = rnd.sample(configs, 40)
    elif len(configs) > 400:
        configs = rnd.sample(configs, 400)
    rec = record.Recorder(max_events_per_trace=6000, max_traces=2000)
    install_gibbs(rec)
    runs = []
    nfailed = 0
    try:
        for i, c in enumerate(configs):
            try:
                out = run_config(rec, c, 5000 + ctx.seed + i)
            except MachineryError:
                raise                     # e.g. a recorder target disappeared: exit 2, never swallowed
            except Refused as ex:         # a configuration the library refuses to construct is not a C09 matter
                ctx.observations.setdefault("unrealisable", []).append("%s: %s" % (c["kinds"], ex))
                out = None
            except Exception as ex:
                # constructed, then failed in the middle of its sweeps: no chain is delivered.  Logged (with the count used by
                # the vacuity guard below); the recorder has closed the trace, so what was recorded up to there is validated.
                ctx.observations.setdefault("failed_during_sweeps", []).append("%s %s: %s: %s" % (
                    c["kinds"], c["steps"], type(ex).__name__, str(ex)[:80]))
                out = None
                nfailed += 1
            if out is not None:
                runs.append((c, out))
        # both interfaces on the 3-block hierarchical model with exact block samplers; continuation of a legacy run
        with zoo.quiet():
            np.random.seed(77 + ctx.seed)
            lg = zoo.legacy_gibbs_factory()()
            r1 = lg.sample(2, 1)
            r2 = lg.sample(2)
        # a tuple key assigns one sampler class to several blocks (documented form of the legacy sampling strategy)
        with zoo.quiet():
            np.random.seed(79 + ctx.seed)
            import cuqi
            lg2 = cuqi.sampler.Gibbs(zoo.hier_joint(), {("d", "s"): cuqi.sampler.Conjugate, "x": cuqi.sampler.LinearRTO})
            lg2.sample(3, 1)
        # a REFUSED call (a second warm-up is refused by the legacy sampler) leaves nothing behind: the next call continues from
        # the last stored sweep, and what is returned is the chain of the sweeps that were made
        with zoo.quiet():
            np.random.seed(81 + ctx.seed)
            lg3 = zoo.legacy_gibbs_factory()()
            lg3.sample(2, 1)
            try:
                lg3.sample(1, 1)
                ctx.observations["legacy_second_warmup"] = "accepted"
            except Exception as ex:
                ctx.observations["legacy_second_warmup"] = "refused: " + str(ex)[:60]
            r3 = lg3.sample(2)
        for name, fac in zoo.hybrid_gibbs_factories().items():
            with zoo.quiet():
                np.random.seed(78 + ctx.seed)
                g = fac()
                g.warmup(1).sample(2)
                runs.append(({"label": name}, (g, g.get_samples(), None)))
        # independently constructed samplers share nothing: one is re-configured through its public attributes (never run),
        # its twins - constructed before and after that - must sweep as configured at THEIR construction (documented default:
        # one step per block); the recorder reads the configuration from the constructor arguments, not from the object
        for name, fac in zoo.hybrid_gibbs_factories().items():
            with zoo.quiet():
                np.random.seed(83 + ctx.seed)
                before, other = fac(), fac()
                for b in list(other.par_names):
                    other.num_sampling_steps[b] = 3
                    smp = other.samplers[b]
                    for opt in ("scale", "max_depth", "maxit"):
                        if isinstance(getattr(smp, opt, None), (int, float)) and not isinstance(getattr(smp, opt), bool):
                            try:
                                setattr(smp, opt, type(getattr(smp, opt))(getattr(smp, opt) * 2))
                            except Exception:
                                pass
                after = fac()
                for tag, g in (("before", before), ("after", after)):
                    g.warmup(1).sample(2)
                    runs.append(({"label": name + "/twin_" + tag}, (g, g.get_samples(), None)))
                    ctx.facets["twin_of_reconfigured/" + tag] = ctx.facets.get("twin_of_reconfigured/" + tag, 0) + 1
    finally:
        rec.uninstall()
    traces = rec.trace_list()
    ctx.observe("configurations", {"emitted": len(seen), "selected": len(configs), "realised": len(runs), "failed_during_sweeps": nfailed,
                                   "target_probe_without_verdict": getattr(rec, "tgt_unknown", 0)})
    if len(runs) < 5 or nfailed > len(runs):
        raise MachineryError("vacuous: only %d configurations could be run (%d failed during their sweeps)" % (len(runs), nfailed))
    del ACCEPTED[:]
    validate_traces(ctx, traces, "configs")
    for c, (g, js, classes) in runs:
        _check_stored_values(ctx, rec, g, js, list(g.par_names), "HybridGibbs")
        twin_sweep(ctx, g, "HybridGibbs")
    # legacy: returned (cumulative) sample-phase chain = post-sweep values of the sample-phase sweeps
    copies = rec.copies.get(rec.key(lg), [])
    for n in lg.par_names:
        A = np.asarray(r2[n].samples, dtype=float)
        A = A.reshape(1, -1) if A.ndim == 1 else A
        exp = [c[n] for c in copies[1:]]         # first sweep was the warm-up sweep (Nb = 1)
        if A.shape[1] != len(exp) or any(not np.allclose(A[:, i], e, rtol=1e-12, atol=0) for i, e in enumerate(exp)):
            ctx.mismatch("stored/legacy.Gibbs/value", {"kind": "stored", "label": "legacy"},
                         "legacy Gibbs: returned samples are not the post-sweep values of its sampling sweeps", exp, A)
    copies = rec.copies.get(rec.key(lg3), [])
    for n in lg3.par_names:
        A = np.asarray(r3[n].samples, dtype=float)
        A = A.reshape(1, -1) if A.ndim == 1 else A
        exp = [c[n] for c in copies[1:]]
        if A.shape[1] != len(exp) or any(not np.allclose(A[:, i], e, rtol=1e-12, atol=0) for i, e in enumerate(exp)):
            ctx.mismatch("stored/legacy.Gibbs/after_refused_call", {"kind": "stored", "label": "legacy-refused"},
                         "legacy Gibbs: after a refused call the returned samples are not the post-sweep values of the sampling sweeps made", exp, A)
    # 3. thorough: the repository's own Gibbs tests under the recorder
    if ctx.tier == "thorough":
        rt = record_repo_tests()
        ctx.observe("repo_tests_recorded", {"traces": len(rt), "pytest": dict(LAST_PYTEST)})
        validate_traces(ctx, rt, "repo-tests")
    # 4. binding self-test: corrupt a conditioning value / drop a block step of an accepted trace -> rejected
    if not any(t["events"] and t["events"][0].get("e") == "init" for t in traces):
        raise MachineryError("no Gibbs trace recorded")
    good = next((t for t in ACCEPTED if sum(1 for e in t["events"] if e["e"] == "set_target") >= 2 and
                 any(e["e"] == "block_step" for e in t["events"]) and any(e["e"] == "store" for e in t["events"])), None)
    if good is None:
        if ctx.violations:
            good = None        # every trace of a broken tree is rejected: the violations stand, nothing to self-test
        else:
            raise MachineryError("no accepted Gibbs trace with conditioning, block steps and stored sweeps: trace facet is vacuous")

    def stale_other(ev):
        i = [j for j, e in enumerate(ev) if e["e"] == "set_target"][-1]
        k = sorted(ev[i]["others"])[0]
        ev[i]["others"][k] += 1

    def drop_step(ev):
        i = [j for j, e in enumerate(ev) if e["e"] == "block_step"][-1]
        del ev[i]

    def wrong_store(ev):
        i = [j for j, e in enumerate(ev) if e["e"] == "store"][-1]
        k = sorted(ev[i]["vals"])[0]
        ev[i]["vals"][k] += 1
    def wrong_target(ev):
        i = [j for j, e in enumerate(ev) if e["e"] == "block_step"][-1]
        ev[i]["tgt_ok"] = False

    def stale_cache(ev):
        i = [j for j, e in enumerate(ev) if e["e"] == "block_step"][-1]
        ev[i]["cache_ok"] = False
    if good is not None:
        for nm, mut in (("stale_other", stale_other), ("drop_step", drop_step), ("wrong_store", wrong_store),
                        ("wrong_target", wrong_target), ("stale_cache", stale_cache)):
            if not trace.corrupt_selftest(ctx, good, "TraceGibbs", TRACE_CFG % "FALSE", mut, extra_modules=("Gibbs.tla",)):
                raise MachineryError("corrupted Gibbs trace (%s) was accepted" % nm)
        ctx.observe("binding_selftest", "stale conditioning value, missing block step, wrong stored tuple, sampler holding another "
                    "target and stale cache are rejected")
        ctx.sample({"trace_init": good["events"][0], "events": good["events"][1:9]})
    ctx.sample({"config": configs[0] if configs else None})
    ctx.rule = ("configurations = distinct (order, kind per block, steps per block, calls) emitted by TLC from Gibbs.tla, each realised on a "
                "hierarchical Gaussian/Gamma model and validated as a trace; distinct = (interface, sampler classes, steps, trace length)")
    ctx.exhaustive = False
    ctx.assumptions += ["value ids are hashes of array bytes modulo 999983 (collisions can only make the check miss, never alarm)"]


LAST_PYTEST = {}       # outcome of the last recorded pytest run (logged as an observation)


def record_repo_tests(tests=("tests/zexperimental/test_mcmc.py", "tests/test_sampler.py", "tests/test_bayesian_inversion.py"), timeout=2400):
    import json, subprocess, sys
    from cuqiverif.core import MachineryError
    from cuqiverif import tlc
    repo = os.environ.get("CUQIVERIF_REPO", "/repo")
    os.makedirs(tlc.WORK, exist_ok=True)
    out = os.path.join(tlc.WORK, "c09_repo_traces_%d.json" % os.getpid())
    import shutil
    cwd = os.path.join(tlc.WORK, "c09_pytest_cwd_%d" % os.getpid())      # tests write relative to the current directory
    os.makedirs(cwd, exist_ok=True)
    env = dict(os.environ, CUQIPY_VERIF="1", CUQIVERIF_TRACE_OUT=out, CUQIVERIF_RECORD="c09", CUQIVERIF_MAX_EVENTS="3000",
               PYTHONPATH=HARNESS + os.pathsep + repo, TQDM_DISABLE="1", PYTHONDONTWRITEBYTECODE="1")
    try:
        try:
            p = subprocess.run([sys.executable, "-m", "pytest", "-q", "-p", "no:cacheprovider", "-p", "cuqiverif.pytest_recorder",
                                "--timeout=900", "--rootdir", repo, "-k", "ibbs"] + [os.path.join(repo, t) for t in tests], cwd=cwd,
                               env=env, stdout=subprocess.PIPE, stderr=subprocess.STDOUT, text=True, timeout=timeout)
        except subprocess.TimeoutExpired:
            raise MachineryError("recording the repository's Gibbs tests timed out after %ss" % timeout)
        if not os.path.exists(out):
            raise MachineryError("recorder plugin produced no trace file; pytest tail:\n" + "\n".join(p.stdout.splitlines()[-15:]))
        LAST_PYTEST.update(returncode=p.returncode,
                           failed=[l.split(" ")[1] for l in p.stdout.splitlines() if l.startswith("FAILED ") and " " in l][:20])
        return json.load(open(out))
    finally:
        shutil.rmtree(cwd, ignore_errors=True)
        if os.path.exists(out):
            os.remove(out)


def install_recorder(rec):
    """entry point for the pytest plugin (CUQIVERIF_RECORD=c09)"""
    from cuqiverif.record_gibbs import install_gibbs
    install_gibbs(rec)


def replay(ctx, case):
    # traces are re-recorded from scratch (the stored case identifies the configuration): one re-run per replay file
    if not getattr(ctx, "_c09_rerun", False):
        ctx._c09_rerun = True
        run(ctx)
