"""C15 - MAP / ML estimates are true maximisers; direct Gaussian sampling has the exact closed-form moments.

Spec: specs/LinGauss.tla, parts "map" (closed forms + geometry), "route" (type based selection of BayesianProblem,
requirement outcome in {closed form, Error}), "poly" (optimisation route on polynomial forward models with a
constructed stationary point) and "reassign" (ONE problem object whose inputs are re-assigned through the public
setters: in every reachable state the closed forms are those of a freshly built problem, invariant ReassignIsFresh).  TLC checks on the specification that the Tarantola form evaluated by the direct route
equals the information-form posterior mean for every way the covariances are written and every geometry, that the
normal equations define x_ML, that the routing table sends only linear-Gaussian problems to the closed-form routes,
and emits the exact rationals.  This module builds the real BayesianProblems, calls MAP(), ML(), sample_posterior()
(scripted normals 0, e_i) and compares with TLC's numbers; an exception is an accepted outcome, another point is not.
"""
META = {
    "claimed": True,
    "engine": "LinGauss.tla + MapProc.tla + MapScale.tla",
    "text": ("TLC checks on every configuration of the bounded instance (A up to 3x3, 16 input forms of noise and prior Gaussian, "
             "GMRF priors, scalar/vector means, identity-like, step-expansion and scaling geometries, matrix- and function-based "
             "models) that the direct route's Tarantola formula equals the posterior mean Lambda^-1 rhs (push-through identity), "
             "that x_ML solves the normal equations, that the routing table sends only linear-Gaussian problems to closed-form "
             "routes, and that constructed stationary points of polynomial posteriors have zero gradient and positive definite "
             "Hessian; named deviations (vector covariance broadcast, stored matrix ignoring the geometry, precision used for "
             "covariance) are refuted by TLC.  The harness replays every emitted configuration into BayesianProblem.MAP / ML / "
             "sample_posterior (scripted normals 0, e_i): estimate = closed form (rtol 1e-7 direct, solver-tied otherwise) or an "
             "exception, never another point; direct draws have offset mu_post and L L^T = Lambda^-1.  Part `reassign`: two "
             "versions of prior mean, prior parameter, noise parameter and data; TLC explores every order of ReWarm "
             "(compute_cov) / ReAssign(field) and checks ReassignIsFresh (closed forms in every reachable state = those of a "
             "fresh problem with the values currently assigned; deviation StaleCovAfterReassign refuted); the harness walks "
             "these behaviours on ONE BayesianProblem (warm chain, assign-before-evaluate, partial reassignment) and compares "
             "compute_cov / sqrtprec / log-density differences / MAP / ML / direct draws after every action.  MapProc.tla: ONE "
             "process, a LIST of chain-polynomial problems of different size (n = 1 .. 64, data and prior mean constructed from a "
             "stationary point) solved by MAP / ML on the optimisation route by different BayesianProblem objects, every order "
             "explored by TLC (action Call; invariant CallsIndependent: a call works under the iteration limit of its OWN problem; "
             "deviation DefaultsLeakBetweenCalls refuted); every order is replayed in a fresh python process, each estimate is "
             "judged by the spec's optimality conditions and must equal the outcome of the same call alone in a process.  MapScale.tla "
             "(round 9): kind scale - PHYSICAL UNITS of a linear-Gaussian problem (operator x 2^a, unknown x 2^k, data and noise "
             "consistently x 2^(a+k), prior x 2^k): invariant ScalingLaw (Lambda' = 4^-k Lambda, mu' = 2^k mu, cov' = 4^k cov in information "
             "form AND in the Tarantola form the direct route evaluates from the matrix the model hands out - the matrix ASSEMBLED from "
             "forward(e_i) for function-backed models and for matrix models with a non-identity geometry), named deviation "
             "AssembledDropsSmallEntries (absolute threshold on stored entries) refuted; replay of MAP / direct draws for the checked "
             "pairs, for operators 2^-50 .. 2^50 / priors 2^-25 .. 2^25 and a dense sweep of each exponent (powers of two: exact inputs, "
             "rtol 1e-7 in the units).  Kind nograd - optimisation route WITHOUT exact gradient (forward model a plain function = "
             "cuqi.model.Model without jacobian; Gaussian prior given by sqrtprec, which offers no gradient), n = 3, 8, 16, 32: concave "
             "quadratic log-posterior with constructed exact maximiser (Stationary: gradient exactly 0; Curvature: A^T A - I/4 "
             "diagonally dominant, Hessian >= (pe/4 + px) I); the returned MAP / ML point must have spec gradient <= 1e-4 (10 x the "
             "documented gtol of the default solver) and lie within sqrt(n) 1e-4 / lambda_min of the maximiser.  LinGaussVec.tla (round 10, EXTENDS LinGauss): "
             "the linear-Gaussian configurations of part map with a function pair defined for VECTORS ONLY - forward x |-> B @ vecop(x), adjoint y |-> vecop*(B^T @ y) "
             "with vecop = np.roll(x,1) / np.flip(x) / np.cumsum(x) (no axis: on a matrix numpy flattens) and B = A V^-1 in exact integers, so the operator and "
             "the oracle (exact posterior mean / covariance / ML point for A) are unchanged; invariants VecOperatorIsA, VecAssembledIsG, VecDirectIsMean, named "
             "deviation MatrixFromForwardOfIdentity (matrix read off ONE call forward(identity)) refuted; MAP / ML / direct draws replayed as for part map."),
    "note": ("Bounded sizes (n, m <= 3), integer/dyadic lattice; optimisation route judged by the optimality conditions with "
             "tolerances tied to scipy's gtol=1e-5 (gradient <= 1e-4, no larger neighbour at distance 1e-2..1e-3), so only local "
             "optimality is asserted for non-convex polynomial posteriors; results flagged unsuccessful by the solver info are "
             "recorded, not judged; sampling routes other than the direct one belong to C02/C06/C08."),
    "technique": "TLA+ spec (LinGauss) model-checked with TLC; TLC-emitted cases replayed into cuqi.problem.BayesianProblem",
}

import numpy as np

RTOL_DIRECT = 1e-7
GTOL = 1e-4            # 10 x scipy's default gtol (BFGS / L-BFGS-B stop at |grad|_inf <= 1e-5)


def _L():
    from cuqiverif import lingauss_common as L
    return L


def _sig(case, what):
    L = _L()
    return "%s/geom=%s/model=%s/noise=%s/prior=%s/mean=%s/m=%d/n=%d/A=%d" % (
        what, case["geo"], case["mdl"], L.form_tag(case["noise"]), L.form_tag(case["prior"]), case["mk"], case["m"], case["n"], case["av"])


def _geometry(case):
    import cuqi
    geo, n = case["geo"], case["n"]
    if geo == "default":
        return None
    if geo == "cont":
        return cuqi.geometry.Continuous1D(n)
    if geo == "disc":
        return cuqi.geometry.Discrete(n)
    if geo == "step":
        return cuqi.geometry.StepExpansion(np.array([0.0, 1.0, 2.0]), n_steps=2)
    if geo == "scale":
        return cuqi.geometry.MappedGeometry(cuqi.geometry.Continuous1D(n), map=lambda v: 2 * v, imap=lambda v: v / 2)
    if geo == "kl":
        # an expansion geometry that is a SUBCLASS of Continuous1D (all modes kept): orthogonal-times-diagonal par2fun,
        # numeric in the replayer (DESIGN 5/C07); derived from the spec's `cont` cases
        return cuqi.geometry.KLExpansion(np.linspace(0, 1, n))
    raise ValueError(geo)


def _vec_functions(fv, B):
    """The function pair of LinGaussVec.tla: forward x |-> B @ vecop(x), adjoint y |-> vecop*(B^T @ y), written with numpy calls WITHOUT axis
    (defined for vectors; on a matrix numpy flattens)."""
    B = np.array(B, dtype=float)
    if fv == "roll":
        return (lambda x: B @ np.roll(x, 1)), (lambda y: np.roll(B.T @ y, -1))
    if fv == "flipall":
        return (lambda x: B @ np.flip(x)), (lambda y: np.flip(B.T @ y))
    if fv == "cumsum":
        return (lambda x: B @ np.cumsum(x)), (lambda y: np.cumsum((B.T @ y)[::-1])[::-1])
    raise _L().MachineryError("unknown vector operator %r" % (fv,))


def _vec_model(case, geom):
    """Function-backed LinearModel of a `mapvec` case (LinGaussVec.tla): the operator IS the matrix A of the configuration (checked here on
    the basis vectors, and for the adjoint, before the library sees the functions), realised by vector-only numpy calls."""
    import cuqi
    L = _L()
    A = np.array(case["A"], dtype=float)
    m, na = A.shape
    fwd, adj = _vec_functions(case["fv"], case["B"])
    if not all(np.array_equal(fwd(e), A[:, j]) for j, e in enumerate(np.eye(na))) or not all(np.array_equal(adj(e), A[i, :]) for i, e in enumerate(np.eye(m))):
        raise L.MachineryError("mapvec: the vector-only function pair %s does not realise the operator A of the configuration" % case["fv"])
    return cuqi.model.LinearModel(fwd, adj, range_geometry=m, domain_geometry=geom if geom is not None else na)


def build_problem(case):
    import cuqi
    L = _L()
    geom = _geometry(case)
    if geom is not None:
        # the spec's E is the matrix of the geometry's own par2fun (original object, untouched by the calls under test)
        E = np.array([np.asarray(geom.par2fun(e), dtype=float) for e in np.eye(case["n"])]).T
        if case["geo"] != "kl" and not np.array_equal(E, L.inp(case["E"])):
            raise L.MachineryError("par2fun of geometry %s is not the matrix E assumed by the spec (see C13)" % case["geo"])
    model = _vec_model(case, geom) if case.get("fv") else L.linear_model(case["A"], case["mdl"], domain_geometry=geom)
    x = L.build_prior(case, case["n"], geometry=geom)
    y = cuqi.distribution.Gaussian(model(x), name="y", **L.gauss_kwargs(case["noise"]))
    return cuqi.problem.BayesianProblem(x, y).set_data(y=L.inp(case["y"]))


def check_map_kl(ctx, case):
    """The spec's closed form with the geometry matrix E read off the (original) KLExpansion object: from a `cont` case
    (E = I, G = A) the prior precision P0 = Lam - G'PeG and P0 mu0 = rhs - G'Pe y are exact; the expected posterior mean
    for the expansion geometry is (E'G'PeGE + P0)^-1 (E'G'Pe y + P0 mu0)."""
    L = _L()
    c = dict(case, geo="kl")
    n = case["n"]
    try:
        with L.quiet():
            geom = _geometry(c)
            E = np.array([np.asarray(geom.par2fun(e), dtype=float) for e in np.eye(n)]).T
            BP = build_problem(c)
    except L.MachineryError:
        raise
    except Exception:
        _outcome(ctx, "build/error/geom=kl")
        return
    G, Pe, y = L.inp(case["G"]), L.inp(case["Pe"]), L.inp(case["y"])
    Lam, rhs = L.inp(case["Lam"]), L.inp(case["rhs"])
    P0 = Lam - G.T @ Pe @ G
    b0 = rhs - G.T @ Pe @ y
    G2 = G @ E
    mu = np.linalg.solve(G2.T @ Pe @ G2 + P0, G2.T @ Pe @ y + b0)
    ctx.case(("map-kl", _sig(c, "")), facet="map/kl")
    try:
        with L.quiet():
            xm = BP.MAP()
        info = getattr(xm, "info", None)
        xm = np.asarray(xm, dtype=float).ravel()
    except Exception:
        _outcome(ctx, "MAP/error/kl")          # failing instead of returning another point is allowed
        return
    direct = isinstance(info, dict) and info.get("solver") == "direct"
    if xm.shape != (n,) or not np.all(np.isfinite(xm)):
        ctx.mismatch(_sig(c, "map/shape"), c, "MAP estimate is not a finite parameter vector", expected=mu, observed=xm)
    elif direct and L.rel_err(xm, mu) > 1e-6:
        ctx.mismatch(_sig(c, "map/direct"), c, "closed-form MAP with an expansion geometry (KLExpansion, all modes) is not the "
                     "posterior mean of the parameter-to-data map", expected=mu, observed=xm)
    elif not direct and not _flagged(info) and L.rel_err(xm, mu) > 1e-3:
        ctx.mismatch(_sig(c, "map/optimise"), c, "MAP estimate with an expansion geometry is not the maximiser of the posterior",
                     expected=mu, observed=xm)


def _outcome(ctx, key):
    d = ctx.observations.setdefault("outcomes", {})
    d[key] = d.get(key, 0) + 1


def _flagged(info):
    return isinstance(info, dict) and "success" in info and not bool(info["success"])


def check_map_case(ctx, case):
    L = _L()
    try:
        with L.quiet():
            BP = build_problem(case)
    except L.MachineryError:
        raise
    except Exception as e:
        _outcome(ctx, "build/error/geom=%s" % case["geo"])
        ctx.case(("build", _sig(case, "")), nontrivial=False)
        return
    G, Pe, y = L.inp(case["G"]), L.inp(case["Pe"]), L.inp(case["y"])
    Lam, rhs = L.inp(case["Lam"]), L.inp(case["rhs"])
    mu, cov = L.qnp(case["mu_q"]), L.qnp(case["LamInv_q"])
    n = case["n"]
    # ---------------- MAP ----------------
    ctx.case(("map", _sig(case, "")), facet="map/%s" % case["route"])
    try:
        with L.quiet():
            xm = BP.MAP()
        info = getattr(xm, "info", None)
        xm = np.asarray(xm, dtype=float).ravel()
    except Exception as e:
        xm = None
        _outcome(ctx, "MAP/error/%s/%s+%s" % (case["route"], case["noise"]["form"], case["prior"]["form"]))
    if xm is not None:
        direct = isinstance(info, dict) and info.get("solver") == "direct"
        _outcome(ctx, "MAP/estimate/%s" % ("direct" if direct else "optimise"))
        if xm.shape != (n,) or not np.all(np.isfinite(xm)):
            ctx.mismatch(_sig(case, "map/shape"), case, "MAP estimate is not a finite parameter vector of the posterior's dimension", expected=mu, observed=xm)
        elif direct:
            if L.rel_err(xm, mu) > RTOL_DIRECT:
                ctx.mismatch(_sig(case, "map/direct"), case, "closed-form MAP of a linear-Gaussian problem is not the posterior mean "
                             "Lambda^-1 (G^T P y + P0 mu0)", expected=mu, observed=xm)
        elif _flagged(info):
            _outcome(ctx, "MAP/flagged-unsuccessful")
        else:
            g = Lam @ xm - rhs                                  # gradient of the negative log-posterior (spec matrices)
            if np.max(np.abs(g)) > GTOL * max(1.0, np.max(np.abs(rhs))) or L.rel_err(xm, mu) > 1e-3:
                ctx.mismatch(_sig(case, "map/optimise"), case, "MAP estimate from the optimisation route is not the maximiser of the posterior "
                             "(gradient Lambda x - rhs not ~ 0)", expected=mu, observed=xm, detail={"gradient": g})
    # ---------------- ML ----------------
    ctx.case(("ml", _sig(case, "")), facet="ml/%s" % ("fullrank" if case["fullrank"] else "rankdef"))
    try:
        with L.quiet():
            xl = BP.ML()
        info = getattr(xl, "info", None)
        xl = np.asarray(xl, dtype=float).ravel()
    except Exception as e:
        xl = None
        _outcome(ctx, "ML/error/geom=%s" % case["geo"])
    if xl is not None:
        _outcome(ctx, "ML/estimate")
        gl = G.T @ (Pe @ (y - G @ xl)) if xl.shape == (n,) else None   # gradient of the log-likelihood
        if gl is None or not np.all(np.isfinite(xl)):
            ctx.mismatch(_sig(case, "ml/shape"), case, "ML estimate is not a finite parameter vector", expected=L.qnp(case["xml_q"]), observed=xl)
        elif _flagged(info):
            _outcome(ctx, "ML/flagged-unsuccessful")
        else:
            scale = max(1.0, np.max(np.abs(G.T @ (Pe @ y))))
            bad = np.max(np.abs(gl)) > GTOL * scale
            if case["fullrank"]:
                xml = L.qnp(case["xml_q"])
                tolx = GTOL * scale * np.max(np.abs(np.linalg.inv(L.inp(case["GtPG"])))) * n + 1e-7
                bad = bad or np.max(np.abs(xl - xml)) > tolx
            if bad:
                ctx.mismatch(_sig(case, "ml/optimise"), case, "ML estimate is not a maximiser of the likelihood (G^T P (y - G x) not ~ 0)",
                             expected=L.qnp(case["xml_q"]) if case["fullrank"] else "any solution of the normal equations", observed=xl,
                             detail={"gradient": gl})
    # ---------------- direct sampling ----------------
    if case["sroute"] != "direct":
        return
    ctx.case(("sample", _sig(case, "")), facet="sample/direct")

    def draw(items):
        with L.scripted({"normal": list(items)}), L.quiet():
            s = BP.sample_posterior(1)
        return np.asarray(s.samples, dtype=float)[:, -1]
    try:
        off, T, N = L.affine_readoff(draw)
    except L.ScriptError:
        _outcome(ctx, "sample/other-route")
        return
    except Exception as e:
        _outcome(ctx, "sample/error/%s+%s" % (case["noise"]["form"], case["prior"]["form"]))
        return
    _outcome(ctx, "sample/draws")
    if L.rel_err(off, mu) > RTOL_DIRECT:
        ctx.mismatch(_sig(case, "sample/offset"), case, "direct Gaussian sampling: draw for perturbation 0 is not the posterior mean", expected=mu, observed=off)
    if L.rel_err(T @ T.T, cov, scale=1e-3) > RTOL_DIRECT:
        ctx.mismatch(_sig(case, "sample/cov"), case, "direct Gaussian sampling: linear part L of the draw does not satisfy L L^T = Lambda^-1",
                     expected=cov, observed=T @ T.T)


# --------------------------------------------------------------------------------------------------------------
# optimisation route on polynomial models
# --------------------------------------------------------------------------------------------------------------
def _peval(p, x):
    return sum(t["c"] * x[0] ** t["e"][0] * x[1] ** t["e"][1] for t in p)


def _poly_funcs(case):
    F, dF = case["F"], case["gradF"]
    q = case["q"]
    fwd = lambda x: np.array([_peval(F[a], x) for a in range(q)], dtype=float)
    jac = lambda x: np.array([[_peval(dF[a][v], x) for v in range(2)] for a in range(q)], dtype=float)
    return fwd, jac


def check_poly_case(ctx, case):
    import cuqi
    L = _L()
    if not case["pd"]:
        return
    fwd, jac = _poly_funcs(case)
    q = case["q"]
    y, mu0, xs = L.qnp(case["y_q"]), L.qnp(case["mu_q"]), L.qnp(case["xstar_q"])
    pe, px = float(case["pe"]), float(case["px"])
    model = cuqi.model.Model(lambda x: fwd(x), range_geometry=q, domain_geometry=2, jacobian=lambda x: jac(x))
    x = cuqi.distribution.Gaussian(mu0, cov=1.0 / px, name="x")
    yd = cuqi.distribution.Gaussian(model(x), cov=1.0 / pe, name="y")
    BP = cuqi.problem.BayesianProblem(x, yd).set_data(y=y)
    # spec-side objective and gradient (polynomials emitted by TLC): Phi = pe/2 |y - F|^2 + px/2 |x - mu|^2
    phi = lambda z: 0.5 * pe * np.sum((y - fwd(z)) ** 2) + 0.5 * px * np.sum((z - mu0) ** 2)
    grad = lambda z: -pe * jac(z).T @ (y - fwd(z)) + px * (z - mu0)
    H = L.qnp(case["hess_q"])
    sig = "poly/%s/xs=%d/r=%d/pe=%d/px=%d" % (case["model"], case["xs"], case["r"], case["pe"], case["px"])
    for tag, x0 in (("near", xs + np.array([0.05, -0.04])), ("default", None)):
        ctx.case(("poly", sig, tag), facet="poly/%s" % tag)
        try:
            with L.quiet():
                xm = BP.MAP(x0=x0) if x0 is not None else BP.MAP()
            info = getattr(xm, "info", None)
            xm = np.asarray(xm, dtype=float).ravel()
        except Exception as e:
            _outcome(ctx, "poly/MAP/error")
            continue
        if _flagged(info):
            _outcome(ctx, "poly/MAP/flagged-unsuccessful")
            continue
        _outcome(ctx, "poly/MAP/estimate")
        g = grad(xm)
        gscale = max(1.0, np.max(np.abs(H)))
        # a neighbour counts as better only beyond what the residual gradient the solver is allowed to leave (|g| <= gtol)
        # explains to first order: phi(x + d) - phi(x) >= g.d >= -|g| |d| at a point that is a minimiser up to gtol
        gn = float(np.linalg.norm(g))
        worse = [d for d in _neighbours()
                 if phi(xm + d) < phi(xm) - gn * float(np.linalg.norm(d)) - 1e-12 * max(1.0, abs(phi(xm)))]
        if np.max(np.abs(g)) > GTOL * gscale or worse:
            ctx.mismatch(sig + "/" + tag, case, "MAP estimate of the polynomial problem is not a local maximiser of the posterior "
                         "(gradient of the spec's polynomial objective not ~ 0 or a nearby point has larger density)",
                         expected={"gradient": 0, "xstar": xs}, observed={"x": xm, "gradient": g, "better_neighbours": worse[:3]})
        elif tag == "near":
            if np.max(np.abs(xm - xs)) > 1e-4:
                _outcome(ctx, "poly/MAP/other-local-maximiser")
    # ML of the polynomial likelihood: gradient of |y - F(x)|^2 vanishes
    ctx.case(("poly-ml", sig), facet="poly/ml")
    try:
        with L.quiet():
            xl = BP.ML(x0=xs + np.array([0.05, -0.04]))
        info = getattr(xl, "info", None)
        xl = np.asarray(xl, dtype=float).ravel()
    except Exception as e:
        _outcome(ctx, "poly/ML/error")
        return
    if _flagged(info):
        _outcome(ctx, "poly/ML/flagged-unsuccessful")
        return
    gl = pe * jac(xl).T @ (y - fwd(xl))
    if np.max(np.abs(gl)) > GTOL * max(1.0, np.max(np.abs(H))):
        ctx.mismatch(sig + "/ml", case, "ML estimate of the polynomial problem is not a stationary point of the likelihood", expected=0, observed=gl)


def _neighbours():
    out = []
    for r in (1e-2, 1e-3):
        for a in range(8):
            out.append(r * np.array([np.cos(a * np.pi / 4), np.sin(a * np.pi / 4)]))
    return out


# --------------------------------------------------------------------------------------------------------------
# routing table: one realisation per (prior type, model type); outcome in {maximiser, Error}
# --------------------------------------------------------------------------------------------------------------
def check_routes(ctx, table):
    import cuqi
    L = _L()
    A = np.array([[1.0, 2.0], [0.0, 1.0], [-1.0, 1.0]])
    ydat = np.array([-2.0, 0.0, 2.0])
    fwd_nl = lambda x: np.array([x[0] ** 2 + x[1], x[0] * x[1] - 2 * x[1] + x[0], x[0] - x[1]])
    jac_nl = lambda x: np.array([[2 * x[0], 1.0], [x[1] + 1.0, x[0] - 2.0], [1.0, -1.0]])
    rows = {(r["prior"], r["model"]): r for r in table if r["lik"] == "Gaussian" and r["small"]}
    for (pt, mt), row in sorted(rows.items()):
        if pt == "Other":
            continue
        with L.quiet():
            if pt == "Gaussian":
                x = cuqi.distribution.Gaussian(np.array([-1.0, 1.0]), cov=np.array([[5.0, -2.0], [-2.0, 1.0]]), name="x")
            elif pt == "GMRF":
                x = cuqi.distribution.GMRF(np.array([-1.0, 1.0]), 4.0, bc_type="zero", order=1, name="x")
            elif pt == "LMRF":
                x = cuqi.distribution.LMRF(0.0, 1.0, geometry=2, name="x")
            else:
                x = cuqi.distribution.CMRF(0.0, 1.0, geometry=2, name="x")
            if mt == "Linear":
                model = cuqi.model.LinearModel(A)
                F, J = (lambda z: A @ z), (lambda z: A)
            else:
                model = cuqi.model.Model(lambda x: fwd_nl(x), range_geometry=3, domain_geometry=2, jacobian=lambda x: jac_nl(x))
                F, J = fwd_nl, jac_nl
            yd = cuqi.distribution.Gaussian(model(x), cov=0.25, name="y")
            BP = cuqi.problem.BayesianProblem(x, yd).set_data(y=ydat)
        sig = "route/prior=%s/model=%s" % (pt, mt)
        ctx.case(("route", sig), facet="route/%s" % row["map"])
        try:
            with L.quiet():
                xm = BP.MAP()
            info = getattr(xm, "info", None)
            xm = np.asarray(xm, dtype=float).ravel()
        except Exception as e:
            _outcome(ctx, sig + "/error")
            continue
        if _flagged(info):
            _outcome(ctx, sig + "/flagged-unsuccessful")
            continue
        _outcome(ctx, sig + "/estimate")
        # objective from the ORIGINAL prior and the plain formula of the Gaussian likelihood (not the posterior object under test)
        nlp = lambda z: 0.5 * 4.0 * np.sum((ydat - F(z)) ** 2) - float(np.ravel(x.logd(z))[0])
        if row["lingauss"]:
            P0 = np.array([[1.0, 2.0], [2.0, 5.0]]) if pt == "Gaussian" else 4.0 * np.array([[2.0, -1.0], [-1.0, 2.0]])
            Lam = 4.0 * A.T @ A + P0
            mu = np.linalg.solve(Lam, 4.0 * A.T @ ydat + P0 @ np.array([-1.0, 1.0]))
            tol = RTOL_DIRECT if (isinstance(info, dict) and info.get("solver") == "direct") else 1e-4
            if L.rel_err(xm, mu) > tol:
                ctx.mismatch(sig, {"kind": "route", "row": row}, "MAP of a linear-Gaussian problem is not the closed-form posterior mean", expected=mu, observed=xm)
        elif pt in ("Gaussian", "GMRF"):
            # first-order slack GTOL |d|: the solver may stop with a gradient of size gtol (see GTOL)
            worse = [d for d in _neighbours()
                     if nlp(xm + d) < nlp(xm) - GTOL * float(np.linalg.norm(d)) - 1e-10 * max(1.0, abs(nlp(xm)))]
            if worse:
                ctx.mismatch(sig, {"kind": "route", "row": row}, "MAP estimate has a nearby point with larger posterior density",
                             expected="local maximiser", observed={"x": xm, "better": worse[:3]})
        else:
            # non-smooth (LMRF) / heavy tailed (CMRF) priors: recorded, only gross failures (a far better neighbour) are judged
            worse = [d for d in _neighbours() if nlp(xm + d) < nlp(xm) - 1e-3 * max(1.0, abs(nlp(xm)))]
            if worse:
                ctx.mismatch(sig, {"kind": "route", "row": row}, "MAP estimate has a nearby point with clearly larger posterior density",
                             expected="local maximiser", observed={"x": xm, "better": worse[:3]})


# --------------------------------------------------------------------------------------------------------------
# Reassign sequences on ONE BayesianProblem (LinGauss part `reassign`)
# --------------------------------------------------------------------------------------------------------------
# TLC emits, per base configuration, the 16 states "which version (1 / 2) of prior mean, prior parameter, noise
# parameter, data is currently assigned" with the closed forms of a FRESH problem with exactly these values (invariant
# ReassignIsFresh).  The replayer walks behaviours of that state graph on ONE real BayesianProblem: build with version
# 1, ReWarm = evaluate every observable (fills whatever the objects cache), ReAssign(f) = public setter of field f on
# the objects the problem holds, and after EVERY action compares every observable with the expectation of the state
# reached.  BayesianProblem copies its distributions when it conditions on the data (Distribution._condition ->
# _make_copy, by design), so the objects that take effect are BP.prior, BP.likelihood.distribution, BP.likelihood.data.
RE_FIELDS = ("mean", "prior", "noise", "data")
RE_WHICH = {"mean": "mean", "prior": "prior_par", "noise": "noise_par", "data": "data", None: "none"}
RTOL_COV = 1e-8


def _re_base(case):
    return (case["m"], case["na"], case["i1"], case["j"], case["mk"], case["mdl"], case["av"])


def _re_selkey(sel):
    return "%d%d%d%d" % (sel["mean"], sel["prior"], sel["noise"], sel["data"])


def _re_group(cases):
    """{base configuration: {state key 'mpnd': case}}; every base configuration must come with all 16 states."""
    from cuqiverif.core import MachineryError
    groups = {}
    for c in cases:
        groups.setdefault(_re_base(c), {})[_re_selkey(c["sel"])] = c
    for b, g in groups.items():
        if len(g) != 16:
            raise MachineryError("LinGauss.reassign: base configuration %r emitted %d of 16 states" % (b, len(g)))
    return [groups[b] for b in sorted(groups)]


class _ReSig:
    """Signature factory of one point of a behaviour: order (warm / cold / partial), field just assigned, state, phase."""

    def __init__(self, st, order, which, phase):
        L = _L()
        self.tail = "noise=%s/prior=%s/order=%s/which=%s/state=%s/phase=%s/mean=%s/model=%s/m=%d/n=%d" % (
            L.form_tag(st["noise"]), L.form_tag(st["prior"]), order, RE_WHICH[which], _re_selkey(st["sel"]), phase,
            st["mk"], st["mdl"], st["m"], st["n"])

    def __call__(self, what):
        return "reassign/%s/%s" % (what, self.tail)


def _re_assign(BP, field, st):
    """ReAssign(field): the public setter, on the objects the problem holds, with the value of the target state."""
    L = _L()
    if field == "mean":
        BP.prior.mean = L.mean_value(st)
    elif field == "prior":
        name, val = L.prior_assignment(st)
        setattr(BP.prior, name, val)
    elif field == "noise":
        name, val = L.noise_assignment(st)
        setattr(BP.likelihood.distribution, name, val)
    elif field == "data":
        BP.likelihood.data = L.inp(st["y"])
    else:
        raise ValueError(field)


def _re_obs_cov(ctx, BP, st, sig, carry):
    """compute_cov() of both Gaussians = the covariance of the value currently assigned (fills the cache)."""
    L = _L()
    for who, dist, Cq in (("prior", BP.prior, st["C0_q"]), ("noise", BP.likelihood.distribution, st["Ce_q"])):
        if not hasattr(dist, "compute_cov"):
            continue                                        # GMRF: no covariance interface
        ctx.case(("reassign", sig("cov/" + who)), facet="reassign/cov")
        try:
            C = L.dense(dist.compute_cov())
        except Exception:
            _outcome(ctx, "reassign/compute_cov/error/%s" % who)
            continue
        if L.rel_err(C, L.qnp(Cq), scale=1e-3) > RTOL_COV:
            ctx.mismatch(sig("cov/" + who), carry, "compute_cov() of the %s Gaussian is not the covariance of the parameter "
                         "currently assigned" % who, expected=L.qnp(Cq), observed=C)


def _re_obs_read(ctx, BP, st, sig, carry):
    """What the routes read without computing: sqrtprec (S^T S = precision), and cov / prec when they are handed out."""
    L = _L()
    for who, dist, Cq, P in (("prior", BP.prior, st["C0_q"], st["P0"]), ("noise", BP.likelihood.distribution, st["Ce_q"], st["Pe"])):
        P = L.inp(P)
        dim = P.shape[0]
        ctx.case(("reassign", sig("read/" + who)), facet="reassign/read")
        try:
            S = L.dense(dist.sqrtprec)
            if S.ndim == 2 and S.shape[1] == dim and L.rel_err(S.T @ S, P, scale=1e-3) > RTOL_COV:
                ctx.mismatch(sig("read/sqrtprec/" + who), carry, "sqrtprec of the %s distribution does not square to the precision of "
                             "the parameter currently assigned" % who, expected=P, observed=S.T @ S)
        except Exception:
            _outcome(ctx, "reassign/read/sqrtprec/error/%s" % who)
        if not hasattr(dist, "compute_cov"):
            continue
        for attr, exp in (("cov", L.qnp(Cq)), ("prec", P)):
            try:
                V = getattr(dist, attr)
                if V is None or callable(V):
                    continue
                V = L.expand_diag(V, dim)
            except Exception:
                continue                                    # not available for this input form: nothing is handed out
            if L.rel_err(V, exp, scale=1e-3) > RTOL_COV:
                ctx.mismatch(sig("read/%s/%s" % (attr, who)), carry, "%s handed out by the %s Gaussian is not the one of the parameter "
                             "currently assigned" % (attr, who), expected=exp, observed=V)


def _re_obs_logd(ctx, BP, st, sig, carry):
    """Log-density DIFFERENCES between two points (what a maximiser depends on; the normalisation is C04's business)."""
    L = _L()
    n = st["n"]
    G, Pe, P0, y = L.inp(st["G"]), L.inp(st["Pe"]), L.inp(st["P0"]), L.inp(st["y"])
    mu0 = np.array(st["prior"]["blocks"][0]["mu"], dtype=float)
    xa, xb = np.zeros(n), np.array([1.0, -2.0, 3.0])[:n]
    qp = lambda z: -0.5 * float((z - mu0) @ P0 @ (z - mu0))
    ql = lambda z: -0.5 * float((y - G @ z) @ Pe @ (y - G @ z))
    exp = {"prior": qp(xb) - qp(xa), "likelihood": ql(xb) - ql(xa)}
    exp["posterior"] = exp["prior"] + exp["likelihood"]
    for who, dens in (("prior", lambda: BP.prior), ("likelihood", lambda: BP.likelihood), ("posterior", lambda: BP.posterior)):
        ctx.case(("reassign", sig("logd/" + who)), facet="reassign/logd")
        try:
            with L.quiet():
                dd = dens()
                got = float(np.ravel(dd.logd(xb))[0]) - float(np.ravel(dd.logd(xa))[0])
        except Exception:
            _outcome(ctx, "reassign/logd/error/%s" % who)
            continue
        if not np.isfinite(got) or abs(got - exp[who]) > 1e-9 * max(1.0, abs(exp[who])):
            ctx.mismatch(sig("logd/" + who), carry, "log-density difference of the %s between two points is not the quadratic form of "
                         "the values currently assigned" % who, expected=exp[who], observed=got)


def _re_obs_map(ctx, BP, st, sig, carry):
    L = _L()
    n = st["n"]
    Lam, rhs, mu = L.inp(st["Lam"]), L.inp(st["rhs"]), L.qnp(st["mu_q"])
    ctx.case(("reassign", sig("map")), facet="reassign/map/%s" % st["route"])
    try:
        with L.quiet():
            xm = BP.MAP()
        info = getattr(xm, "info", None)
        xm = np.asarray(xm, dtype=float).ravel()
    except Exception:
        _outcome(ctx, "reassign/MAP/error/%s+%s" % (st["noise"]["form"], st["prior"]["form"]))
        return
    direct = isinstance(info, dict) and info.get("solver") == "direct"
    _outcome(ctx, "reassign/MAP/estimate/%s" % ("direct" if direct else "optimise"))
    if xm.shape != (n,) or not np.all(np.isfinite(xm)):
        ctx.mismatch(sig("map/shape"), carry, "MAP estimate is not a finite parameter vector of the posterior's dimension", expected=mu, observed=xm)
    elif direct:
        if L.rel_err(xm, mu) > RTOL_DIRECT:
            ctx.mismatch(sig("map/direct"), carry, "closed-form MAP after this sequence of assignments is not the posterior mean of a "
                         "freshly built problem with the values currently assigned", expected=mu, observed=xm)
    elif _flagged(info):
        _outcome(ctx, "reassign/MAP/flagged-unsuccessful")
    else:
        g = Lam @ xm - rhs
        if np.max(np.abs(g)) > GTOL * max(1.0, np.max(np.abs(rhs))) or L.rel_err(xm, mu) > 1e-3:
            ctx.mismatch(sig("map/optimise"), carry, "MAP estimate (optimisation route) after this sequence of assignments is not the "
                         "maximiser of the posterior of the values currently assigned", expected=mu, observed=xm, detail={"gradient": g})


def _re_obs_ml(ctx, BP, st, sig, carry):
    L = _L()
    n = st["n"]
    G, Pe, y = L.inp(st["G"]), L.inp(st["Pe"]), L.inp(st["y"])
    ctx.case(("reassign", sig("ml")), facet="reassign/ml")
    try:
        with L.quiet():
            xl = BP.ML()
        info = getattr(xl, "info", None)
        xl = np.asarray(xl, dtype=float).ravel()
    except Exception:
        _outcome(ctx, "reassign/ML/error")
        return
    _outcome(ctx, "reassign/ML/estimate")
    if xl.shape != (n,) or not np.all(np.isfinite(xl)):
        ctx.mismatch(sig("ml/shape"), carry, "ML estimate is not a finite parameter vector", expected=L.qnp(st["xml_q"]), observed=xl)
        return
    if _flagged(info):
        _outcome(ctx, "reassign/ML/flagged-unsuccessful")
        return
    gl = G.T @ (Pe @ (y - G @ xl))
    scale = max(1.0, np.max(np.abs(G.T @ (Pe @ y))))
    bad = np.max(np.abs(gl)) > GTOL * scale
    if st["fullrank"]:
        xml = L.qnp(st["xml_q"])
        tolx = GTOL * scale * np.max(np.abs(np.linalg.inv(L.inp(st["GtPG"])))) * n + 1e-7
        bad = bad or np.max(np.abs(xl - xml)) > tolx
    if bad:
        ctx.mismatch(sig("ml/optimise"), carry, "ML estimate after this sequence of assignments is not a maximiser of the likelihood of "
                     "the values currently assigned", expected=L.qnp(st["xml_q"]) if st["fullrank"] else "any solution of the normal equations",
                     observed=xl, detail={"gradient": gl})


def _re_obs_sample(ctx, BP, st, sig, carry):
    L = _L()
    if st["sroute"] != "direct":
        return
    mu, cov = L.qnp(st["mu_q"]), L.qnp(st["LamInv_q"])
    ctx.case(("reassign", sig("sample")), facet="reassign/sample")

    def draw(items):
        with L.scripted({"normal": list(items)}), L.quiet():
            s = BP.sample_posterior(1)
        return np.asarray(s.samples, dtype=float)[:, -1]
    try:
        off, T, N = L.affine_readoff(draw)
    except L.ScriptError:
        _outcome(ctx, "reassign/sample/other-route")
        return
    except Exception:
        _outcome(ctx, "reassign/sample/error/%s+%s" % (st["noise"]["form"], st["prior"]["form"]))
        return
    _outcome(ctx, "reassign/sample/draws")
    if L.rel_err(off, mu) > RTOL_DIRECT:
        ctx.mismatch(sig("sample/offset"), carry, "direct Gaussian sampling after this sequence of assignments: draw for perturbation 0 is "
                     "not the posterior mean of the values currently assigned", expected=mu, observed=off)
    if L.rel_err(T @ T.T, cov, scale=1e-3) > RTOL_DIRECT:
        ctx.mismatch(sig("sample/cov"), carry, "direct Gaussian sampling after this sequence of assignments: L L^T is not Lambda^-1 of the "
                     "values currently assigned", expected=cov, observed=T @ T.T)


_RE_OBS = {"cov": _re_obs_cov, "read": _re_obs_read, "logd": _re_obs_logd, "map": _re_obs_map, "ml": _re_obs_ml, "sample": _re_obs_sample}


def _rot(seq, r):
    seq = list(seq)
    r %= len(seq)
    return seq[r:] + seq[:r]


def _re_eval(ctx, BP, st, order, which, phase, obs, carry):
    sig = _ReSig(st, order, which, phase)
    for o in obs:
        _RE_OBS[o](ctx, BP, st, sig, carry)


def check_reassign_chain(ctx, states, order, perm, rot):
    """One behaviour of LinGauss part `reassign` on ONE BayesianProblem.
      order = 'warm'   : build(1111) . ReWarm . [ReAssign(f) . compare . ReWarm . compare  for f in perm]
      order = 'cold'   : build(1111) . ReAssign(f) for f in perm (nothing evaluated in between) . compare . ReWarm . compare
    `perm` may be a single field (partial reassignment: the expectation is the spec's mixed configuration).  `rot`
    rotates the order in which MAP / sample_posterior / ML (and compute_cov) are called on the one object."""
    L = _L()
    st = states["1111"]
    ctx.observations["reassign_behaviours"] = ctx.observations.get("reassign_behaviours", 0) + 1
    carry = {"kind": "reassign", "order": order, "perm": list(perm), "rot": rot, "states": states}
    try:
        with L.quiet():
            BP = build_problem(st)
    except L.MachineryError:
        raise
    except Exception:
        _outcome(ctx, "reassign/build/error")
        return
    calls = _rot(["map", "sample", "ml"], rot)
    # after an assignment: everything BEFORE compute_cov() is called again (a stale cache must show), compute_cov() last
    asis = ["read", "logd"] + calls + ["cov"]
    rewarm = ["read"] + [c for c in calls if c != "ml"]
    if order == "warm":
        first = (calls[:2] if rot % 2 else []) + ["cov", "read", "logd"] + calls      # odd rot: MAP / sampling also BEFORE compute_cov()
        _re_eval(ctx, BP, st, order, None, "initial", first, carry)
    sel = dict(st["sel"])
    last = None
    for i, f in enumerate(perm):
        sel[f] = 2
        st = states[_re_selkey(sel)]
        try:
            with L.quiet():
                _re_assign(BP, f, st)
        except Exception as e:
            # a refused assignment is an accepted outcome; the state of the object is then not defined by the spec: stop here
            _outcome(ctx, "reassign/assign/refused/%s/%s" % (RE_WHICH[f], type(e).__name__))
            return
        last = f
        if order == "warm":
            _re_eval(ctx, BP, st, order, f, "asis", asis, carry)
            _re_eval(ctx, BP, st, order, f, "rewarm", rewarm, carry)
    if order != "warm":
        _re_eval(ctx, BP, st, order, last, "asis", asis, carry)
        _re_eval(ctx, BP, st, order, last, "rewarm", rewarm, carry)


def check_reassign(ctx, groups):
    """Behaviours replayed per base configuration (index i, seed s):
       warm chain over all four fields, first field RE_FIELDS[(i + s) % 4] (its first step = partial reassignment after warming);
       cold chain: all four fields assigned before anything is evaluated (reverse order: assign, evaluate later);
       cold partial: only ONE field assigned before anything is evaluated (quick: one field per configuration, thorough: each)."""
    for i, states in enumerate(groups):
        r = i + ctx.seed
        perm = _rot(RE_FIELDS, r)
        check_reassign_chain(ctx, states, "warm", perm, r)
        check_reassign_chain(ctx, states, "cold", _rot(RE_FIELDS[::-1], r), r + 1)
        partial = RE_FIELDS if ctx.tier == "thorough" else [RE_FIELDS[(r + 1) % 4]]
        for f in partial:
            check_reassign_chain(ctx, states, "partial", [f], r + 2)
        if ctx.tier == "thorough":
            for q in (1, 2, 3):                          # warm chains starting with each of the other fields
                check_reassign_chain(ctx, states, "warm", _rot(RE_FIELDS, r + q), r + q)


# --------------------------------------------------------------------------------------------------------------
# ONE process, a LIST of problems of different size on the optimisation route (spec MapProc.tla)
# --------------------------------------------------------------------------------------------------------------
def _mp_funcs(k):
    """forward model, Jacobian, objective and gradients of one call of MapProc.tla (chain polynomial, data and prior mean
    from the spec's exact rationals)"""
    L = _L()
    n, pe, px = int(k["n"]), float(k["pe"]), float(k["px"])
    y, mu = L.qnp(k["y_q"]), L.qnp(k["mu_q"])

    def fwd(x):
        x = np.asarray(x, dtype=float).ravel()
        out = np.empty(n)
        out[:-1] = x[1:] - x[:-1] ** 2
        out[-1] = x[-1]
        return out

    def jac(x):
        x = np.asarray(x, dtype=float).ravel()
        J = np.zeros((n, n))
        for i in range(n - 1):
            J[i, i] = -2.0 * x[i]
            J[i, i + 1] = 1.0
        J[n - 1, n - 1] = 1.0
        return J
    glik = lambda z: -pe * jac(z).T @ (y - fwd(z))
    gphi = lambda z: glik(z) + px * (np.asarray(z, dtype=float) - mu)
    plik = lambda z: 0.5 * pe * float(np.sum((y - fwd(z)) ** 2))
    phi = lambda z: plik(z) + 0.5 * px * float(np.sum((np.asarray(z, dtype=float) - mu) ** 2))
    return {"n": n, "pe": pe, "px": px, "y": y, "mu": mu, "fwd": fwd, "jac": jac, "glik": glik, "gphi": gphi, "plik": plik, "phi": phi}


def _mp_run_list(calls):
    """Run the calls of one list one after the other IN THIS PROCESS, a NEW BayesianProblem for every call.  One record per call:
    {"outcome": "error" | "estimate", "x", "success", "nit", "error"}"""
    import cuqi
    L = _L()
    out = []
    for k in calls:
        f = _mp_funcs(k)
        n = f["n"]
        rec = {"name": k["name"]}
        try:
            with L.quiet():
                model = cuqi.model.Model(lambda x, f=f: f["fwd"](x), range_geometry=n, domain_geometry=n, jacobian=lambda x, f=f: f["jac"](x))
                x = cuqi.distribution.Gaussian(f["mu"], cov=1.0 / f["px"], name="x")
                yd = cuqi.distribution.Gaussian(model(x), cov=1.0 / f["pe"], name="y")
                BP = cuqi.problem.BayesianProblem(x, yd).set_data(y=f["y"])
                x0 = np.array(k["x0"], dtype=float)
                est = BP.MAP(x0=x0) if k["which"] == "MAP" else BP.ML(x0=x0)
            info = getattr(est, "info", None)
            rec.update(outcome="estimate", x=np.array(np.asarray(est, dtype=float).ravel()),
                       success=None if not (isinstance(info, dict) and "success" in info) else bool(info["success"]),
                       nit=int(info["nit"]) if isinstance(info, dict) and info.get("nit") is not None else None,
                       message=str(info.get("message")) if isinstance(info, dict) else None)
        except Exception as e:
            rec.update(outcome="error", error=repr(e))
        out.append(rec)
    return out


def _mp_child(path_in, path_out):
    """entry point of the fresh process of one list (python -m cuqiverif.props.c15 <in> <out>)"""
    import json, pickle
    pickle.dump(_mp_run_list(json.load(open(path_in))), open(path_out, "wb"))


def _mp_spawn(workdir, idx, calls):
    import json, os, subprocess, sys
    repo = os.environ.get("CUQIVERIF_REPO", "/repo")
    here = os.path.dirname(os.path.dirname(os.path.dirname(os.path.abspath(__file__))))      # .../harness
    pin, pout = os.path.join(workdir, "mapproc-%d.in.json" % idx), os.path.join(workdir, "mapproc-%d.out.pkl" % idx)
    json.dump(calls, open(pin, "w"))
    env = dict(os.environ, PYTHONPATH=here + os.pathsep + repo, OMP_NUM_THREADS="1", TQDM_DISABLE="1")
    p = subprocess.run([sys.executable, "-m", "cuqiverif.props.c15", pin, pout], env=env, stdout=subprocess.PIPE,
                       stderr=subprocess.STDOUT, text=True, timeout=900)
    return p, pout


def _mp_class(rec):
    if rec["outcome"] == "error":
        return "error"
    return "flagged-unsuccessful" if rec.get("success") is False else "estimate"


def _mp_judge(ctx, case, k, rec, sig):
    """the optimality conditions of the spec at the returned point (as for the polynomial problems of part poly)"""
    cls = _mp_class(rec)
    _outcome(ctx, "mapproc/%s/%s" % (k["which"], cls))
    if cls != "estimate":
        return
    f = _mp_funcs(k)
    xm = rec["x"]
    n = f["n"]
    g = f["gphi"](xm) if k["which"] == "MAP" else f["glik"](xm)
    obj = f["phi"] if k["which"] == "MAP" else f["plik"]
    gn = float(np.linalg.norm(g))
    dirs = []
    for r in (1e-2, 1e-3):
        for i in sorted(set((0, n // 2, n - 1))):
            e = np.zeros(n)
            e[i] = r
            dirs += [e, -e]
        dirs += [r * np.ones(n) / np.sqrt(n), -r * np.ones(n) / np.sqrt(n)]
    worse = [d for d in dirs if obj(xm + d) < obj(xm) - gn * float(np.linalg.norm(d)) - 1e-12 * max(1.0, abs(obj(xm)))]
    if xm.shape != (n,) or not np.all(np.isfinite(xm)) or np.max(np.abs(g)) > GTOL or worse:
        ctx.mismatch(sig + "/optimality", case, "%s estimate of the chain problem is not a local maximiser (gradient of the spec's objective "
                     "not ~ 0 or a nearby point has a larger density)" % k["which"],
                     expected={"gradient": 0, "xstar": _L().qnp(k["xstar_q"])},
                     observed={"x": xm, "max|gradient|": float(np.max(np.abs(g))) if g.size else None, "better_neighbours": len(worse)})
    elif np.max(np.abs(xm - _L().qnp(k["xstar_q"]))) > 1e-3:
        _outcome(ctx, "mapproc/%s/other-local-maximiser" % k["which"])


def check_mapproc(ctx, cases, workdir, guard=True):
    """cases: the behaviours of MapProc.tla (one per order of a list; singleton lists = every call alone).  Each one runs in a
    FRESH python process.  Every estimate is judged by the spec's optimality conditions, and the outcome of a call inside a list
    must be the outcome of the same call ALONE in a process (the spec's outcome is a function of the call's own problem)."""
    import concurrent.futures, os, pickle
    from cuqiverif.core import MachineryError
    os.makedirs(workdir, exist_ok=True)
    cases = sorted(cases, key=lambda c: (len(c["calls"]), [k["name"] for k in c["calls"]]))
    with concurrent.futures.ThreadPoolExecutor(max_workers=8) as pool:
        futs = [pool.submit(_mp_spawn, workdir, i, c["calls"]) for i, c in enumerate(cases)]
        done = [f.result() for f in futs]
    recs = []
    for c, (p, pout) in zip(cases, done):
        if p.returncode != 0 or not os.path.exists(pout):
            raise MachineryError("the process of the list %s ended with code %s:\n%s" %
                                 (">".join(k["name"] for k in c["calls"]), p.returncode, "\n".join(p.stdout.splitlines()[-12:])))
        recs.append(pickle.load(open(pout, "rb")))
    alone = {c["calls"][0]["name"]: (c["calls"][0], r[0]) for c, r in zip(cases, recs) if len(c["calls"]) == 1}
    for c, rs in zip(cases, recs):
        names = [k["name"] for k in c["calls"]]
        for i, (k, r) in enumerate(zip(c["calls"], rs)):
            sig = "mapproc/%s/%s/n=%d/pos=%d/after=%s" % (k["which"], k["name"], k["n"], i, "+".join(names[:i]) or "nothing")
            ctx.case(("mapproc", tuple(names), i), nontrivial=len(names) > 1, facet="mapproc/%s" % ("alone" if len(names) == 1 else ("first" if i == 0 else "later")))
            _mp_judge(ctx, dict(c, kind="mapproc"), k, r, sig)
            if len(names) == 1 or k["name"] not in alone:
                continue
            ra = alone[k["name"]][1]
            ca, cs = _mp_class(ra), _mp_class(r)
            same = ca == cs and (ca == "error" or (ra["x"].shape == r["x"].shape and
                                                    bool(np.all(np.abs(ra["x"] - r["x"]) <= 1e-9 * (1.0 + np.abs(ra["x"]))))))
            if not same:
                ctx.mismatch(sig + "/history", dict(c, kind="mapproc"),
                             "%s of this problem depends on what was solved BEFORE in the process: alone in a fresh process the call gives "
                             "%s (nit %s), after %s it gives %s (nit %s, %s)" % (k["which"], ca, ra.get("nit"), "+".join(names[:i]) or
                                                                                 "nothing (but others follow)", cs, r.get("nit"), r.get("message")),
                             expected={"outcome": ca, "x": ra.get("x")}, observed={"outcome": cs, "x": r.get("x"), "error": r.get("error")})
    # vacuity: the optimiser must need more iterations on a large problem than the documented limit of a smaller one of its list
    nits = {nm: r.get("nit") for nm, (k, r) in alone.items() if r.get("nit") is not None}
    ctx.observe("mapproc_iterations_alone", nits)
    sens = sorted(set((a["name"], b["name"]) for c in cases for a in c["calls"] for b in c["calls"]
                      if a["name"] != b["name"] and nits.get(a["name"], 0) > b["doclimit"]))
    ctx.observe("mapproc_limit_sensitive_pairs", ["%s (nit %d) > limit of %s" % (a, nits[a], b) for a, b in sens])
    if guard and not ctx.violations and len(sens) < 2:
        raise MachineryError("MapProc: the optimiser needs more iterations than the documented limit of a smaller problem of the same "
                             "list for only %d pairs: the facet would be vacuous (%r)" % (len(sens), nits))
    ctx.observations["mapproc_behaviours"] = len(cases)


# --------------------------------------------------------------------------------------------------------------
def _deviations(ctx, names):
    from cuqiverif.core import MachineryError
    from cuqiverif import tlc
    for name, inv in names:
        res = ctx.tlc("LinGauss", cfg="LinGauss.dev_%s.cfg" % name, workers=1, timeout=600, expect_violation=True)
        if res.violated != inv:
            raise MachineryError("deviation %s: expected TLC to violate %s, got %r (vacuous invariant?)" % (name, inv, res.violated))
        ctx.observations.setdefault("deviations_refuted_by_tlc", {})[name] = inv
        tlc.cleanup(res)


def _mapvec_case(c):
    return dict(c, kind="mapvec", mdl="func." + c["fv"])


def run_mapvec(ctx):
    """LinGaussVec.tla (EXTENDS LinGauss): the linear-Gaussian configurations of part map with a function pair that is defined for VECTORS only
    (np.roll / np.flip / np.cumsum without axis).  Oracle unchanged: the exact posterior of the configuration's operator A."""
    from cuqiverif.core import MachineryError
    from cuqiverif import tlc
    import os
    wd = lambda label: os.path.join(tlc.WORK, "LinGaussVec-c15-%s-%d" % (label, os.getpid()))
    res = ctx.tlc("LinGaussVec", cfg="LinGaussVec.dev_MatrixFromForwardOfIdentity.cfg", workers=1, timeout=600, expect_violation=True,
                  extra_modules=["LinGauss.tla"], workdir=wd("dev"))
    if res.ok or res.violated != "VecDirectIsMean":
        raise MachineryError("deviation MatrixFromForwardOfIdentity: expected TLC to violate VecDirectIsMean, got %r" % (res.violated,))
    ctx.observations.setdefault("deviations_refuted_by_tlc", {})["MatrixFromForwardOfIdentity"] = "VecDirectIsMean"
    tlc.cleanup(res)
    res = ctx.tlc("LinGaussVec", cfg="LinGaussVec.%s.cfg" % ctx.tier, workers=4, timeout=1500, extra_modules=["LinGauss.tla"], workdir=wd("main"))
    ctx.model_must_hold(res, "LinGaussVec")
    cases = [_mapvec_case(c) for c in res.cases if c.get("kind") == "mapvec"]
    tlc.cleanup(res)
    if not cases:
        raise MachineryError("no cases emitted by LinGaussVec")
    cases.sort(key=lambda c: _sig(c, ""))
    oc = ctx.observations.setdefault("outcomes", {})
    before = {k: oc.get(k, 0) for k in ("MAP/estimate/direct", "sample/draws")}
    for c in cases:
        check_map_case(ctx, c)
    ctx.observations["mapvec_part"] = {"configurations": len(cases), "operators": sorted({c["fv"] for c in cases}),
                                       "closed_form_MAPs": oc.get("MAP/estimate/direct", 0) - before["MAP/estimate/direct"],
                                       "direct_draw_readoffs": oc.get("sample/draws", 0) - before["sample/draws"]}
    if not ctx.violations and (oc.get("MAP/estimate/direct", 0) == before["MAP/estimate/direct"] or oc.get("sample/draws", 0) == before["sample/draws"]):
        raise MachineryError("vacuous: no vector-only function pair reached the closed-form MAP / the direct sampler")
    pick = [c for c in cases if c["fv"] == "roll" and c["covforms"] and c["geo"] == "default"][:1]
    for c in pick:
        ctx.sample({"case": {k: c[k] for k in ("kind", "fv", "B", "V", "A", "n", "m", "geo", "y", "noise", "prior", "mu_q", "LamInv_q")}})
    return cases


def run(ctx):
    from cuqiverif.core import MachineryError
    from cuqiverif import tlc
    import concurrent.futures, os
    # MapScale.tla (physical units of linear-Gaussian problems; optimisation route without exact gradient): small runs, started
    # alongside the LinGauss runs, own work directories
    mswd = lambda label: os.path.join(tlc.WORK, "MapScale-c15-%s-%d" % (label, os.getpid()))
    mspool = concurrent.futures.ThreadPoolExecutor(max_workers=2)
    msfut = {"main": mspool.submit(ctx.tlc, "MapScale", cfg="MapScale.%s.cfg" % ctx.tier, workers=2, timeout=1500, workdir=mswd("main")),
             "dev": mspool.submit(ctx.tlc, "MapScale", cfg="MapScale.dev_AssembledDropsSmallEntries.cfg", workers=1, timeout=900,
                                  expect_violation=True, workdir=mswd("dev"))}
    try:
        _run_main(ctx, msfut)
    finally:
        concurrent.futures.wait(list(msfut.values()))
        mspool.shutdown()
        for label in ("main", "dev"):
            tlc.cleanup(mswd(label))


def _run_main(ctx, msfut):
    from cuqiverif.core import MachineryError
    from cuqiverif import tlc
    res = ctx.tlc("LinGauss", cfg="LinGauss.map.%s.cfg" % ctx.tier, workers=16, timeout=1500)
    ctx.model_must_hold(res, "LinGauss.map")
    map_cases = res.cases
    tlc.cleanup(res)
    res = ctx.tlc("LinGauss", cfg="LinGauss.poly.cfg", workers=16, timeout=600)
    ctx.model_must_hold(res, "LinGauss.poly")
    poly_cases = res.cases
    tlc.cleanup(res)
    res = ctx.tlc("LinGauss", cfg="LinGauss.route.cfg", workers=1, timeout=600)
    ctx.model_must_hold(res, "LinGauss.route")
    route_cases = res.cases
    tlc.cleanup(res)
    res = ctx.tlc("LinGauss", cfg="LinGauss.reassign.%s.cfg" % ctx.tier, workers=16, timeout=1500)
    ctx.model_must_hold(res, "LinGauss.reassign")
    re_groups = _re_group(res.cases)
    tlc.cleanup(res)
    res = ctx.tlc("MapProc", cfg="MapProc.%s.cfg" % ctx.tier, workers=4, timeout=900)
    ctx.model_must_hold(res, "MapProc")
    mp_cases = res.cases
    tlc.cleanup(res)
    res = ctx.tlc("MapProc", cfg="MapProc.dev_DefaultsLeakBetweenCalls.cfg", workers=1, timeout=600, expect_violation=True)
    if res.violated != "CallsIndependent":
        raise MachineryError("deviation DefaultsLeakBetweenCalls: expected TLC to violate CallsIndependent, got %r" % (res.violated,))
    ctx.observations.setdefault("deviations_refuted_by_tlc", {})["DefaultsLeakBetweenCalls"] = "CallsIndependent"
    tlc.cleanup(res)
    if not mp_cases or not any(len(c["calls"]) > 1 for c in mp_cases):
        raise MachineryError("MapProc emitted no list of several problems")
    if not map_cases or not poly_cases or not route_cases or not re_groups:
        raise MachineryError("no cases emitted by LinGauss (map %d, poly %d, route %d, reassign %d)" % (
            len(map_cases), len(poly_cases), len(route_cases), len(re_groups)))
    devs = [("VectorCovBroadcast", "MapDirectIsPosteriorMean"), ("MatrixIgnoresGeometry", "MapDirectIsPosteriorMean"),
            ("StaleCovAfterReassign", "ReassignIsFresh")]
    if ctx.tier == "thorough":
        devs += [("MapUsesPrecForCov", "MapDirectIsPosteriorMean")]
    _deviations(ctx, devs)
    for c in map_cases:
        check_map_case(ctx, c)
        if c["geo"] == "cont" and c["n"] >= 2:
            check_map_kl(ctx, c)
    vec_cases = run_mapvec(ctx)
    # TLC's workers emit in arbitrary order: fix the order before the seed selects a third of the cases
    pcs = sorted((c for c in poly_cases if c["pd"]), key=lambda c: (c["model"], c["xs"], c["r"], c["pe"], c["px"]))
    if ctx.tier == "quick":
        pcs = [c for i, c in enumerate(pcs) if i % 3 == ctx.seed % 3]
    for c in pcs:
        check_poly_case(ctx, c)
    check_routes(ctx, route_cases[0]["table"])
    check_reassign(ctx, re_groups)
    import os
    wdir = os.path.join(tlc.WORK, "MapProc-c15-%d" % os.getpid())
    try:
        check_mapproc(ctx, mp_cases, wdir)
    finally:
        tlc.cleanup(wdir)
    # ---- MapScale.tla ----
    from cuqiverif import c15_scale
    msres = msfut["main"].result()
    ctx.model_must_hold(msres, "MapScale")
    ms_cases = msres.cases
    r2 = msfut["dev"].result()
    if r2.ok or r2.violated != "ScalingLaw":
        raise MachineryError("deviation AssembledDropsSmallEntries: expected TLC to violate ScalingLaw, got %r" % (r2.violated,))
    ctx.observations.setdefault("deviations_refuted_by_tlc", {})["AssembledDropsSmallEntries"] = "ScalingLaw"
    sc_cases = [c for c in ms_cases if c["kind"] == "scale"]
    ng_cases = [c for c in ms_cases if c["kind"] == "nograd"]
    if not sc_cases or not ng_cases:
        raise MachineryError("MapScale emitted %d scale and %d nograd cases" % (len(sc_cases), len(ng_cases)))
    c15_scale.check_scale(ctx, sc_cases)
    ng_judged = c15_scale.check_nograd(ctx, ng_cases)
    oc = ctx.observations.get("outcomes", {})
    if not ctx.violations:
        if not oc.get("scale/MAP/estimate/direct") or not oc.get("scale/sample/draws"):
            raise MachineryError("vacuous run: no scaled problem reached the closed-form MAP / the direct sampler (%r)" % oc)
        if not oc.get("nograd/MAP/no-gradient") or not oc.get("nograd/ML/no-gradient"):
            raise MachineryError("vacuous run: no problem of kind nograd was solved without exact gradient (%r)" % oc)
        for nn in sorted(set(c["n"] for c in ng_cases)):
            if not ng_judged.get(("MAP", nn)) or not ng_judged.get(("ML", nn)):
                raise MachineryError("vacuous run: every estimate of size %d on the gradient-free route was flagged unsuccessful (%r)" % (nn, ng_judged))
    if not oc.get("mapproc/MAP/estimate") or not oc.get("mapproc/ML/estimate"):
        raise MachineryError("vacuous run: no MAP / ML estimate on the lists of MapProc (%r)" % oc)
    if not any(k.startswith("MAP/estimate/direct") for k in oc) or not oc.get("sample/draws"):
        raise MachineryError("vacuous run: no configuration reached the closed-form MAP / direct sampling route (%r)" % oc)
    if not oc.get("reassign/MAP/estimate/direct") or not oc.get("reassign/sample/draws") or not oc.get("reassign/ML/estimate"):
        raise MachineryError("vacuous run: no reassign behaviour reached the closed-form MAP / direct sampling / ML (%r)" % oc)
    direct = [c for c in map_cases if c["covforms"]]
    for c in (direct[0], [k for k in direct if k["geo"] == "step"][0] if any(k["geo"] == "step" for k in direct) else map_cases[-1]):
        ctx.sample({"case": {k: c[k] for k in ("kind", "n", "m", "geo", "mdl", "A", "E", "G", "y", "noise", "prior", "route", "Lam", "rhs", "mu_q", "LamInv_q", "xml_q")}})
    ctx.sample({"case": {k: pcs[0][k] for k in ("kind", "model", "F", "xstar_q", "y_q", "mu_q", "pe", "px", "hess_q")}})
    g = [g for g in re_groups if g["1111"]["noise"]["form"] == "sqrtprec" and g["1111"]["prior"]["form"] == "sqrtprec"][-1]
    keep = ("sel", "y", "noise", "prior", "C0_q", "Ce_q", "mu_q", "LamInv_q", "xml_q")
    ctx.sample({"case": {"kind": "reassign", "A": g["1111"]["A"], "behaviour": "build(1111) . ReWarm . ReAssign(prior) . ReAssign(noise) . ...",
                         "states": {k: {q: g[k][q] for q in keep} for k in ("1111", "1211", "1221", "2222")}}})
    ctx.rule = ("one case per configuration emitted by TLC from LinGauss.tla (parts map, poly, route) with exact mu_post, Lambda^-1, x_ML; "
                "non-trivial = distinct (configuration, call) among MAP / ML / direct sampling / polynomial MAP from two starts / route realisation; "
                "part reassign: one case per (behaviour, action reached, observable) = distinct (configuration, order, field just assigned, "
                "versions assigned, phase, observable); MapProc: one case per (order of a list, position)")
    ctx.exhaustive = True
    mpl = [c for c in mp_cases if len(c["calls"]) == 3]
    if mpl:
        ctx.sample({"case": {"kind": "mapproc", "behaviour": " . ".join("Call(%s)" % k["name"] for k in mpl[0]["calls"]),
                             "calls": [{q: k[q] for q in ("name", "which", "n", "pe", "px", "limit")} for k in mpl[0]["calls"]]}})
    ex = [c for c in sc_cases if c["mdl"] == "function" and c["geo"] == "scale" and c["pf"] == "full"]
    ctx.sample({"case": ex[0]}, limit=9)
    ctx.sample({"case": {k: v for k, v in sorted(ng_cases, key=lambda c: (c["n"], c["which"]))[len(ng_cases) // 2].items() if not k.endswith("_q") or k == "xstar_q"}}, limit=9)
    ctx.traces = len(map_cases) + len(vec_cases) + len(pcs) + 1 + ctx.observations.get("reassign_behaviours", 0) + len(mp_cases) + len(ms_cases)
    ctx.assumptions += ["scipy BFGS / L-BFGS-B defaults (gtol 1e-5) define the tolerance of the optimisation route (gradient <= 1e-4 x scale)",
                        "sqrtcov convention cov = S S^T (code and tests/test_distribution.py; the docstring says S^T S)",
                        "an exception of MAP/ML/sample_posterior is an accepted outcome (property: 'the call fails instead of returning another point')",
                        "results whose solver info reports success=False are recorded, not judged",
                        "sizes and the integer/dyadic lattice bounded by LinGauss.*.cfg",
                        "reassign: BayesianProblem conditions copies of the distributions it is given (Distribution._condition -> _make_copy), "
                        "so values are assigned to BP.prior, BP.likelihood.distribution and BP.likelihood.data (the objects the problem holds); "
                        "a refused assignment or a failing call after an assignment is an accepted outcome, another value is not",
                        "reassign: log-densities are compared as differences between two points (normalisation belongs to C04)",
                        "MapProc: every list runs in its own python process (sys.executable -m cuqiverif.props.c15); the optimiser is "
                        "deterministic, so the outcome of a call inside a list is compared with the outcome of the same call alone "
                        "in a process (relative 1e-9)"]


def replay(ctx, case):
    kind = case.get("kind")
    if kind == "model":
        return run(ctx)
    if kind in ("map", "mapvec"):
        return check_map_case(ctx, case)
    if kind == "poly":
        return check_poly_case(ctx, case)
    if kind == "reassign":
        return check_reassign_chain(ctx, case["states"], case["order"], case["perm"], case["rot"])
    if kind == "mapproc":
        from cuqiverif import tlc
        import os
        wdir = os.path.join(tlc.WORK, "MapProc-c15-replay-%d" % os.getpid())
        try:
            # the list itself and every call of it alone
            lists = [{"kind": "mapproc", "calls": case["calls"]}] + [{"kind": "mapproc", "calls": [k]} for k in case["calls"]]
            return check_mapproc(ctx, lists if len(case["calls"]) > 1 else lists[:1], wdir, guard=False)
        finally:
            tlc.cleanup(wdir)
    if kind == "scale":
        from cuqiverif import c15_scale
        return c15_scale.check_scale(ctx, [dict(case, sc=case.get("pair", case["sc"]), scales=[] if "pair" in case else case["scales"])])
    if kind == "nograd":
        from cuqiverif import c15_scale
        return c15_scale.check_nograd(ctx, [case])
    if kind == "route":
        from cuqiverif import tlc
        res = ctx.tlc("LinGauss", cfg="LinGauss.route.cfg", workers=1, timeout=600)
        table = res.cases[0]["table"]
        tlc.cleanup(res)
        return check_routes(ctx, table)


if __name__ == "__main__":
    import sys
    _mp_child(sys.argv[1], sys.argv[2])
